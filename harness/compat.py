"""Compatibility layer: lets the unmodified wpull sources in /repo (written for
Python 3.4/3.5, SQLAlchemy 1, tornado 4, html5lib 0.9) import and run on the
sandbox interpreter (Python 3.12, SQLAlchemy 2, tornado 6, html5lib 1.1).

Import this module BEFORE any `wpull` import.  It only patches the standard
library / third-party entry points; no file under /repo is touched.
Part of the trusted base of the correspondence checks (DESIGN.md section 4).
"""
import asyncio
import collections
import collections.abc
import functools
import importlib.abc
import importlib.machinery
import importlib.util
import inspect
import os
import ssl
import sys
import types

REPO = os.environ.get('WPULL_REPO', '/repo')
if REPO not in sys.path:
    sys.path.insert(0, REPO)
sys.dont_write_bytecode = True

# ---- collections ABC aliases -------------------------------------------------
for _n in ('Mapping', 'MutableMapping', 'Sequence', 'MutableSequence', 'Set',
           'MutableSet', 'Callable', 'Iterable', 'Iterator', 'Sized',
           'Container', 'Hashable', 'KeysView', 'ValuesView', 'ItemsView'):
    if not hasattr(collections, _n):
        setattr(collections, _n, getattr(collections.abc, _n))


# ---- asyncio.coroutine -------------------------------------------------------
class _GenCoro(collections.abc.Coroutine):
    """A generator-based coroutine object acceptable to asyncio tasks."""
    __slots__ = ('gen', '__name__', '__qualname__')

    def __init__(self, gen, func=None):
        self.gen = gen
        self.__name__ = getattr(func, '__name__', 'coro')
        self.__qualname__ = getattr(func, '__qualname__', 'coro')

    def send(self, value):
        return self.gen.send(value)

    def throw(self, *args):
        return self.gen.throw(*args)

    def close(self):
        return self.gen.close()

    def __iter__(self):
        return self.gen

    def __next__(self):
        return self.gen.send(None)

    def __await__(self):
        return (yield from self.gen)

    @property
    def cr_frame(self):
        return getattr(self.gen, 'gi_frame', None)

    @property
    def cr_running(self):
        return getattr(self.gen, 'gi_running', False)

    @property
    def cr_code(self):
        return getattr(self.gen, 'gi_code', None)

    @property
    def cr_await(self):
        return getattr(self.gen, 'gi_yieldfrom', None)


def _coroutine(func):
    if inspect.iscoroutinefunction(func):
        return func
    if inspect.isgeneratorfunction(func):
        tfunc = types.coroutine(func)

        @functools.wraps(func)
        def wrapper(*args, **kwargs):
            return _GenCoro(tfunc(*args, **kwargs), func)
    else:
        @types.coroutine
        def _runner(*args, **kwargs):
            res = func(*args, **kwargs)
            if (asyncio.isfuture(res) or inspect.isgenerator(res)
                    or isinstance(res, collections.abc.Coroutine)):
                res = yield from _as_iter(res)
            return res

        @functools.wraps(func)
        def wrapper(*args, **kwargs):
            return _GenCoro(_runner(*args, **kwargs), func)
    wrapper._is_coroutine_marker_compat = True
    return wrapper


def _as_iter(obj):
    if isinstance(obj, _GenCoro):
        return obj.gen
    if inspect.isgenerator(obj):
        return obj
    return obj.__await__()


if not hasattr(asyncio, 'coroutine'):
    asyncio.coroutine = _coroutine
    import asyncio.coroutines as _ac
    _ac.coroutine = _coroutine
    _orig_iscf = asyncio.iscoroutinefunction

    def _iscoroutinefunction(func):
        return bool(getattr(func, '_is_coroutine_marker_compat', False)) or _orig_iscf(func)
    asyncio.iscoroutinefunction = _iscoroutinefunction
    _ac.iscoroutinefunction = _iscoroutinefunction


# ---- `with (yield from lock):` ----------------------------------------------
class _LockCM:
    __slots__ = ('_lock',)

    def __init__(self, lock):
        self._lock = lock

    def __enter__(self):
        return None

    def __exit__(self, *exc):
        self._lock.release()
        return False


def _lock_iter(self):
    yield from self.acquire().__await__()
    return _LockCM(self)


for _cls in (asyncio.Lock, asyncio.Condition, asyncio.Semaphore):
    if not hasattr(_cls, '__iter__'):
        _cls.__iter__ = _lock_iter

# yield from on a Future / Task works through __iter__ = __await__ already.

# ---- asyncio.async / get_event_loop tolerance ------------------------------
if not hasattr(asyncio, 'JoinableQueue'):
    asyncio.JoinableQueue = asyncio.Queue

# ---- tornado ----------------------------------------------------------------
try:
    import tornado.netutil
    if not hasattr(tornado.netutil, 'SSLCertificateError'):
        tornado.netutil.SSLCertificateError = ssl.CertificateError
except ImportError:  # pragma: no cover
    pass

# ---- imp stub -----------------------------------------------------------------
if 'imp' not in sys.modules:
    try:
        import imp  # noqa
    except ImportError:
        _imp = types.ModuleType('imp')
        _imp.PY_SOURCE = 1
        _imp.PY_COMPILED = 2
        _imp.C_EXTENSION = 3
        _imp.PKG_DIRECTORY = 5

        def _find_module(name, path=None):
            raise ImportError(name)

        def _load_module(name, file, pathname, description):
            # what yapsy needs to load wpull's bundled plugins (*.plugin.py): a module from a source file
            if description and description[-1] == _imp.PY_SOURCE and pathname:
                spec = importlib.util.spec_from_file_location(name, pathname)
                module = importlib.util.module_from_spec(spec)
                sys.modules[name] = module
                spec.loader.exec_module(module)
                return module
            raise ImportError(name)
        _imp.find_module = _find_module
        _imp.load_module = _load_module
        _imp.load_source = lambda name, path: importlib.machinery.SourceFileLoader(name, path).load_module()
        sys.modules['imp'] = _imp

# ---- html5lib.tokenizer -----------------------------------------------------
try:
    import html5lib
    if 'html5lib.tokenizer' not in sys.modules:
        try:
            import html5lib.tokenizer  # noqa
        except ImportError:
            import html5lib._tokenizer as _tk
            _mod = types.ModuleType('html5lib.tokenizer')

            class HTMLTokenizer(_tk.HTMLTokenizer):
                def __init__(self, stream, encoding=None, parseMeta=True,
                             useChardet=True, lowercaseElementName=True,
                             lowercaseAttrName=True, parser=None, **kwargs):
                    if encoding:
                        kwargs['override_encoding'] = encoding
                        kwargs['useChardet'] = False
                    super().__init__(stream, parser=parser, **kwargs)
            _mod.HTMLTokenizer = HTMLTokenizer
            sys.modules['html5lib.tokenizer'] = _mod
            html5lib.tokenizer = _mod
except ImportError:  # pragma: no cover
    pass

# ---- SQLAlchemy 2: select([a, b]) ---------------------------------------------
try:
    import sqlalchemy
    import sqlalchemy.sql.expression as _sqlexp
    _orig_select = sqlalchemy.select

    def _select(*args, **kwargs):
        if len(args) == 1 and isinstance(args[0], (list, tuple)):
            args = tuple(args[0])
        return _orig_select(*args, **kwargs)
    sqlalchemy.select = _select
    _sqlexp.select = _select
    import warnings
    from sqlalchemy import exc as _sa_exc
    warnings.filterwarnings('ignore', category=_sa_exc.SAWarning)
except ImportError:  # pragma: no cover
    pass


# ---- source rewrite for files that do not parse ------------------------------
class _RewriteLoader(importlib.abc.SourceLoader):
    def __init__(self, fullname, path):
        self.fullname = fullname
        self.path = path

    def get_filename(self, fullname):
        return self.path

    def get_data(self, path):
        with open(path, 'rb') as f:
            data = f.read()
        return data.replace(b'asyncio.async(', b'asyncio.ensure_future(')

    def path_stats(self, path):
        raise OSError  # never use bytecode cache


class _RewriteFinder(importlib.abc.MetaPathFinder):
    TARGETS = {'wpull.driver.process': 'wpull/driver/process.py'}

    def find_spec(self, fullname, path, target=None):
        rel = self.TARGETS.get(fullname)
        if rel is None:
            return None
        p = os.path.join(REPO, rel)
        if not os.path.exists(p):
            return None
        return importlib.util.spec_from_loader(fullname, _RewriteLoader(fullname, p), origin=p)


sys.meta_path.insert(0, _RewriteFinder())


def disable_dns_python():
    """The sandbox has no DNS: make dnspython answer NXDOMAIN at once."""
    try:
        import dns.resolver

        def _query(self, *a, **k):
            raise dns.resolver.NXDOMAIN()
        dns.resolver.Resolver.query = _query
    except ImportError:
        pass


def new_loop():
    loop = asyncio.new_event_loop()
    asyncio.set_event_loop(loop)
    return loop


def run(coro, loop=None, timeout=None):
    """Run a (generator-)coroutine to completion on a fresh loop."""
    own = loop is None
    if own:
        loop = new_loop()
    try:
        if timeout is not None:
            coro = asyncio.wait_for(_ensure(coro), timeout)
        return loop.run_until_complete(_ensure(coro))
    finally:
        if own:
            try:
                pending = [t for t in asyncio.all_tasks(loop) if not t.done()]
                for t in pending:
                    t.cancel()
                if pending:
                    loop.run_until_complete(asyncio.gather(*pending, return_exceptions=True))
            except Exception:
                pass
            loop.close()
            asyncio.set_event_loop(None)


async def _await(obj):
    return await obj


def _ensure(obj):
    if isinstance(obj, _GenCoro):
        return _await(obj)
    return obj
