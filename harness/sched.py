"""Deterministic asyncio event loop for schedule exploration.

`DetLoop(seed)` runs exactly ONE ready handle per iteration, chosen by a seeded
PRNG (or by an explicit `chooser`), on a virtual clock that jumps to the next
timer when nothing is ready.  With pure-Python tasks (`use_py_tasks`) every
handle maps to the task it steps, so a run can be logged as "ran task T" and
replayed.  No real time passes, no sockets are needed.

    loop = DetLoop(seed); loop.use_py_tasks(); asyncio.set_event_loop(loop)
    loop.run_until_quiescent(main_coro)   -> (done?, result / exception)
"""
import asyncio
import heapq
import random

import compat  # noqa: F401


class DetLoop(asyncio.SelectorEventLoop):
    def __init__(self, seed=0, chooser=None):
        super().__init__()
        self._rng = random.Random(seed)
        self._vtime = 0.0
        self._chooser = chooser
        self.trace = []           # names of the tasks stepped, in order
        self.record = False
        self.steps = 0

    # ---- virtual time
    def time(self):
        return self._vtime

    def use_py_tasks(self):
        def factory(loop, coro, **kw):
            return asyncio.tasks._PyTask(coro, loop=loop, **kw)
        self.set_task_factory(factory)

    @staticmethod
    def handle_task(handle):
        """The task a ready handle will step, if it is a task step/wakeup."""
        cb = getattr(handle, '_callback', None)
        owner = getattr(cb, '__self__', None)
        if isinstance(owner, (asyncio.Task, asyncio.tasks._PyTask)):
            return owner
        return None

    def _pop_cancelled(self):
        while self._scheduled and self._scheduled[0]._cancelled:
            h = heapq.heappop(self._scheduled)
            h._scheduled = False

    def idle(self):
        """Nothing ready and no timer pending."""
        self._pop_cancelled()
        ready = [h for h in self._ready if not h._cancelled]
        return not ready and not self._scheduled

    def _run_once(self):
        self._pop_cancelled()
        if not self._ready and self._scheduled:
            self._vtime = max(self._vtime, self._scheduled[0]._when)
        # move due timers to ready (what the base class would do with timeout 0)
        end = self._vtime
        while self._scheduled and self._scheduled[0]._when <= end and not self._ready:
            h = heapq.heappop(self._scheduled)
            h._scheduled = False
            if not h._cancelled:
                self._ready.append(h)
        n = len(self._ready)
        if n > 1:
            if self._chooser is not None:
                k = self._chooser(self, list(self._ready))
            else:
                k = self._rng.randrange(n)
            self._ready.rotate(-k)
            h = self._ready.popleft()
            self._ready.rotate(k)
            stash = list(self._ready)
            self._ready.clear()
            self._ready.append(h)
            self._note(h)
            self._step_base()
            # handles scheduled by the step come after the stashed ones (FIFO)
            new = list(self._ready)
            self._ready.clear()
            self._ready.extend(stash)
            self._ready.extend(new)
        elif n == 1:
            self._note(self._ready[0])
            self._step_base()
        else:
            self._step_base()

    def _note(self, h):
        self.steps += 1
        if self.record:
            t = self.handle_task(h)
            self.trace.append(t.get_name() if t is not None else repr(getattr(h, '_callback', None))[:60])

    def _step_base(self):
        # never block in select(): there is no real I/O
        self._process_events(self._selector.select(0))
        ntodo = len(self._ready)
        for _ in range(ntodo):
            handle = self._ready.popleft()
            if handle._cancelled:
                continue
            handle._run()
        handle = None

    # ---- driving
    def run_until_quiescent(self, coro, max_steps=2_000_000, max_seconds=300):
        """Run `coro` as a task until it completes or the loop has nothing left
        to do (a hang).  Returns (done, task).  Besides the step bound there is a bound in wall-clock time
        (runs take seconds; one that has become endless is reported as not done instead of holding the check up)."""
        import time
        task = self.create_task(compat._ensure(coro))
        n = 0
        t0 = time.monotonic()
        self._thread_id_saved = None
        import asyncio.events as ev
        old = ev._get_running_loop()
        ev._set_running_loop(self)
        try:
            while not task.done() and n < max_steps:
                if self.idle():
                    break
                self._run_once()
                n += 1
                if n % 512 == 0 and time.monotonic() - t0 > max_seconds:
                    break
        finally:
            ev._set_running_loop(old)
        return task.done(), task

    def drain(self, max_steps=100000):
        """Run until idle (used to let cancellations settle)."""
        import asyncio.events as ev
        old = ev._get_running_loop()
        ev._set_running_loop(self)
        n = 0
        try:
            while not self.idle() and n < max_steps:
                self._run_once()
                n += 1
        finally:
            ev._set_running_loop(old)
        return n


def new_det_loop(seed=0, chooser=None):
    loop = DetLoop(seed, chooser)
    loop.use_py_tasks()
    asyncio.set_event_loop(loop)
    return loop


def close_loop(loop):
    try:
        pending = [t for t in asyncio.all_tasks(loop) if not t.done()]
        for t in pending:
            t.cancel()
        loop.drain()
    except Exception:
        pass
    loop.close()
    asyncio.set_event_loop(None)
