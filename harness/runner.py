#!/venv/bin/python
"""Entry point of every check:  runner.py <PROPERTY> quick|thorough
                                 runner.py <PROPERTY> --replay <file>

Decision procedure (DESIGN.md section 3):
  1. build the Lean project (models, proofs, driver)            -> proofs ok?
  2. audit: forbidden tokens, `#print axioms` of every obligation
  3. engine: corpus + generated cases; model driver vs the real wpull code
     from /repo's working tree; direct property oracle on the real code
  4. evidence/<id>.json; exit 0 | 1 (+ VIOLATION line) | 2 (infrastructure)
"""
import fcntl
import hashlib
import importlib
import json
import os
import random
import re
import subprocess
import sys
import time
import traceback

HERE = os.path.dirname(os.path.abspath(__file__))
VERIF = os.path.dirname(HERE)
LEAN = os.path.join(VERIF, 'lean')
REPO = os.environ.get('WPULL_REPO', '/repo')
DRIVER = os.path.join(LEAN, '.lake', 'build', 'bin', 'wpullmodel')
ALLOWED_AXIOMS = {'propext', 'Classical.choice', 'Quot.sound'}
FORBIDDEN = re.compile(r'\bsorry\b|\badmit\b|^\s*axiom\s|native_decide|bv_decide|implemented_by|\bunsafe\s|maxHeartbeats\s+0\b')

sys.path.insert(0, HERE)
sys.path.insert(1, os.path.join(HERE, 'engines'))


class Infra(Exception):
    """Infrastructure failure: exit 2, never a violation."""


# --------------------------------------------------------------------------
# Lean side
# --------------------------------------------------------------------------
def lake_build():
    os.makedirs(os.path.join(LEAN, '.lake'), exist_ok=True)
    lock = open(os.path.join(LEAN, '.lake', 'verif-build.lock'), 'w')
    fcntl.flock(lock, fcntl.LOCK_EX)
    try:
        p = subprocess.run(['lake', 'build'], cwd=LEAN, stdout=subprocess.PIPE,
                           stderr=subprocess.STDOUT, text=True)
        return p.returncode == 0, p.stdout
    finally:
        fcntl.flock(lock, fcntl.LOCK_UN)
        lock.close()


def strip_comments(src):
    # nested block comments /- -/ and line comments --
    out = []
    i, depth, n = 0, 0, len(src)
    while i < n:
        if src.startswith('/-', i):
            depth += 1
            i += 2
        elif depth and src.startswith('-/', i):
            depth -= 1
            i += 2
        elif depth:
            if src[i] == '\n':
                out.append('\n')
            i += 1
        elif src.startswith('--', i):
            while i < n and src[i] != '\n':
                i += 1
        else:
            out.append(src[i])
            i += 1
    return ''.join(out)


def grep_forbidden():
    hits = []
    for root, dirs, files in os.walk(LEAN):
        dirs[:] = [d for d in dirs if d != '.lake']
        for f in files:
            if not f.endswith('.lean'):
                continue
            p = os.path.join(root, f)
            with open(p, encoding='utf-8') as fh:
                src = strip_comments(fh.read())
            for ln, line in enumerate(src.split('\n'), 1):
                if FORBIDDEN.search(line):
                    hits.append('%s:%d: %s' % (os.path.relpath(p, VERIF), ln, line.strip()[:100]))
    return hits


def load_obligations(pid):
    path = os.path.join(LEAN, 'obligations', pid + '.json')
    if not os.path.exists(path):
        return []
    with open(path) as f:
        return json.load(f)


def audit(pid, obligations):
    """Return list of dicts {theorem, ok, axioms, why}."""
    if not obligations:
        return []
    tmp = os.path.join(LEAN, '.lake', 'audit_%s_%d.lean' % (pid, os.getpid()))
    mods = sorted({o.get('module', 'Proofs.' + pid) for o in obligations})
    with open(tmp, 'w') as f:
        for m in mods:
            f.write('import %s\n' % m)
        for o in obligations:
            f.write('#print axioms %s\n' % o['theorem'])
    try:
        p = subprocess.run(['lake', 'env', 'lean', tmp], cwd=LEAN, stdout=subprocess.PIPE,
                           stderr=subprocess.STDOUT, text=True)
    finally:
        try:
            os.remove(tmp)
        except OSError:
            pass
    text = p.stdout
    results = []
    for o in obligations:
        name = o['theorem']
        m = re.search(r"'%s' depends on axioms: \[([^\]]*)\]" % re.escape(name), text, re.S)
        m0 = re.search(r"'%s' does not depend on any axioms" % re.escape(name), text)
        if m0:
            results.append({'theorem': name, 'ok': True, 'axioms': []})
        elif m:
            axs = [a.strip() for a in m.group(1).replace('\n', ' ').split(',') if a.strip()]
            bad = [a for a in axs if a not in ALLOWED_AXIOMS]
            results.append({'theorem': name, 'ok': not bad, 'axioms': axs,
                            'why': ('uses axioms %s' % bad) if bad else ''})
        else:
            results.append({'theorem': name, 'ok': False, 'axioms': [],
                            'why': 'theorem not found / does not check'})
    return results


class Model:
    """The compiled Lean model driver, spoken to through the line protocol."""

    def __init__(self):
        self.lines = 0

    def ask(self, lines, jobs=None):
        lines = list(lines)
        if not lines:
            return []
        for l in lines:
            if '\n' in l:
                raise Infra('newline inside a driver request')
        self.lines += len(lines)
        jobs = jobs or min(16, max(1, len(lines) // 2000))
        if jobs <= 1:
            return self._ask1(lines)
        # split into contiguous chunks, run drivers in parallel
        k = (len(lines) + jobs - 1) // jobs
        chunks = [lines[i:i + k] for i in range(0, len(lines), k)]
        procs = []
        for c in chunks:
            pr = subprocess.Popen([DRIVER], stdin=subprocess.PIPE, stdout=subprocess.PIPE)
            procs.append((pr, c))
        import threading
        outs = [None] * len(procs)

        def work(i, pr, c):
            o, _ = pr.communicate(('\n'.join(c) + '\n').encode('ascii'))
            outs[i] = o
        ths = [threading.Thread(target=work, args=(i, pr, c)) for i, (pr, c) in enumerate(procs)]
        for t in ths:
            t.start()
        for t in ths:
            t.join()
        res = []
        for (pr, c), o in zip(procs, outs):
            got = o.decode('ascii').split('\n')
            if got and got[-1] == '':
                got.pop()
            if pr.returncode != 0 or len(got) != len(c):
                raise Infra('model driver failed (rc=%s, %d replies for %d requests)' % (pr.returncode, len(got), len(c)))
            res.extend(got)
        return res

    def _ask1(self, lines):
        p = subprocess.run([DRIVER], input=('\n'.join(lines) + '\n').encode('ascii'),
                           stdout=subprocess.PIPE)
        got = p.stdout.decode('ascii').split('\n')
        if got and got[-1] == '':
            got.pop()
        if p.returncode != 0 or len(got) != len(lines):
            raise Infra('model driver failed (rc=%s, %d replies for %d requests)' % (p.returncode, len(got), len(lines)))
        return got


def enc(seq):
    """Encode a str / bytes / list of ints for the driver."""
    if isinstance(seq, str):
        seq = [ord(c) for c in seq]
    seq = list(seq)
    if not seq:
        return '-'
    return '.'.join('%x' % c for c in seq)


def dec(tok):
    if tok == '-':
        return []
    return [int(x, 16) for x in tok.split('.')]


def dec_str(tok):
    return ''.join(chr(c) for c in dec(tok))


def dec_bytes(tok):
    return bytes(dec(tok))


# --------------------------------------------------------------------------
# known findings
# --------------------------------------------------------------------------
def load_findings(pid):
    out = []
    path = os.path.join(VERIF, 'KNOWN_FINDINGS.txt')
    if not os.path.exists(path):
        return out
    for line in open(path, encoding='utf-8'):
        line = line.strip()
        if not line.startswith('finding:'):
            continue
        head, _, what = line[len('finding:'):].partition(' : ')
        kv = dict(tok.split('=', 1) for tok in head.split() if '=' in tok)
        if kv.get('property') != pid:
            continue
        kv['what'] = what.strip()
        out.append(kv)
    return out


# --------------------------------------------------------------------------
# context handed to engines
# --------------------------------------------------------------------------
class Ctx:
    def __init__(self, pid, tier, seed):
        self.pid = pid
        self.tier = tier
        self.seed = seed
        self.rng = random.Random('%s/%d' % (pid, seed))
        self.model = Model()
        self.repo = REPO
        self.verif = VERIF
        self.jobs = int(os.environ.get('VERIF_JOBS', os.cpu_count() or 4))
        self.evaluations = 0
        self.distinct = set()
        self.samples = []
        self.distribution = {}
        self.disagreements = []
        self.failures = []      # property failures observed on the real code
        self.notes = {}
        self.exhaustive = False
        self.boost = 1          # budget multiplier (search mode)
        self.t0 = time.time()
        self.findings = load_findings(pid)
        self.dynamic_obligations = []   # per-run generated theorems: {'theorem', 'ok', 'axioms', 'says'}

    # budgets
    def scale(self, quick, thorough):
        n = quick if self.tier == 'quick' else thorough
        return int(n * self.boost)

    def subrng(self, name):
        return random.Random('%s/%d/%s' % (self.pid, self.seed, name))

    # coverage accounting
    def case(self, key, nontrivial=True, tags=()):
        """Register one evaluated case. key: hashable canonical input."""
        self.evaluations += 1
        if nontrivial:
            h = hashlib.blake2b(repr(key).encode('utf-8', 'surrogatepass'), digest_size=8).digest()
            self.distinct.add(h)
        for t in tags:
            self.distribution[t] = self.distribution.get(t, 0) + 1

    def tag(self, t, n=1):
        self.distribution[t] = self.distribution.get(t, 0) + n

    def sample(self, obj, limit=6):
        if len(self.samples) < limit:
            self.samples.append(obj)

    def note(self, k, v):
        self.notes[k] = v

    # results
    def disagree(self, stream, case, model, real):
        if len(self.disagreements) < 50:
            self.disagreements.append({'stream': stream, 'case': case, 'model': model, 'real': real})
        self.tag('disagree:' + stream)

    def fail(self, kind, where, case, detail=''):
        """A violation of the property observed on the real code."""
        self.tag('fail:%s/%s' % (kind, where))
        for f in self.failures:
            if f['kind'] == kind and f['where'] == where:
                f['count'] += 1
                return
        self.failures.append({'kind': kind, 'where': where, 'case': case, 'detail': detail, 'count': 1})

    def elapsed(self):
        return time.time() - self.t0


def jsonable(o):
    if isinstance(o, bytes):
        return {'hex': o.hex()}
    if isinstance(o, str):
        try:
            o.encode('utf-8')
            return o
        except UnicodeEncodeError:
            return {'codepoints': [ord(c) for c in o]}
    if isinstance(o, dict):
        return {str(k): jsonable(v) for k, v in o.items()}
    if isinstance(o, (list, tuple, set, frozenset)):
        return [jsonable(v) for v in o]
    if isinstance(o, (int, float, bool)) or o is None:
        return o
    return repr(o)


def unjson(o):
    if isinstance(o, dict):
        if set(o) == {'hex'}:
            return bytes.fromhex(o['hex'])
        if set(o) == {'codepoints'}:
            return ''.join(chr(c) for c in o['codepoints'])
        return {k: unjson(v) for k, v in o.items()}
    if isinstance(o, list):
        return [unjson(v) for v in o]
    return o


def write_replay(pid, name, payload):
    d = os.path.join(VERIF, 'replays')
    os.makedirs(d, exist_ok=True)
    path = os.path.join(d, '%s_%s.json' % (pid, name))
    with open(path, 'w') as f:
        json.dump(jsonable(payload), f, indent=1)
    return os.path.relpath(path, VERIF)


def classify(ctx, failure):
    for f in ctx.findings:
        if f.get('kind') == failure['kind'] and f.get('where') == failure['where']:
            return f
    return None


# --------------------------------------------------------------------------
def main(argv):
    if len(argv) < 3:
        print(__doc__)
        return 2
    pid = argv[1]
    seed = int(os.environ.get('VERIF_SEED', '0'))
    if os.environ.get('VERIF_COV'):
        import cov
        cov.install(os.environ['VERIF_COV'], os.path.join(os.environ.get('WPULL_REPO', '/repo'), 'wpull') + os.sep)
    replay = None
    if argv[2] == '--replay':
        replay = argv[3]
        tier = 'quick'
    else:
        tier = argv[2]
        if tier not in ('quick', 'thorough'):
            print('tier must be quick or thorough')
            return 2
    import logging
    logging.getLogger().addHandler(logging.NullHandler())   # keep wpull's own warnings off stderr
    t0 = time.time()
    ctx = Ctx(pid, tier, seed)
    try:
        engine = importlib.import_module('engines.' + pid.lower())
    except Exception:
        traceback.print_exc()
        print('INFRA: cannot import engine for', pid)
        return 2

    # 1. proofs
    build_ok, build_log = lake_build()
    obligations = load_obligations(pid)
    forb = grep_forbidden()
    if build_ok:
        aud = audit(pid, obligations)
    else:
        aud = [{'theorem': o['theorem'], 'ok': False, 'axioms': [], 'why': 'lake build failed'} for o in obligations]
        sys.stderr.write(build_log[-3000:] + '\n')
    if forb:
        for a in aud:
            a['ok'] = False
            a['why'] = 'forbidden token in Lean sources: ' + forb[0]
    if build_ok and tier == 'thorough' and replay is None and obligations:
        mods = sorted({o.get('module', 'Proofs.' + pid) for o in obligations})
        p = subprocess.run(['lake', 'env', 'leanchecker'] + mods, cwd=LEAN, stdout=subprocess.PIPE,
                           stderr=subprocess.STDOUT, text=True)
        ctx.note('leanchecker', {'modules': mods, 'rc': p.returncode, 'tail': p.stdout[-300:]})
        if p.returncode != 0:
            for a in aud:
                a['ok'] = False
                a['why'] = 'leanchecker rejected the compiled proofs: ' + p.stdout[-300:]
    broken = [a for a in aud if not a['ok']]
    if build_ok and not os.path.exists(DRIVER):
        print('INFRA: model driver missing after build')
        return 2

    if replay is not None:
        return do_replay(ctx, engine, replay)

    # 2. engine
    try:
        if build_ok:
            engine.run(ctx)
        elif hasattr(engine, 'oracle_only'):
            engine.oracle_only(ctx)
        unlisted = [f for f in ctx.failures if classify(ctx, f) is None]
        if (broken or ctx.disagreements) and not unlisted and hasattr(engine, 'search'):
            # proof or correspondence broke: look harder for a failing input
            ctx.boost = 20
            ctx.tag('search-mode')
            engine.search(ctx)
    except Infra as e:
        print('INFRA:', e)
        return 2
    except SystemExit as e:
        print('INFRA: the code under test called sys.exit(%r) inside the engine (e.g. argparse rejecting a generated command line)' % (e.code,))
        return 2
    except Exception:
        traceback.print_exc()
        print('INFRA: engine crashed')
        return 2

    for d in ctx.dynamic_obligations:
        aud.append({'theorem': d['theorem'], 'ok': bool(d['ok']), 'axioms': d.get('axioms', []), 'why': d.get('why', '')})
        obligations = obligations + [{'theorem': d['theorem'], 'strength': d.get('strength', 'partial'), 'says': d.get('says', '')}]
    broken = [a for a in aud if not a['ok']]

    # 3. decide
    rc = 0
    lines = []
    listed_hit = {}
    unlisted = []
    for f in ctx.failures:
        k = classify(ctx, f)
        if k is None:
            unlisted.append(f)
        else:
            listed_hit[(k['kind'], k['where'])] = (k, f)
    for (k, f) in listed_hit.values():
        lines.append('KNOWN-FINDING: property=%s kind=%s where=%s %s (seen %d times this run)'
                     % (pid, k['kind'], k['where'], k['what'], f['count']))
    for f in unlisted:
        path = write_replay(pid, '%s_%s' % (f['kind'], f['where']),
                            {'property': pid, 'type': 'failing-input', 'kind': f['kind'],
                             'where': f['where'], 'case': f['case'], 'detail': f['detail']})
        lines.append('VIOLATION property=%s replay=%s' % (pid, path))
        rc = 1
    if not unlisted:
        if broken:
            path = write_replay(pid, 'proof_broken',
                                {'property': pid, 'type': 'proof-obligation-broken',
                                 'theorems': broken, 'forbidden': forb})
            for b in broken[:5]:
                lines.append('  broken obligation: %s (%s)' % (b['theorem'], str(b.get('why', ''))[:300]))
            lines.append('VIOLATION property=%s replay=%s no-failing-input-found' % (pid, path))
            rc = 1
        elif ctx.disagreements:
            path = write_replay(pid, 'correspondence_broken',
                                {'property': pid, 'type': 'correspondence-broken',
                                 'streams': sorted({d['stream'] for d in ctx.disagreements}),
                                 'disagreements': ctx.disagreements[:10]})
            lines.append('VIOLATION property=%s replay=%s no-failing-input-found' % (pid, path))
            rc = 1

    # 4. evidence
    wall = time.time() - t0
    ev = {
        'property_id': pid, 'tier': tier, 'seed': seed, 'level': 'proof',
        'coverage': {
            'obligations': len(aud), 'discharged': len([a for a in aud if a['ok']]),
            'checker_cmd': 'cd lean && lake build && lake env lean <#print axioms of each obligation>'
                           + (' && lake env leanchecker Proofs.%s' % pid if tier == 'thorough' else ''),
            'trusted_base': ['Lean 4.33.0 kernel', 'axioms: propext, Classical.choice, Quot.sound only (audited per theorem)',
                             'hand-written Lean model tied to /repo by the correspondence run counted below',
                             'harness/compat.py shim (py3.12 / SQLAlchemy 2 / tornado 6 / html5lib 1.1)']
                            + list(getattr(engine, 'TRUSTED', [])),
            'theorems': [{'theorem': a['theorem'], 'ok': a['ok'], 'axioms': a['axioms'],
                          'strength': o.get('strength', ''), 'says': o.get('says', '')}
                         for a, o in zip(aud, obligations)],
            'evaluations': ctx.evaluations,
            'distinct_nontrivial': len(ctx.distinct),
            'rule': getattr(engine, 'RULE', ''),
            'samples': jsonable(ctx.samples) or [{'note': 'no cases'}],
            'distribution': dict(sorted(ctx.distribution.items())),
            'model_requests': ctx.model.lines,
            'correspondence_disagreements': len(ctx.disagreements),
            'exhaustive': bool(ctx.exhaustive),
            'unproved': list(getattr(engine, 'UNPROVED', [])),
            'notes': jsonable(ctx.notes),
        },
        'assumptions': list(getattr(engine, 'ASSUMPTIONS', [])),
        'wall_s': round(wall, 2),
        'violations': len(unlisted) + (1 if rc and not unlisted else 0),
        'known_findings_seen': [l for l in lines if l.startswith('KNOWN-FINDING')],
    }
    os.makedirs(os.path.join(VERIF, 'evidence'), exist_ok=True)
    with open(os.path.join(VERIF, 'evidence', pid + '.json'), 'w') as f:
        json.dump(ev, f, indent=1, sort_keys=False)
    for l in lines:
        print(l)
    print('%s %s seed=%d: %d cases (%d distinct non-trivial), %d model requests, %d/%d obligations, '
          '%d disagreements, %d unlisted failures, %.1fs -> exit %d'
          % (pid, tier, seed, ctx.evaluations, len(ctx.distinct), ctx.model.lines,
             len([a for a in aud if a['ok']]), len(aud), len(ctx.disagreements), len(unlisted), wall, rc))
    return rc


def do_replay(ctx, engine, path):
    if not os.path.isabs(path):
        path = os.path.join(VERIF, path)
    with open(path) as f:
        payload = unjson(json.load(f))
    typ = payload.get('type', 'failing-input')
    if typ != 'failing-input':
        print('replay file names a broken %s, not an input:' % typ)
        print(json.dumps(jsonable(payload), indent=1)[:4000])
        return 0
    try:
        engine.replay(ctx, payload['case'], payload.get('kind'), payload.get('where'))
    except Infra as e:
        print('INFRA:', e)
        return 2
    if ctx.failures:
        for f in ctx.failures:
            print('REPRODUCED kind=%s where=%s detail=%s' % (f['kind'], f['where'], str(f['detail'])[:500]))
        print('VIOLATION property=%s replay=%s' % (ctx.pid, os.path.relpath(path, VERIF)))
        return 1
    print('not reproduced on the current tree')
    return 0


if __name__ == '__main__':
    # every temporary file of the run (the harness's own and those the code under test leaves behind when a child is
    # killed on purpose) goes below one scratch directory, which is removed when the check ends
    import atexit
    import shutil
    import tempfile
    _scratch = tempfile.mkdtemp(prefix='wpull-verif-run-')
    os.environ['TMPDIR'] = _scratch
    tempfile.tempdir = _scratch
    _main_pid = os.getpid()

    def _clean():
        if os.getpid() == _main_pid:
            shutil.rmtree(_scratch, ignore_errors=True)
    atexit.register(_clean)
    sys.exit(main(sys.argv))
