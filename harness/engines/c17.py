"""C17 — Each FTP command is one line, and replies are read whole.

Streams (model `Wpull.Ftp` vs the real code in /repo):
  cmd       Command(name, arg).to_bytes()                    function level
  readline  wpull Connection.readline over asyncio.StreamReader, segmented feed
  reply     ControlStream.read_reply over a segmented control stream
  transfer  Commander.read_stream (data connection + closing reply)
  session   oracle only: the real ftp Session.start / start_listing driven by
            URLs with every byte value percent-encoded in path / user /
            password against an in-memory FTP server; every write on the
            control connection must be exactly one line.
"""
import asyncio
import re
import compat  # noqa: F401
import fakenet
from runner import enc, dec, Infra

RULE = ('cmd: names x arguments drawn from an alphabet weighted towards CR/LF/NUL/non-ASCII/surrogates; '
        'reply: grammar-generated multi-line replies (codes, continuation marks, bare CR, missing LF, over-long lines) '
        'x random/every-cut/all-single-byte segmentations; transfer: data segments x eof x closing reply; '
        'session: every byte value 0..255 percent-encoded at 3 positions of path, user and password. '
        'non-trivial = the case reaches a parser/serialiser branch beyond the empty input; distinct by canonical input')
TRUSTED = ['asyncio.StreamReader.readline semantics are mirrored (differential stream "readline")',
           'harness/fakenet.py in-memory transports']
ASSUMPTIONS = ['the command name passed to Command is already what str.upper() returns (constants in the code)',
               'reply text is compared as UTF-8 bytes (surrogateescape decode is a bijection onto its image)']
UNPROVED = []

NAMES = ['USER', 'PASS', 'RETR', 'LIST', 'MLSD', 'SIZE', 'REST', 'TYPE', 'PASV', 'CWD']


# ------------------------------------------------------------------ helpers
def arun(coro):
    return compat.run(coro)


def gen_arg(rng):
    n = rng.choice([0, 1, 2, 3, 5, 8, 13, 30])
    out = []
    for _ in range(n):
        r = rng.random()
        if r < 0.12:
            out.append(rng.choice('\r\n'))
        elif r < 0.16:
            out.append('\x00')
        elif r < 0.55:
            out.append(rng.choice('abcXYZ/ .-_%0123'))
        elif r < 0.65:
            out.append(chr(rng.randrange(0x80, 0x800)))
        elif r < 0.72:
            out.append(chr(rng.randrange(0xdc80, 0xdd00)))
        elif r < 0.76:
            out.append(chr(rng.choice([0xd800, 0xdbff, 0xdc00, 0xdc7f, 0xdd00, 0xdfff])))
        elif r < 0.86:
            out.append(chr(rng.randrange(0x800, 0xd800)))
        elif r < 0.93:
            out.append(chr(rng.randrange(0x10000, 0x110000)))
        else:
            out.append(chr(rng.randrange(0, 0x80)))
    return ''.join(out)


def single_line(data):
    return data.endswith(b'\r\n') and b'\r' not in data[:-2] and b'\n' not in data[:-2]


def real_cmd(name, arg):
    from wpull.protocol.ftp.request import Command
    try:
        return ('ok', Command(name, arg).to_bytes())
    except Exception as e:
        return ('exc', classify_exc(e))


def classify_exc(e):
    import wpull.errors as we
    from wpull.protocol.ftp.util import FTPServerError
    for cls, name in ((FTPServerError, 'FTPServerError'), (we.AuthenticationError, 'AuthenticationError'),
                      (we.ProtocolError, 'ProtocolError'), (we.NetworkTimedOut, 'NetworkTimedOut'),
                      (we.NetworkError, 'NetworkError'),
                      (UnicodeEncodeError, 'UnicodeEncodeError'), (UnicodeDecodeError, 'UnicodeDecodeError'),
                      (AssertionError, 'AssertionError'), (ValueError, 'ValueError')):
        if isinstance(e, cls):
            return name
    return type(e).__name__


# ------------------------------------------------------------------ cmd
def stream_cmd(ctx, cases):
    lines = ['ftp cmd %s %s' % (enc(n), enc(a)) for n, a in cases]
    replies = ctx.model.ask(lines)
    for (n, a), rep in zip(cases, replies):
        kind, val = real_cmd(n, a)
        tags = ['cmd:' + kind]
        if any(c in a for c in '\r\n'):
            tags.append('cmd:has-linebreak')
        ctx.case(('cmd', n, a), nontrivial=bool(a), tags=tags)
        real = ('ok ' + enc(val)) if kind == 'ok' else ('exc ' + val)
        if real != rep:
            ctx.disagree('cmd', {'name': n, 'arg': a}, rep, real)
        if kind == 'ok' and not single_line(val):
            ctx.fail('crlf-injection', 'Command.to_bytes', {'stream': 'cmd', 'name': n, 'arg': a},
                     'command bytes %r are not a single CRLF-terminated line' % val)
    if cases:
        ctx.sample({'stream': 'cmd', 'name': cases[0][0], 'arg': cases[0][1]})


# ------------------------------------------------------------------ readline / reply / transfer
async def _open_conn(net, port=21):
    from wpull.network.connection import Connection
    c = Connection(('10.0.0.1', port), 'h')
    await compat._ensure(c.connect())
    return c, net.conns[-1]


class _Passive:
    """handler without behaviour; the test body feeds the connection"""


def real_readline(segs, eof=True):
    async def go():
        net = fakenet.FakeNet()
        net.default = _Passive
        with net:
            conn, fc = await _open_conn(net)
            feeder = asyncio.ensure_future(fc.send_segments(segs, eof=eof))
            task = asyncio.ensure_future(compat._ensure(conn.readline()))
            done = await fakenet.settle(task, [feeder])
            if not done:
                task.cancel()
                return ('stalled',)
            try:
                line = task.result()
            except Exception as e:
                return ('exc', classify_exc(e))
            await feeder
            rest = bytes(fc.reader._buffer)
            return ('ok', line, rest)
    return arun(go())


def real_reply(segs):
    from wpull.protocol.ftp.stream import ControlStream

    async def go():
        net = fakenet.FakeNet()
        net.default = _Passive
        with net:
            conn, fc = await _open_conn(net)
            stream = ControlStream(conn)
            seen = []
            stream.data_event_dispatcher.add_read_listener(lambda d: seen.append(bytes(d)))
            feeder = asyncio.ensure_future(fc.send_segments(segs, eof=True))
            task = asyncio.ensure_future(compat._ensure(stream.read_reply()))
            done = await fakenet.settle(task, [feeder])
            if not done:
                task.cancel()
                return ('stalled',)
            try:
                reply = task.result()
            except Exception as e:
                return ('exc', classify_exc(e))
            await feeder
            rest = bytes(fc.reader._buffer)
            text = None if reply.text is None else reply.text.encode('utf-8', 'surrogateescape')
            return ('ok', reply.code, text, rest, seen)
    return arun(go())


def fmt_reply(res):
    if res[0] == 'ok':
        _, code, text, rest, seen = res
        return 'ok %s %s %s %s' % ('None' if code is None else code,
                                    'None' if text is None else '=' + enc(text), enc(rest),
                                    '~' if not seen else '/'.join(enc(s) for s in seen))
    if res[0] == 'exc':
        return 'exc ' + res[1]
    return res[0]


def enc_segs(segs):
    return '~' if not segs else '/'.join(enc(s) for s in segs)


def gen_reply_bytes(rng):
    """A control-stream prefix: mostly a well-formed (multi-line) reply, with mutations."""
    code = rng.choice([220, 226, 150, 125, 331, 230, 500, 425, 227, 213, 200, 350])
    nl = rng.choice([b'\r\n', b'\r\n', b'\r\n', b'\n'])
    lines = []
    k = rng.choice([0, 0, 1, 2, 3, 5])
    for i in range(k):
        style = rng.random()
        text = bytes(rng.choice(b'abc xyz-()0123,.\xc3\xa9\xff') for _ in range(rng.randrange(0, 12)))
        if rng.random() < 0.2:
            # what str.splitlines() / str \d would treat specially (bytes.splitlines and [0-9] do not): VT FF FS GS RS NEL LS PS,
            # Arabic-Indic and full-width digits
            odd = rng.choice([b'\x0b', b'\x0c', b'\x1c', b'\x1d', b'\x1e', b'\xc2\x85', b'\xe2\x80\xa8', b'\xe2\x80\xa9'])
            text = text[:len(text) // 2] + odd + rng.choice([b'226 ok', b'%d done' % code, b'', b'x']) + text[len(text) // 2:]
        elif rng.random() < 0.08:
            text = rng.choice([b'\xd9\xa2\xd9\xa2\xd9\xa6 ', b'\xef\xbc\x92\xef\xbc\x92\xef\xbc\x96 ']) + text
        if style < 0.5:
            lines.append(b'%d-%s' % (code, text))
        elif style < 0.7:
            lines.append(b' ' + text)
        elif style < 0.8:
            lines.append(b'%d%s' % (rng.randrange(100, 999), text))
        elif style < 0.9:
            lines.append(text)
        else:
            lines.append(b'%d-%s\r%s' % (code, text, rng.choice([b'', b'x', b'226 y', b'12'])))
    final = b'%d %s' % (code, bytes(rng.choice(b'OK done (1,2,3,4,5,6)') for _ in range(rng.randrange(0, 14))))
    data = b''.join(l + nl for l in lines)
    r = rng.random()
    if r < 0.75:
        data += final + nl
    elif r < 0.85:
        data += final                 # no terminator, EOF
    elif r < 0.9:
        pass                          # never a final line
    else:
        data += final + b'\r220 second code\n'
    if rng.random() < 0.4:
        data += rng.choice([b'226 next\r\n', b'x', b'150 a\r\n226 b\r\n', b'\n'])
    if rng.random() < 0.05:
        big = b'a' * rng.choice([65535, 65536, 65537, 70000, 140000])
        bigline = rng.choice([b'220-', b'', b' ']) + big + rng.choice([b'\n', b'\r\n', b''])
        if rng.random() < 0.5 or b'\n' not in data:
            data = bigline + data
        else:
            # the over-long line is a LATER line of a multi-line reply (free text of a banner)
            k = data.index(b'\n') + 1
            data = data[:k] + bigline + data[k:]
    if rng.random() < 0.1:
        # byte-level mutation
        b = bytearray(data)
        for _ in range(rng.randrange(1, 4)):
            if b:
                b[rng.randrange(len(b))] = rng.choice(b'\r\n -0123456789a\x00\xff')
        data = bytes(b)
    r = rng.random()
    if r < 0.12 and data:
        data = data[:rng.randrange(len(data) + 1)]       # the connection is lost at an arbitrary byte
    elif r < 0.22 and b'\r' in data:
        pos = [i for i, c in enumerate(data) if c == 13]
        data = data[:rng.choice(pos) + 1]                # ... exactly between a CR and its LF
    return data


def every_prefix(datas):
    """connection loss after every byte of a reply stream"""
    return [d[:k] for d in datas for k in range(len(d) + 1)]


def stream_reply(ctx, datas, cutsets):
    """datas: list of byte streams, cutsets: per stream a list of segmentations (cut lists)."""
    reqs = []
    meta = []
    for data, cs in zip(datas, cutsets):
        for cuts in cs:
            segs = fakenet.segment(data, cuts)
            reqs.append('ftp reply ' + enc_segs(segs))
            meta.append((data, segs))
    replies = ctx.model.ask(reqs)
    by_data = {}
    for (data, segs), rep in zip(meta, replies):
        real_res = real_reply(segs)
        real = fmt_reply(real_res)
        tags = ['reply:' + real.split(' ')[0] + (':' + real.split(' ')[1] if real.startswith('exc') else '')]
        tags.append('reply:segs=%s' % ('1' if len(segs) <= 1 else '2-4' if len(segs) <= 4 else '5+'))
        ctx.case(('reply', data, tuple(segs)), nontrivial=len(data) > 0, tags=tags)
        if real != rep:
            ctx.disagree('reply', {'data': data, 'segs': segs}, rep, real)
        res = real_res
        if res[0] == 'ok':
            consumed = data[:len(data) - len(res[3])]
            last = consumed[:-1].rsplit(b'\n', 1)[-1]      # the last LF-terminated line read
            # (the code also takes a bare CR inside it as a line end: any of those pieces may carry the code)
            if consumed.endswith(b'\n') and not any(re.match(rb'\d{3} ', x) for x in last.splitlines()):
                # RFC 959: only a line that begins with the code followed by a space ends a reply
                ctx.fail('reply-cut-short', 'Reply.parse', {'stream': 'reply', 'data': data, 'segs': segs},
                         'reply %s ended at the line %r, which is not "ddd<space>text"; %d bytes of it left on the control stream'
                         % (res[1], last[:40], len(res[3])))
            if not consumed.endswith(b'\n'):
                ctx.fail('reply-not-whole', 'read_reply', {'stream': 'reply', 'data': data, 'segs': segs},
                         'a reply (code %s) was returned although the control stream ended inside its last line: %r' % (res[1], consumed[-30:]))
        prev = by_data.setdefault(data, (segs, real))
        if prev[1] != real:
            ctx.fail('segmentation-dependent', 'read_reply',
                     {'stream': 'reply', 'data': data, 'segs_a': prev[0], 'segs_b': segs},
                     'reply differs between two segmentations: %s vs %s' % (prev[1][:200], real[:200]))
    if meta:
        ctx.sample({'stream': 'reply', 'data': meta[0][0], 'segments': meta[0][1]})


def stream_readline(ctx, datas, cutsets):
    reqs, meta = [], []
    for data, cs in zip(datas, cutsets):
        for cuts in cs:
            segs = fakenet.segment(data, cuts)
            reqs.append('ftp readline ' + enc_segs(segs))
            meta.append((data, segs))
    replies = ctx.model.ask(reqs)
    for (data, segs), rep in zip(meta, replies):
        res = real_readline(segs)
        real = ('%s %s' % (enc(res[1]), enc(res[2]))) if res[0] == 'ok' else ' '.join(res)
        ctx.case(('readline', data, tuple(segs)), nontrivial=len(data) > 0, tags=['readline:' + res[0]])
        if real != rep:
            ctx.disagree('readline', {'data': data, 'segs': segs}, rep, real)


def real_transfer(dsegs, deof, csegs):
    from wpull.protocol.ftp.stream import ControlStream, DataStream
    from wpull.protocol.ftp.command import Commander
    import io

    async def go():
        net = fakenet.FakeNet()
        net.default = _Passive
        with net:
            cconn, cfc = await _open_conn(net, 21)
            dconn, dfc = await _open_conn(net, 2020)
            commander = Commander(ControlStream(cconn))
            ds = DataStream(dconn)
            out = io.BytesIO()
            # the control reply may arrive before, during or after the data
            f1 = asyncio.ensure_future(dfc.send_segments(dsegs, eof=deof))
            f2 = asyncio.ensure_future(cfc.send_segments(csegs, eof=True))
            task = asyncio.ensure_future(compat._ensure(commander.read_stream(out, ds)))
            done = await fakenet.settle(task, [f1, f2])
            if not done:
                task.cancel()
                return ('stalled',)
            try:
                reply = task.result()
            except Exception as e:
                return ('exc', classify_exc(e))
            text = None if reply.text is None else reply.text.encode('utf-8', 'surrogateescape')
            return ('complete', out.getvalue(), reply.code, text, dfc.server_closed)
    return arun(go())


def stream_transfer(ctx, cases):
    reqs = ['ftp transfer %s %s %s' % (enc_segs(d), 'R' if e == 'reset' else 'T' if e else 'F', enc_segs(c)) for d, e, c in cases]
    replies = ctx.model.ask(reqs)
    for (d, e, c), rep in zip(cases, replies):
        res = real_transfer(d, e, c)
        if res[0] == 'complete':
            real = 'complete %s %s %s' % (enc(res[1]), res[2], 'None' if res[3] is None else '=' + enc(res[3]))
            whole_lines = b''.join(c).split(b'\n')[:-1]
            if e is not True or res[2] != 226 or res[1] != b''.join(d) or not any(l.startswith(b'226 ') for l in whole_lines):
                ctx.fail('premature-complete', 'read_stream', {'stream': 'transfer', 'data': d, 'eof': e, 'ctrl': c},
                         'transfer reported complete: eof=%s code=%s' % (e, res[2]))
        elif res[0] == 'exc':
            real = 'exc ' + res[1]
        else:
            real = res[0]
        ctx.case(('transfer', tuple(d), e, tuple(c)), tags=['transfer:' + real.split(' ')[0]])
        if real != rep:
            ctx.disagree('transfer', {'data': d, 'eof': e, 'ctrl': c}, rep, real)
    if cases:
        ctx.sample({'stream': 'transfer', 'data_segments': cases[0][0], 'data_eof': cases[0][1], 'control': cases[0][2]})


# ------------------------------------------------------------------ session oracle
class FtpServer:
    """A forgiving in-memory FTP server: answers line by line."""

    def __init__(self, net, listing=b'-rw-r--r-- 1 u g 3 Jan 01 2020 a.txt\r\n', mlsd=True):
        self.net = net
        self.listing = listing
        self.mlsd = mlsd
        self.buf = b''

    async def serve(self, conn):
        conn.send(b'220 ready\r\n')

    def on_write(self, conn, data):
        self.buf += data
        while b'\n' in self.buf:
            line, _, self.buf = self.buf.partition(b'\n')
            self.handle(conn, line.rstrip(b'\r'))

    def handle(self, conn, line):
        verb = line.split(b' ', 1)[0].upper()
        if verb == b'USER':
            conn.send(b'331 pw\r\n')
        elif verb == b'PASS':
            conn.send(b'230 ok\r\n')
        elif verb == b'TYPE':
            conn.send(b'200 ok\r\n')
        elif verb == b'PASV':
            conn.send(b'227 Entering Passive Mode (10,0,0,1,7,228)\r\n')
        elif verb == b'SIZE':
            conn.send(b'213 3\r\n')
        elif verb == b'REST':
            conn.send(b'350 ok\r\n')
        elif verb in (b'RETR', b'LIST', b'MLSD'):
            if verb == b'MLSD' and not self.mlsd:
                conn.send(b'500 what\r\n')
                return
            conn.send(b'150 here\r\n')
        else:
            conn.send(b'500 unknown\r\n')


class FtpData:
    async def serve(self, conn):
        conn.send(b'abc')
        conn.close()


def real_session_writes(url, listing=False, username=None, password=None):
    """Run the real ftp Session.start/start_listing; return (writes on control conn, outcome)."""
    from wpull.protocol.ftp.client import Client
    from wpull.protocol.ftp.request import Request
    from wpull.network.pool import ConnectionPool

    async def go():
        net = fakenet.FakeNet()
        net.listen('10.0.0.1', 21, lambda: FtpServer(net, mlsd=not listing or True))
        net.listen('10.0.0.1', 2020, FtpData)
        with net:
            pool = ConnectionPool(resolver=fakenet.FakeResolver())
            client = Client(connection_pool=pool)
            try:
                request = Request(url)
            except ValueError:
                return None, 'unparseable'
            if request.url_info.scheme != 'ftp':
                return None, 'not-ftp'
            request.username = username
            request.password = password
            outcome = 'ok'
            session = client.session()
            with session:
                try:
                    if listing:
                        coro = session.start_listing(request)
                    else:
                        coro = session.start(request)
                    task = asyncio.ensure_future(compat._ensure(coro))
                    done = await fakenet.settle(task, [], extra=200)
                    if not done:
                        task.cancel()
                        outcome = 'stalled'
                    else:
                        task.result()
                except Exception as e:
                    outcome = 'exc ' + classify_exc(e)
                    session.abort()
            ctrl = [c for c in net.conns if c.address[1] == 21]
            writes = [w for c in ctrl for w in c.writes]
            return writes, outcome
    return arun(go())


def check_session(ctx, url, listing=False, username=None, password=None, where='url'):
    writes, outcome = real_session_writes(url, listing, username, password)
    if writes is None:
        ctx.case(('session', url, listing, username, password), nontrivial=False, tags=['session:' + outcome])
        return
    ctx.case(('session', url, listing, username, password), tags=['session:' + outcome.split(' ')[-1]])
    for w in writes:
        if not single_line(w):
            ctx.fail('crlf-injection', 'Command.to_bytes',
                     {'stream': 'session', 'url': url, 'listing': listing, 'username': username, 'password': password},
                     'control connection write %r is not a single line (all writes: %r)' % (w, writes))
            return


# ------------------------------------------------------------------ whole session: start + download / listing
class ScriptedFtp(FtpServer):
    """FtpServer whose answer to RETR / LIST / MLSD is scripted: `pre` (normally a 150 reply) and the closing reply
    bytes, glued into one send or sent apart; the data connection serves `dsegs` and ends as told."""

    def __init__(self, net, plan):
        FtpServer.__init__(self, net, mlsd=plan.get('mlsd', True))
        self.plan = plan

    def handle(self, conn, line):
        verb = line.split(b' ', 1)[0].upper()
        if verb in (b'RETR', b'LIST', b'MLSD') and not (verb == b'MLSD' and not self.mlsd):
            # after the closing reply the server hangs up (the model's control stream is finite)
            if self.plan['glue']:
                conn.send(self.plan['pre'] + b''.join(self.plan['closing']))
                conn.close()
            else:
                conn.send(self.plan['pre'])
                self.net.feeders.append(asyncio.ensure_future(conn.send_segments(self.plan['closing'], eof=True, yields=self.plan.get('yields', 1))))
            return
        if verb == b'SIZE':
            conn.send(b'213 %d\r\n' % len(b''.join(self.plan['dsegs'])))
            return
        FtpServer.handle(self, conn, line)


def real_download(plan):
    """The real Session.start + download (or start_listing + download_listing). -> ('complete', body, code) | ('exc', cls) | ('stalled',)"""
    from wpull.protocol.ftp.client import Client
    from wpull.protocol.ftp.request import Request
    from wpull.network.pool import ConnectionPool
    import io

    feeders = []

    class Data:
        async def serve(self, conn):
            fut = asyncio.ensure_future(conn.send_segments(plan['dsegs'], eof=plan['end']))
            feeders.append(fut)
            await fut

    async def go():
        net = fakenet.FakeNet()
        net.feeders = feeders
        net.listen('10.0.0.1', 21, lambda: ScriptedFtp(net, plan))
        net.listen('10.0.0.1', 2020, Data)
        with net:
            if plan.get('timeout'):
                # --read-timeout: a stalled data connection must end in a timeout error, never be taken for end of data
                import functools
                from wpull.network.connection import Connection
                pool = ConnectionPool(resolver=fakenet.FakeResolver(),
                                      connection_factory=functools.partial(Connection, timeout=plan['timeout']))
            elif plan.get('limit_rate'):
                # --limit-rate at its edge values: the limit changes when bytes are read, never what a transfer is
                import functools
                from wpull.network.connection import Connection
                from wpull.network.bandwidth import BandwidthLimiter
                limiter = BandwidthLimiter(plan['limit_rate'])
                limiter.sleep_time = lambda: 0          # (the pauses themselves are real time and not what is judged here)
                pool = ConnectionPool(resolver=fakenet.FakeResolver(),
                                      connection_factory=functools.partial(Connection, bandwidth_limiter=limiter))
            else:
                pool = ConnectionPool(resolver=fakenet.FakeResolver())
            client = Client(connection_pool=pool)
            request = Request('ftp://h/dir/' if plan['listing'] else 'ftp://h/dir/f.bin')
            if plan.get('restart'):
                request.restart_value = plan['restart']
            out = io.BytesIO()
            if plan.get('prior_abort') and not plan['listing']:
                # an earlier fetch on the same client that is abandoned after RETR was sent (a listener raises at
                # begin_transfer, or the task is cancelled while the reply is read): whatever replies it leaves owed
                # must not be taken for answers to the commands of the next session
                from wpull.protocol.ftp.client import Session as _S
                first = client.session()
                try:
                    with first:
                        if plan['prior_abort'] == 'listener':
                            def boom(*a, **k):
                                raise OSError(28, 'listener failed')
                            first.event_dispatcher.add_listener(_S.Event.begin_transfer, boom)
                            await compat._ensure(first.start(Request('ftp://h/dir/other.bin')))
                        else:
                            t = asyncio.ensure_future(compat._ensure(first.start(Request('ftp://h/dir/other.bin'))))
                            for _ in range(plan.get('cancel_after', 12)):
                                await asyncio.sleep(0)
                            t.cancel()
                            try:
                                await t
                            except BaseException:
                                pass
                            raise asyncio.CancelledError()
                except BaseException:
                    pass
            session = client.session()
            with session:
                async def run_it():
                    if plan['listing']:
                        await compat._ensure(session.start_listing(request))
                        return await compat._ensure(session.download_listing(out))
                    await compat._ensure(session.start(request))
                    return await compat._ensure(session.download(out))
                task = asyncio.ensure_future(run_it())
                done = await fakenet.settle(task, feeders, extra=300)
                if not done and plan.get('timeout'):
                    for _ in range(8):                      # let real time pass: the close timer works on the loop clock
                        await asyncio.sleep(plan['timeout'])
                        done = await fakenet.settle(task, feeders, extra=50)
                        if done:
                            break
                if not done:
                    task.cancel()
                    try:
                        await task
                    except BaseException:
                        pass
                    session.abort()
                    return ('stalled',)
                try:
                    resp = task.result()
                except Exception as e:
                    session.abort()
                    return ('exc', classify_exc(e))
                return ('complete', out.getvalue(), resp.reply.code)
    return arun(go())


def stream_download(ctx, n):
    rng = ctx.subrng('download')
    plans = []
    for _ in range(n):
        listing = rng.random() < 0.3
        if listing:
            data = b''.join(rng.choice([b'-rw-r--r-- 1 u g 3 Jan 01 2020 a.txt\r\n', b'drwxr-xr-x 2 u g 4096 Jan 01 00:00 d\r\n']) for _ in range(rng.randint(0, 3)))
        else:
            data = bytes(rng.randrange(256) for _ in range(rng.choice([0, 1, 5, 40, 5000])))
        r = rng.random()
        closing = rng.choice([b'226 done\r\n', b'226 done\r\n', b'226-a\r\n226 b\r\n', b'226-Sent\r\n2260 of 5000 bytes\r\n226 ok\r\n', b'426 aborted\r\n',
                              b'426-Connection closed\r\n 226 blocks\r\n426 aborted\r\n', b'', b'226 done', b'226 done\r', b'550 no\r\n', b'150 again\r\n226 x\r\n',
                              b'226-x\x0c226 y\r\n426 no\r\n',
                              # positive replies that are not the confirmation of a transfer
                              b'221 Service closing control connection\r\n', b'225 Data connection open; no transfer in progress\r\n',
                              b'200 ok\r\n', b'230 logged in\r\n', b'250 done\r\n', b'250-a\r\n250 226\r\n', b'227 x\r\n'])
        plans.append({'listing': listing, 'mlsd': rng.random() < 0.7,
                      'dsegs': fakenet.segment(data, fakenet.random_cuts(rng, len(data))),
                      'end': True if r < 0.65 else 'reset' if r < 0.85 else False,
                      'pre': rng.choice([b'150 here\r\n', b'150 here\r\n', b'125 already open\r\n', b'150-a\r\n150 b\r\n']),
                      'closing': fakenet.segment(closing, fakenet.random_cuts(rng, len(closing))),
                      'glue': rng.random() < 0.4, 'yields': rng.choice([0, 1, 3]),
                      'prior_abort': rng.choice([None, None, 'listener', 'cancel']), 'cancel_after': rng.choice([6, 9, 12, 15, 20]),
                      'timeout': 0.03 if (r >= 0.85 and rng.random() < 0.6) else None,
                      'restart': rng.choice([None, None, 3]),
                      'limit_rate': rng.choice([None, None, None, 1, 5, 9, 10, 11, 4096, 10 ** 9]) if len(data) <= 40 and r < 0.65 else None})
    reqs = ['ftp transfer %s %s %s' % (enc_segs(p['dsegs']), 'R' if (p['end'] == 'reset' or (p['end'] is False and p.get('timeout'))) else 'T' if p['end'] else 'F',
                                       enc_segs(p['closing'])) for p in plans]
    replies = ctx.model.ask(reqs)
    for p, rep in zip(plans, replies):
        res = real_download(p)
        if res[0] == 'exc' and res[1] == 'NetworkTimedOut':
            res = ('exc', 'NetworkError')          # a timeout is a network error (the model has one kind)
        data = b''.join(p['dsegs'])
        ctx.case(('download', repr(sorted(p.items()))), tags=['download:' + res[0] + (':listing' if p['listing'] else ''), 'download:end=%s' % p['end']])
        case = dict(p, stream='download')
        if res[0] == 'complete':
            whole = b''.join(p['closing']).split(b'\n')[:-1]
            if p['end'] is not True or res[2] != 226 or not any(l.startswith(b'226 ') for l in whole) or (not p['listing'] and res[1] != data):
                ctx.fail('premature-complete', 'Session.download', case,
                         'session reported a completed transfer: data end=%s, reply %s, %d of %d bytes' % (p['end'], res[2], len(res[1]), len(data)))
            real = 'complete %s %s' % ('-' if p['listing'] else enc(res[1]), res[2])
        else:
            real = res[0] if res[0] != 'exc' else 'exc ' + res[1]
        if p.get('prior_abort') and not p['listing']:
            # independent of the model: what an abandoned earlier fetch left behind must not change this one
            alone = real_download(dict(p, prior_abort=None))
            if alone[0] == 'exc' and alone[1] == 'NetworkTimedOut':
                alone = ('exc', 'NetworkError')
            if alone != res:
                ctx.fail('reply-of-another-command', 'Session.abort', case,
                         'after an abandoned fetch (%s) on the same client this fetch ended as %r; on its own it ends as %r'
                         % (p['prior_abort'], res[:1] + res[2:], alone[:1] + alone[2:]))
        # the model's verdict for the same data stream / ending / closing-reply bytes
        if rep.startswith('complete'):
            parts = rep.split(' ')
            model = 'complete %s %s' % ('-' if p['listing'] else parts[1], parts[2])
        else:
            model = rep
        if model.split(' ')[0] != real.split(' ')[0] or (model.startswith('complete') and model != real):
            ctx.disagree('download', case, model, real)
    if plans:
        ctx.sample({'stream': 'download', 'plan': {k: v for k, v in plans[0].items()}})


# ------------------------------------------------------------------ several fetches on one client: what an earlier one leaves behind
FILES = {b'/dir/f.bin': bytes(range(256)) * 4, b'/dir/other.bin': b'O' * 700, b'/dir/big.bin': b'B' * 9000}


class HonestFtp(FtpServer):
    """A server that follows the protocol to the letter and never hangs up: one reply per command; after RETR the 150,
    and the closing reply (226, or 426 when the data connection broke) once the data connection has ended.  It notes
    every (command, reply) pair per control connection."""

    def __init__(self, net, world):
        FtpServer.__init__(self, net)
        self.world = world
        self.cwd = b'/'
        world['conns'] = world.get('conns', 0) + 1
        self.cid = world['conns']           # one server object per control connection (id() values are reused)

    def handle(self, conn, line):
        verb, _, arg = line.partition(b' ')
        verb = verb.upper()
        self.world['log'].append((self.cid, line))
        if verb == b'CWD':
            self.cwd = arg if arg.startswith(b'/') else self.cwd.rstrip(b'/') + b'/' + arg
            conn.send(b'250 ok\r\n')
        elif verb == b'SIZE':
            name = arg if arg.startswith(b'/') else self.cwd.rstrip(b'/') + b'/' + arg
            conn.send(b'213 %d\r\n' % len(FILES[name]) if name in FILES else b'550 no\r\n')
        elif verb == b'RETR':
            name = arg if arg.startswith(b'/') else self.cwd.rstrip(b'/') + b'/' + arg
            if name not in FILES:
                conn.send(b'550 no\r\n')
                return
            self.world['transfer'] = (conn, FILES[name])
            conn.send(b'150 here\r\n')
            self._wake()
        elif verb in (b'LIST', b'MLSD'):
            listing = (b'type=file;size=1024; f.bin\r\ntype=file;size=700; other.bin\r\ntype=file;size=9000; big.bin\r\n' if verb == b'MLSD' else
                       b'-rw-r--r-- 1 u g 1024 Jan 01 2020 f.bin\r\n-rw-r--r-- 1 u g 700 Jan 01 2020 other.bin\r\n-rw-r--r-- 1 u g 9000 Jan 01 2020 big.bin\r\n')
            self.world['transfer'] = (conn, listing)
            self.world['listing'] = True
            conn.send(b'150 here\r\n')
            self._wake()
        else:
            FtpServer.handle(self, conn, line)

    def _wake(self):
        w = self.world.get('data_waiting')
        if w is not None and not w.done():
            w.set_result(None)


def sequence_once(steps, seed):
    """Run the fetches of `steps` one after the other on ONE ftp Client / connection pool.  Each step: (how, name):
    how = 'ok' (whole download), 'data-reset' (the server's data connection is reset half way: NetworkError),
    'session-timeout' (the transfer is slower than the session's time limit), 'listener' (a listener raises when the
    transfer begins), 'hook-finish' / 'hook-retry' (the fetch runs in the real FTPProcessor and the pre-response
    hook of a script says FINISH / RETRY).  Returns the outcome of every step."""
    import io
    import os
    import shutil
    import tempfile
    import types
    from wpull.protocol.ftp.client import Client, Session as _S
    from wpull.protocol.ftp.request import Request
    from wpull.network.pool import ConnectionPool

    world = {'log': [], 'mode': 'ok'}
    feeders = []

    class Data:
        async def serve(self, conn):
            while 'transfer' not in world:
                if conn.client_closed:
                    return
                world['data_waiting'] = asyncio.get_event_loop().create_future()
                conn.handler.on_close = lambda c: world['data_waiting'].done() or world['data_waiting'].set_result(None)
                await world['data_waiting']
            control, body = world.pop('transfer')
            if world.pop('listing', False):
                # the processor's directory probe: served plainly, unless this step is about a probe that breaks
                mode = 'data-reset' if world['mode'] == 'probe-reset' else 'ok'
            else:
                mode = world['mode']
            half = len(body) // 2
            if mode == 'data-reset':
                conn.send(body[:half])
                await asyncio.sleep(0)
                conn.reset()
                closing = b'426 Connection closed; transfer aborted\r\n'
            elif mode == 'session-timeout':
                conn.send(body[:half])
                await asyncio.sleep(0.06)          # real time: longer than the session's limit
                conn.send(body[half:])
                conn.close()
                closing = b'226 Transfer complete\r\n'
            elif mode in ('late-226', 'late-426'):
                # all (or half) of the data at once and the data connection closed; the closing reply only after the
                # session's time limit has run out: the server has not confirmed anything when the client gives up
                conn.send(body if mode == 'late-226' else body[:half])
                conn.close()
                await asyncio.sleep(0.06)
                closing = b'226 Transfer complete\r\n' if mode == 'late-226' else b'426 Connection closed; transfer aborted\r\n'
            else:
                for k in range(0, len(body), 1000):
                    conn.send(body[k:k + 1000])
                    await asyncio.sleep(0)
                conn.close()
                closing = b'226 Transfer complete\r\n'
            for _ in range(3):
                await asyncio.sleep(0)
            if not control.client_closed:
                control.send(closing)

    async def one(client, how, name, tmp):
        world['mode'] = how
        request = Request('ftp://h/dir/' + name)
        out = io.BytesIO()
        if how in ('hook-finish', 'hook-retry', 'probe-reset'):
            from wpull.pipeline.item import URLRecord
            from wpull.pipeline.session import ItemSession
            from wpull.processor.ftp import FTPProcessor, FTPProcessorFetchParams
            from wpull.processor.rule import FetchRule, ResultRule
            from wpull.application.hook import Actions
            from wpull.application.plugin import PluginFunctions
            from wpull.stats import Statistics
            from wpull.waiter import LinearWaiter
            from wpull.writer import NullWriter
            from wpull.urlfilter import DemuxURLFilter
            rule = ResultRule(waiter=LinearWaiter(wait=0, max_wait=0), statistics=Statistics())
            if how != 'probe-reset':
                rule.hook_dispatcher.connect(PluginFunctions.handle_pre_response,
                                             lambda item_session: Actions.FINISH if how == 'hook-finish' else Actions.RETRY)

            verdict = []

            class _T:
                def check_in(self, url, new_status, *a, **k):
                    verdict.append(getattr(new_status, 'value', str(new_status)))

                def __getattr__(self, n):
                    return lambda *a, **k: None
            factory = {'FileWriter': NullWriter(), 'FetchRule': FetchRule(url_filter=DemuxURLFilter([])), 'ResultRule': rule, 'URLTable': _T()}
            r = URLRecord()
            r.url, r.parent_url, r.root_url, r.level, r.inline_level, r.try_count = request.url_info.url, None, None, 0, None, 0
            r.post_data = r.status_code = r.filename = None
            r.priority, r.link_type = 0, None
            item = ItemSession(types.SimpleNamespace(factory=factory, root_path=tmp), r)
            proc = FTPProcessor(client, FTPProcessorFetchParams(glob=False))
            coro = compat._ensure(proc.process(item))

            async def run_it():
                await coro
                return ('processed', verdict[-1] if verdict else None)
        else:
            session = client.session()
            ended = []
            session.event_dispatcher.add_listener(_S.Event.end_transfer, lambda response: ended.append(getattr(response.reply, 'code', None)))
            world.setdefault('ended', []).append((how, ended))

            async def run_it():
                with session:
                    if how == 'listener':
                        def boom(*a, **k):
                            raise OSError(28, 'listener failed')
                        session.event_dispatcher.add_listener(_S.Event.begin_transfer, boom)
                    await compat._ensure(session.start(request))
                    resp = await compat._ensure(session.download(out, duration_timeout=0.02 if how in ('session-timeout', 'late-226', 'late-426') else None))
                    return ('complete', out.getvalue(), resp.reply.code)
        task = asyncio.ensure_future(run_it())
        done = await fakenet.settle(task, feeders, extra=400)
        for _ in range(6):
            if done:
                break
            await asyncio.sleep(0.03)
            done = await fakenet.settle(task, feeders, extra=100)
        if not done:
            task.cancel()
            try:
                await task
            except BaseException:
                pass
            return ('stalled',)
        try:
            return task.result()
        except Exception as e:
            return ('exc', classify_exc(e))

    async def go(tmp):
        net = fakenet.FakeNet()
        net.feeders = feeders
        net.listen('10.0.0.1', 21, lambda: HonestFtp(net, world))
        net.listen('10.0.0.1', 2020, Data)
        with net:
            client = Client(connection_pool=ConnectionPool(resolver=fakenet.FakeResolver()))
            results = []
            marks = []
            for how, name in steps:
                marks.append(len(world['log']))
                results.append(await one(client, how, name, tmp))
                await asyncio.sleep(0.08 if how in ('session-timeout', 'late-226', 'late-426') else 0)     # the late closing reply of a given-up transfer arrives
                for _ in range(20):
                    await asyncio.sleep(0)
            # which control connection each fetch used first, and whether an earlier fetch had used it
            seen, fresh = set(), []
            for k, m in enumerate(marks):
                own = world['log'][m:marks[k + 1] if k + 1 < len(marks) else None]
                cid = own[0][0] if own else None
                fresh.append(cid not in seen)
                seen.update(c for c, _ in own)
            results.append(fresh)
            results.append([(h, list(e)) for h, e in world.get('ended', [])])
            return results
    tmp = tempfile.mkdtemp(prefix='wpull-verif-c17-')
    cwd = os.getcwd()
    os.chdir(tmp)
    try:
        return arun(go(tmp))
    finally:
        os.chdir(cwd)
        shutil.rmtree(tmp, ignore_errors=True)


class GreetingFtp(FtpServer):
    """Sends its whole greeting phase — possibly more than one complete reply — in the given segments, then answers
    commands one reply each."""

    def __init__(self, net, greeting_segments):
        FtpServer.__init__(self, net)
        self.segs = greeting_segments
        self.cmds = []

    async def serve(self, conn):
        self.greeted, self.waiting = False, []
        await conn.send_segments(self.segs, yields=2)
        self.greeted = True
        for line in self.waiting:               # the control stream is ONE byte sequence: replies follow the greeting
            FtpServer.handle(self, conn, line)

    def handle(self, conn, line):
        self.cmds.append(line)
        if not getattr(self, 'greeted', True):
            self.waiting.append(line)
            return
        FtpServer.handle(self, conn, line)


def greeting_once(segments):
    """Real Session.start against a server whose greeting bytes arrive cut as `segments`: -> (outcome, commands sent)."""
    from wpull.protocol.ftp.client import Client
    from wpull.protocol.ftp.request import Request
    from wpull.network.pool import ConnectionPool
    servers = []

    def factory():
        srv = GreetingFtp(net, segments)
        servers.append(srv)
        return srv

    async def go():
        net.listen('10.0.0.1', 21, factory)
        net.listen('10.0.0.1', 2020, FtpData)
        with net:
            client = Client(connection_pool=ConnectionPool(resolver=fakenet.FakeResolver()))
            session = client.session()
            with session:
                task = asyncio.ensure_future(compat._ensure(session.start(Request('ftp://h/dir/f.bin'))))
                done = await fakenet.settle(task, [], extra=300)
                if not done:
                    task.cancel()
                    try:
                        await task
                    except BaseException:
                        pass
                    session.abort()
                    return 'stalled'
                try:
                    task.result()
                    out = 'started'
                except Exception as e:
                    out = 'exc ' + classify_exc(e)
                session.abort()
                return out
    net = fakenet.FakeNet()
    out = arun(go())
    return out, tuple(bytes(c) for s in servers for c in s.cmds)


GREETINGS = [b'220 ready\r\n', b'220-hello\r\n220 ready\r\n', b'220 gateway\r\n220 (vsFTPd 3.0.3)\r\n', b'220 a\r\n220 b\r\n220 c\r\n',
             b'220 gateway\r\n331 odd\r\n', b'220 ready\r\n230 already in\r\n', b'120 wait\r\n220 ready\r\n', b'220-x\r\n 220 not yet\r\n220 ok\r\n220 again\r\n']


def stream_greeting(ctx, n):
    """One control stream, several segmentations: what the session makes of the greeting phase (how many replies it takes
    for the greeting, which commands it sends, how the login ends) must not depend on how the bytes were cut."""
    rng = ctx.subrng('greeting')
    first = None
    for i in range(n):
        g = GREETINGS[i % len(GREETINGS)]
        cutsets = [[], [j + 1 for j, b in enumerate(g[:-1]) if b == 10], list(range(1, len(g))), fakenet.random_cuts(rng, len(g), 'few'),
                   fakenet.random_cuts(rng, len(g), 'one')]
        outs = []
        for cuts in cutsets:
            outs.append(greeting_once(fakenet.segment(g, cuts)))
        case = {'stream': 'greeting', 'greeting': g, 'cutsets': cutsets}
        first = first or case
        ctx.case(('greeting', g, repr(cutsets)), tags=['greeting:' + outs[0][0].split(' ')[0], 'greeting:replies=%d' % g.count(b'\n')])
        if len(set(outs)) > 1:
            ctx.fail('reply-not-whole', 'greeting', case, 'the same greeting bytes give different conversations for different segmentations: %r' % sorted(set(outs))[:3])
    if first:
        ctx.sample(first)


PRIOR_KINDS = ['ok', 'data-reset', 'session-timeout', 'listener', 'hook-finish', 'hook-retry', 'probe-reset', 'late-226', 'late-426']


def judge_sequence(ctx, steps, seed):
    res = sequence_once(steps, seed)
    ended = res.pop()
    fresh = res.pop()
    case = {'stream': 'sequence', 'steps': [list(x) for x in steps], 'seed': seed}
    # the model: a fetch left by an exception loses its control connection, a completed one leaves it pooled
    # (every way out of an unfinished fetch is an exception, the processor's hook break included)
    # (a step may be two sessions: the processor's directory probe that breaks, then the fetch itself, which completes)
    groups = ['N' if h == 'ok' else 'RN' if h == 'probe-reset' else 'R' for h, _ in steps]
    rep_all = ctx.model.ask(['ftp fetches ' + ''.join(groups)])[0]
    firsts = [sum(len(g) for g in groups[:k]) for k in range(len(groups))]
    rep = ''.join(rep_all[i] for i in firsts) if len(rep_all) == sum(len(g) for g in groups) else rep_all
    real = ''.join('T' if f else 'F' for f in fresh)
    if rep != real:
        ctx.disagree('sequence', case, rep, real)
    ctx.case(('sequence', repr(steps)), tags=['sequence:' + '+'.join(h for h, _ in steps[:-1])])
    # the end of a transfer is announced (to the WARC recorder, the progress display) only for a transfer that ended:
    # data connection closed by the server and 226 read
    for how, codes in ended:
        if (how == 'ok' and codes != [226]) or (how != 'ok' and codes):
            ctx.fail('premature-complete', 'end_transfer', case, 'a fetch that ended as %r announced end_transfer with reply codes %r '
                     '(expected %s)' % (how, codes, '[226]' if how == 'ok' else 'no announcement: the transfer never finished'))
    last = res[-1]
    name = steps[-1][1]
    want = ('complete', FILES[('/dir/' + name).encode()], 226)
    if last != want:
        ctx.fail('reply-of-another-command', 'next-session', case,
                 'after the fetches %s on the same client an ordinary download of %s from a server that follows the protocol ended as %r '
                 '(on its own: a complete transfer, 226, %d bytes)' % ([h for h, _ in steps[:-1]], name, last[:1] + last[2:], len(want[1])))
    for (how, nm), r in zip(steps[:-1], res[:-1]):
        if how == 'ok' and r != ('complete', FILES[('/dir/' + nm).encode()], 226):
            ctx.fail('reply-of-another-command', 'next-session', case, 'an ordinary download in the middle of the sequence ended as %r' % (r[:1] + r[2:],))
        if how in ('data-reset', 'session-timeout', 'late-226', 'late-426') and r[0] == 'complete':
            ctx.fail('premature-complete', 'Session.download', case, 'a transfer that ended as %r (the server had not confirmed it when the client '
                     'gave up / the data connection broke) was reported complete with reply %r' % (how, r[2]))
        if how == 'probe-reset' and r != ('processed', 'done'):
            # the probe of the parent directory is only a hint: the file itself is there and the server answers every
            # command of its fetch in turn, so the item ends as done
            ctx.fail('reply-of-another-command', 'fetch-after-probe', case, 'the directory probe lost its data connection; the fetch of %s that '
                     'follows in the same item ended as %r, expected a finished download' % (nm, r))
    return res


def stream_sequence(ctx, n):
    rng = ctx.subrng('sequence')
    first = None
    fixed = [[(k, 'other.bin'), ('ok', 'f.bin')] for k in PRIOR_KINDS] + [[(k, 'big.bin'), ('ok', 'big.bin')] for k in PRIOR_KINDS]
    for i in range(n):
        if i < len(fixed):
            steps = fixed[i]
        else:
            steps = [(rng.choice(PRIOR_KINDS), rng.choice(['other.bin', 'f.bin', 'big.bin'])) for _ in range(rng.randint(1, 3))] + [('ok', rng.choice(['f.bin', 'big.bin']))]
        seed = rng.randrange(1 << 30)
        first = first or {'stream': 'sequence', 'steps': [list(x) for x in steps], 'seed': seed}
        judge_sequence(ctx, [tuple(x) for x in steps], seed)
    if first:
        ctx.sample(first)


def session_urls(byte_values):
    for b in byte_values:
        e = '%%%02X' % b
        for tmpl in ('ftp://h/%sa/b', 'ftp://h/a%sb/c', 'ftp://h/dir/a%s',
                     'ftp://%su:p@h/f', 'ftp://u%sx:p@h/f', 'ftp://u%s:p@h/f',
                     'ftp://u:%sp@h/f', 'ftp://u:p%sq@h/f', 'ftp://u:p%s@h/f'):
            yield tmpl % e


# ------------------------------------------------------------------ entry points
def cutsets_for(rng, data, thorough):
    n = len(data)
    cs = [[], list(range(1, n))] if n <= 300 else [[]]
    for _ in range(3 if not thorough else 6):
        cs.append(fakenet.random_cuts(rng, n, rng.choice(['one', 'few', 'many'])) if n <= 5000 else
                  fakenet.random_cuts(rng, n, 'few'))
    if n <= 24 and thorough:
        cs.extend([[i] for i in range(1, n)])
    if n > 65536:
        # what matters for a 64 KiB line: whether the reader's buffer overran before the LF arrived
        cs += [[65536], [65537], [66000], list(range(8192, n, 8192)), [n - 1], [65000, 66000]]
        cs = [[c for c in x if 0 < c < n] for x in cs]
    return cs


def load_corpus(ctx):
    import json, os, glob
    from runner import unjson
    out = []
    for p in sorted(glob.glob(os.path.join(ctx.verif, 'harness', 'corpus', 'C17', '*.json'))):
        with open(p) as f:
            out.append(unjson(json.load(f)))
    return out


def replay(ctx, case, kind=None, where=None):
    s = case.get('stream')
    if s == 'cmd':
        stream_cmd(ctx, [(case['name'], case['arg'])])
    elif s == 'session':
        check_session(ctx, case['url'], case.get('listing', False), case.get('username'), case.get('password'))
    elif s == 'reply':
        data = case['data']
        stream_reply(ctx, [data], [[cuts_of(case['segs_a']), cuts_of(case['segs_b'])]])
    elif s == 'download':
        res = real_download(case)
        ctx.case(('download', repr(sorted((k, repr(v)) for k, v in case.items()))))
        whole = b''.join(case['closing']).split(b'\n')[:-1]
        if res[0] == 'complete' and (case['end'] is not True or res[2] != 226 or not any(l.startswith(b'226 ') for l in whole)):
            ctx.fail('premature-complete', 'Session.download', case, 'session reported a completed transfer: data end=%s reply %s' % (case['end'], res[2]))
        if case.get('prior_abort') and not case['listing']:
            alone = real_download(dict(case, prior_abort=None))
            norm_ = lambda x: ('exc', 'NetworkError') if x[:2] == ('exc', 'NetworkTimedOut') else x   # noqa: E731
            alone, res = norm_(alone), norm_(res)
            if alone != res:
                ctx.fail('reply-of-another-command', 'Session.abort', case, 'with the abandoned earlier fetch: %r; alone: %r' % (res[:1] + res[2:], alone[:1] + alone[2:]))
    elif s == 'sequence':
        judge_sequence(ctx, [tuple(x) for x in case['steps']], case['seed'])
    elif s == 'greeting':
        outs = [greeting_once(fakenet.segment(case['greeting'], cuts)) for cuts in case['cutsets']]
        ctx.case(('greeting', case['greeting']))
        if len(set(outs)) > 1:
            ctx.fail('reply-not-whole', 'greeting', case, 'different conversations for different segmentations: %r' % sorted(set(outs))[:3])
    elif s == 'transfer':
        stream_transfer(ctx, [(case['data'], case['eof'], case['ctrl'])])
    else:
        raise Infra('unknown replay stream %r' % s)


def cuts_of(segs):
    out, n = [], 0
    for s in segs[:-1]:
        n += len(s)
        out.append(n)
    return out


def run(ctx):
    thorough = ctx.tier == 'thorough'
    for case in load_corpus(ctx):
        replay(ctx, case['case'] if 'case' in case else case)
    rng = ctx.rng
    # cmd
    cases = [(rng.choice(NAMES), gen_arg(rng)) for _ in range(ctx.scale(4000, 100000))]
    cases += [(n, a) for n in NAMES[:3] for a in ('', 'a', 'a\rb', 'a\nb', 'a\r\nDELE x', '\udc8d\udc8a', '\x00', 'é z')]
    stream_cmd(ctx, cases)
    # readline
    datas = [gen_reply_bytes(rng) for _ in range(ctx.scale(60, 1500))]
    stream_readline(ctx, datas, [cutsets_for(rng, d, thorough)[:4] for d in datas])
    # reply
    datas = [gen_reply_bytes(rng) for _ in range(ctx.scale(250, 6000))]
    datas += [b'', b'220 ok\r\n', b'220-a\r\n220 b\r\n', b'220 a\r220 b\n', b'220-a\r\n b\r\n220 c\r\nrest']
    stream_reply(ctx, datas, [cutsets_for(rng, d, thorough) for d in datas])
    pre = every_prefix([b'226 Transfer complete\r\n', b'226-Closing\r\n226 Transfer complete\r\n', b'150-a\r\n b\r\n150 c\r\n226 d\r\n',
                        b'220 a\n', b'220 a\r\r\n'])
    stream_reply(ctx, pre, [[[], list(range(1, len(d)))] for d in pre])
    # transfer
    tcases = []
    for _ in range(ctx.scale(150, 3000)):
        data = bytes(rng.randrange(256) for _ in range(rng.choice([0, 1, 5, 40, 5000])))
        dsegs = fakenet.segment(data, fakenet.random_cuts(rng, len(data)))
        ctrl = rng.choice([b'226 done\r\n', b'226-a\r\n226 b\r\n', b'426 aborted\r\n', b'', b'226 done', b'150 x\r\n', b'550 no\r\n', b'226 done\r', b'226-a\r\n226 b\r', b'226-a\r', b'22', b'226 done\n',
                           b'221 bye\r\n', b'225 open\r\n', b'200 ok\r\n', b'230 in\r\n', b'250 done\r\n', b'250-a\r\n250 226 b\r\n'])
        csegs = fakenet.segment(ctrl, fakenet.random_cuts(rng, len(ctrl)))
        r = rng.random()
        tcases.append((dsegs, True if r < 0.65 else 'reset' if r < 0.85 else False, csegs))   # closed / RST / never closed
    stream_transfer(ctx, tcases)
    stream_download(ctx, ctx.scale(200, 4000))
    stream_sequence(ctx, ctx.scale(40, 600))
    stream_greeting(ctx, ctx.scale(24, 400))
    # session oracle: exhaustive single-byte injection
    for url in session_urls(range(256)):
        check_session(ctx, url, listing=False)
    for url in session_urls([0, 10, 13, 0x25, 0x2f, 0x80]):
        check_session(ctx, url, listing=True)
    for b in (10, 13, 0):
        check_session(ctx, 'ftp://h/f', username='u%sx' % chr(b), password='p')
        check_session(ctx, 'ftp://h/f', username='u', password='p%sx' % chr(b))
    ctx.exhaustive = False
    ctx.note('session_injection', 'every byte value 0..255 percent-encoded at 9 URL positions (exhaustive for single-byte injection)')


def search(ctx):
    """Correspondence or proof broke: aim a larger budget at the oracles."""
    rng = ctx.subrng('search')
    cases = [(rng.choice(NAMES), gen_arg(rng)) for _ in range(ctx.scale(4000, 20000))]
    stream_cmd(ctx, cases)
    datas = [gen_reply_bytes(rng) for _ in range(ctx.scale(100, 400))]
    stream_reply(ctx, datas, [cutsets_for(rng, d, True) for d in datas])
    for b1 in (10, 13):
        for b2 in range(0, 256, 5):
            for tmpl in ('ftp://h/%s%sa', 'ftp://u%s%s:p@h/f', 'ftp://u:%s%sp@h/f'):
                check_session(ctx, tmpl % ('%%%02X' % b1, '%%%02X' % b2))
