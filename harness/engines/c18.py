"""C18 — Work per URL is bounded: redirect chains and retries always end.

Streams (model `Wpull.Request` vs the real code in the repo under test):
  session  the REAL WebSession + RedirectTracker + http Client over harness/fakenet.py against hostile server
           strategies (redirect cycles and unbounded chains over 301/302/303/307/308, missing / unparsable
           Location, Location on non-redirects, 401 for ever, 401 alternating with redirects, 5xx, closed
           connections, garbage) x max_redirects 0..6: number of requests, outcome and last status vs the model
  crawl    (also hosts that refuse every connection / fail every DNS lookup x --retry-connrefused / --retry-dns-error / neither;
           and with robots.txt enabled: /robots.txt perpetually 5xx / reset, 5xx then 200, disallowing, cycles)
           trace acceptance, end to end: the REAL application (Builder -> pipeline, URL table, web processor,
           FetchRule/ResultRule, TriesFilter, WebClient) against the same strategies x tries 0..4: the visits of
           the URL as seen at the URL table (requests per visit, status and try_count checked in) vs the model
           and across option combinations of the application wiring (--hostnames, --exclude-hostnames, --domains, -I/-X,
           --accept/--reject[-regex], --no-parent, --span-hosts, --level, --page-requisites-level, …: attempts == tries whatever is set)
  site     oracle only: a small site answered by path, recursive with page requisites (a failing URL found as a link and again as
           a requisite) and with scripting hooks connected (handle_pre_response / handle_response / handle_error answering RETRY
           or FINISH): requests to a failing URL == tries, try_count +1 per visit, the crawl ends
  multi    oracle only: several start URLs of one host, 2-3 workers (PipelineSeries.concurrency), robots.txt honoured and failing
           (5xx, reset, slow then failing): the crawl ends, attempts == tries per URL
  restart  the real application on a persistent --database against always-failing pages; runs die in a forked child while an
           attempt is in flight and are restarted on the same database: completed failed attempts over all runs <= tries
Direct oracle on the real runs: redirect follow-ups per visit <= max_redirects; requests per visit
<= 2*(max_redirects+1); authentication retries per visit <= 1 (the sentence) — more is the listed finding;
exactly one check-in per visit, try_count +1; visits that issue a request (page or robots.txt) <= tries (tries >= 1);
no request at all once TriesFilter refuses; check-outs <= tries+1; the run ends (a check-out cap cuts runaway crawls).
"""
import compat  # noqa: F401
from runner import Infra, unjson
from engines import request_common as rc

RULE = ('session: 14 server strategies x max_redirects 0..6 x login on/off (+ random adversaries: every reply drawn from '
        'all redirect codes / 401 / 2xx / 4xx / 5xx / close / garbage with same-host, other-host, relative, missing and garbage '
        'Location); crawl: the same strategies end to end x tries 0..4. non-trivial = at least one request; distinct by script and limits')
TRUSTED = ['URL parsing/joining is a parameter (components of each hop URL from the real parse)',
           'harness/fakenet.py in-memory transports; the URL table (SQLite) behind URLTableHookWrapper',
           'no plugin hooks are connected (Actions.NORMAL everywhere)']
ASSUMPTIONS = ['tries >= 1 for the retry bound (tries = 0 is the documented "unlimited")',
               'exceptions outside REMOTE_ERRORS do not occur inside a visit (C09)',
               'the URL set of the crawl is finite (C01/C14: the table is a keyed set)']
UNPROVED = []

R = rc.REDIRECT_CODES


def rep(status, location=None, cookies=()):
    return {'status': status, 'location': location, 'cookies': list(cookies), 'mode': 'resp'}


def strategies(n):
    """name -> script of n replies"""
    out = {}
    out['cycle-302'] = [rep(302, b'http://b.example/b' if k % 2 == 0 else b'http://a.example/x') for k in range(n)]
    out['self-301'] = [rep(301, b'/x') for _ in range(n)]
    out['chain-303'] = [rep(303, b'/n%d' % k) for k in range(n)]
    out['chain-307'] = [rep(307, b'/n%d' % k) for k in range(n)]
    out['chain-308-hosts'] = [rep(308, b'http://h%d.example/p' % k) for k in range(n)]
    out['mixed-codes'] = [rep(R[k % 5], b'/m%d' % k) for k in range(n)]
    out['401-forever'] = [rep(401) for _ in range(n)]
    out['401-alt-307'] = [rep(401) if k % 2 == 0 else rep(307, b'/a%d' % k) for k in range(n)]
    out['401-alt-302'] = [rep(401) if k % 2 == 0 else rep(302, b'/a%d' % k) for k in range(n)]
    out['401-alt-308-hosts'] = [rep(401) if k % 2 == 0 else rep(308, b'http://g%d.example/p' % k) for k in range(n)]
    out['redirect-no-location'] = [rep(302, b'/one'), rep(301)]
    out['redirect-garbage-location'] = [rep(302, b'/one'), rep(307, b'http://[')]
    out['location-on-401'] = [rep(401, b'/l%d' % k) if k % 2 == 0 else rep(302, b'/r%d' % k) for k in range(n)]
    out['500-forever'] = [rep(500) for _ in range(n)]
    out['close-forever'] = [{'status': 0, 'mode': 'close'} for _ in range(n)]
    out['garbage-then-503'] = [{'status': 0, 'mode': 'garbage'}] + [rep(503) for _ in range(n)]
    out['redirect-then-404'] = [rep(302, b'/gone'), rep(404)]
    out['redirect-to-mailto'] = [rep(302, b'mailto:x@y')]
    # response heads that never end (each block arrives promptly: no read timeout helps)
    out['endless-1xx'] = [{'status': 100, 'mode': 'endless-1xx'} for _ in range(n)]
    out['endless-headers'] = [{'status': 200, 'mode': 'endless-headers'} for _ in range(n)]
    out['redirect-then-endless-1xx'] = [rep(302, b'/next')] + [{'status': 100, 'mode': 'endless-1xx'} for _ in range(n)]
    return out


def random_script(rng, n):
    out = []
    for k in range(n):
        r = rng.random()
        if r < 0.55:
            loc = rng.choice([b'/r%d' % k, b'http://b.example/%d' % k, b'http://a.example/x', b'?q=%d' % k, None, b'', b'http://[',
                              b'//c.test/%d' % k, b'https://a.example/s%d' % k, b'ftp://f.example/', b'http://h:99999/'])
            out.append(rep(rng.choice(R), loc))
        elif r < 0.75:
            out.append(rep(401, None if rng.random() < 0.7 else b'/l%d' % k))
        elif r < 0.85:
            out.append(rep(rng.choice([200, 204, 404, 403, 500, 503, 418, 100 + 99, 304]), None if rng.random() < 0.7 else b'/x%d' % k))
        else:
            out.append({'status': 0, 'mode': rng.choice(['close', 'garbage'])})
    return out


def analyse(replies, nreq):
    """follow-ups and authentication retries among the first nreq requests of one visit:
    request k+1 exists and reply k was a redirect / a 401"""
    follow = auth = 0
    for k in range(nreq - 1):
        r = replies[k] if k < len(replies) else rep(200)
        if r.get('mode', 'resp') != 'resp':
            continue
        if r['status'] in R:
            follow += 1
        elif r['status'] == 401:
            auth += 1
    return follow, auth


HEAD_LIMIT = 32768 + 8192 + 4096      # 'Header too big' at 32 KiB (+ one line of at most the reader's limit), some slack


def oracle_head_bytes(ctx, case, res, where):
    """what the client read of a never-ending response head is bounded"""
    worst = max(res.get('consumed') or [0])
    if worst > HEAD_LIMIT + 2000 * len(res['hops']):
        ctx.fail('unbounded-head', where, case,
                 'the client read %d bytes of response head(s) on one connection (%d requests in the run): a head that never ends is '
                 'read without limit (bound: 32 KiB header block, one interim response handed on)' % (worst, len(res['hops'])))


def oracle_visit(ctx, case, replies, nreq, max_redirects, where):
    follow, auth = analyse(replies, nreq)
    if follow > max_redirects:
        ctx.fail('too-many-followups', where, case, '%d redirect follow-ups with max_redirects=%d' % (follow, max_redirects))
    if nreq > 2 * (max_redirects + 1):
        ctx.fail('too-many-requests', where, case, '%d requests in one visit with max_redirects=%d' % (nreq, max_redirects))
    if auth > 1:
        ctx.fail('auth-retry-per-hop', 'WebSession._process_authentication', case,
                 '%d authentication retries in one visit (%d requests, %d follow-ups, max_redirects=%d): the retry is re-armed '
                 'after every redirect hop' % (auth, nreq, follow, max_redirects))
    return follow, auth


# ------------------------------------------------------------------ session
def check_session(ctx, case):
    replies = case['replies']
    login = tuple(case['login']) if case.get('login') else None
    m = case['max_redirects']
    res = rc.run_session(case['url'], replies, max_redirects=m, use_jar=case.get('use_jar', False), login=login)
    line = rc.session_line(res, m, case.get('use_jar', False), [('User-Agent', 'ua/1')], login, 'GET')
    reply = ctx.model.ask([line])[0]
    m_out, m_last, m_hops = rc.parse_session_reply(reply)
    nreq = len(res['hops'])
    tags = ['session:' + case.get('name', 'random'), 'session:out=' + res['outcome'], 'session:max=%d' % m,
            'session:requests=%s' % (nreq if nreq < 10 else '10+')]
    ctx.case(('session', repr(case)), nontrivial=nreq > 0, tags=tags)
    if (m_out, m_last, None if m_hops is None else len(m_hops)) != (res['outcome'], res['last'], nreq):
        ctx.disagree('session', case, {'outcome': m_out, 'last': m_last, 'requests': None if m_hops is None else len(m_hops)},
                     {'outcome': res['outcome'], 'last': res['last'], 'requests': nreq})
    elif m_hops != [h[2] for h in res['hops']]:
        ctx.disagree('session', case, {'hops': m_hops}, {'hops': [h[2] for h in res['hops']]})
    if res['outcome'] == 'spinning':
        ctx.fail('visit-never-ends', 'Stream.read_body', case, 'the visit spun inside one event-loop step after %d requests: no timeout or '
                 'step bound can end it (cut by the SIGALRM watchdog); last reply %r' % (nreq, (replies[nreq - 1] if 0 < nreq <= len(replies) else None)))
        return res
    if res['outcome'] in ('stalled', 'runaway'):
        ctx.fail('no-termination', 'WebSession', case, 'session %s after %d requests' % (res['outcome'], nreq))
    oracle_head_bytes(ctx, case, res, 'Stream.read_response')
    follow, auth = oracle_visit(ctx, case, replies, nreq, m, 'WebSession')
    if m_hops is not None and rc.parse_session_reply.counts != (follow, auth):
        ctx.disagree('session', case, {'followUps,authRetries': rc.parse_session_reply.counts}, {'followUps,authRetries': (follow, auth)})
    ctx.tag('session:auth-retries=%d' % min(auth, 4))
    return res


# ------------------------------------------------------------------ crawl (end to end)
ROBOTS_DISALLOW = b'User-agent: *\nDisallow: /\n'


def robots_strategies(n):
    """name -> (robots.txt replies, disallow?)  — what the server does with /robots.txt"""
    out = {}
    out['robots-500-forever'] = ([rep(500) for _ in range(n)], False)
    out['robots-503-forever'] = ([rep(503) for _ in range(n)], False)
    out['robots-reset-forever'] = ([{'status': 0, 'mode': 'close'} for _ in range(n)], False)
    out['robots-5xx-then-200'] = ([rep(500), rep(502), rep(200)], False)
    out['robots-5xx-then-disallow'] = ([rep(500), dict(rep(200), body=ROBOTS_DISALLOW)], True)
    out['robots-disallow'] = ([dict(rep(200), body=ROBOTS_DISALLOW)], True)
    out['robots-404'] = ([rep(404)], False)
    out['robots-garbage'] = ([{'status': 0, 'mode': 'garbage'}], False)
    out['robots-redirect-cycle'] = ([rep(302, b'/robots.txt') for _ in range(n)], False)
    out['robots-redirect-chain'] = ([rep(R[k % 5], b'/robots.txt?hop=%d' % k) for k in range(n)], False)
    out['robots-alt-reset-500'] = ([({'status': 0, 'mode': 'close'} if k % 2 else rep(500)) for k in range(n)], False)
    out['robots-401-forever'] = ([rep(401) for _ in range(n)], False)
    return out


def check_crawl(ctx, case):
    replies = case['replies']
    login = tuple(case['login']) if case.get('login') else None
    m, tries = case['max_redirects'], case['tries']
    robots = None
    if case.get('robots') is not None:
        robots = {'replies': case['robots'], 'disallow': bool(case.get('robots_disallow'))}
    res = rc.run_crawl(case['url'], replies, tries, m, login=login, robots=robots,
                       host_fail=case.get('host_fail'), retry=case.get('retry'), timeout=case.get('timeout', 20),
                       extra_argv=case.get('options') or ())
    real = ','.join('%d:%d:%s:%d' % (v['requests'], v['robots_requests'], v['status'], v['try_count']) for v in res['visits']) or '-'
    line = rc.session_line(res, m, True, [], login, 'GET', op='crawl', tries=tries)
    model = ctx.model.ask([line])[0]
    tags = ['crawl:' + case.get('name', 'random'), 'crawl:tries=%d' % tries, 'crawl:visits=%d' % len(res['visits']),
            'crawl:robots=' + (case.get('robots_name', 'on') if robots else 'off')]
    if case.get('host_fail'):
        tags.append('crawl:host=%s,%s' % (case['host_fail'], case.get('retry') or 'no-retry-option'))
    for o in case.get('options') or ():
        if o.startswith('--'):
            tags.append('crawl:option=' + o)
    ctx.case(('crawl', repr(case)), nontrivial=len(res['hops']) + len(res['rhops']) + res.get('attempts', 0) > 0, tags=tags)
    if res['hung'] or res['capped']:
        reqlog = ' '.join([h[2].split(b'\r\n')[0].decode('latin-1') for h in res['rhops'][-4:] + res['hops'][-6:]])
        if res.get('spinning'):
            ctx.fail('visit-never-ends', 'Stream.read_body', case, 'the crawl spun inside one event-loop step (cut by the SIGALRM watchdog) after '
                     '%d page requests; last requests: %s' % (len(res['hops']), reqlog[:200]))
            return res
        ctx.fail('crawl-never-ends', 'Application.run', case,
                 'the crawl did not end (%s): %d check-outs of the URL with tries=%d, %d page requests, %d robots.txt requests so far; '
                 'visits %s; last requests: %s' % ('check-out cap' if res['capped'] else 'blocked', res['checkouts'], tries,
                                                  len(res['hops']), len(res['rhops']), real[:300], reqlog[:300]))
        return res
    if model != real:
        ctx.disagree('crawl', case, model, real)
    oracle_head_bytes(ctx, case, res, 'Session.start')
    # ---- direct oracle
    k = 0
    with_request = 0
    for v in res['visits']:
        if v['try_count'] != v['try_before'] + 1:
            ctx.fail('try-count-increment', 'ItemSession', case, 'visit changed try_count %d -> %d' % (v['try_before'], v['try_count']))
        if v['requests'] or v['robots_requests']:
            with_request += 1
            if tries >= 1 and v['try_before'] >= tries:
                ctx.fail('request-after-tries', 'FetchRule.check_initial_web_request', case,
                         'a visit with try_count=%d >= tries=%d still sent %d page and %d robots.txt requests'
                         % (v['try_before'], tries, v['requests'], v['robots_requests']))
        if v['requests']:
            oracle_visit(ctx, case, replies[k:], v['requests'], m, 'WebProcessorSession')
        if v['robots_requests'] > m + 1:
            # the robots.txt fetch has no login: one request plus at most max_redirects follow-ups
            ctx.fail('too-many-requests', 'RobotsTxtChecker', case,
                     '%d robots.txt requests in one visit with max_redirects=%d' % (v['robots_requests'], m))
        k += v['requests']
    ins = [e for e in res['events'] if e[0] == 'in']
    outs = [e for e in res['events'] if e[0] == 'out']
    if len(ins) != len(outs):
        ctx.fail('check-in-count', 'ItemSession', case, '%d check-outs, %d check-ins' % (len(outs), len(ins)))
    if tries >= 1 and with_request > tries:
        ctx.fail('too-many-tries', 'TriesFilter', case, '%d visits issued requests with tries=%d' % (with_request, tries))
    if tries >= 1 and case.get('always_fail') and with_request != tries:
        ctx.fail('attempts-not-tries', 'WebProcessorSession', case,
                 'a URL that always fails was attempted %d times with tries=%d (visits %s)' % (with_request, tries, real[:300]))
    if tries >= 1 and len(outs) > tries + 1:
        ctx.fail('too-many-visits', 'URLItemSource', case, '%d check-outs of the URL with tries=%d' % (len(outs), tries))
    if tries >= 1 and res['visits'] and max(v['try_count'] for v in res['visits']) > tries + 1:
        ctx.fail('try-count-runaway', 'ItemSession', case, 'try_count reached %d with tries=%d'
                 % (max(v['try_count'] for v in res['visits']), tries))
    if res['visits'] and res['visits'][-1]['status'] in ('todo', 'error', 'in_progress'):
        ctx.fail('left-unfinished', 'URLItemSource', case, 'the crawl ended with the URL in status %s' % res['visits'][-1]['status'])
    ctx.sample({'stream': 'crawl', 'strategy': case.get('name'), 'robots': case.get('robots_name'), 'tries': tries,
                'max_redirects': m, 'visits': real})
    return res


def check_multi(ctx, case):
    """Several start URLs of one host, 2-3 workers, robots.txt honoured and failing: oracle only (per URL: the visits at the URL
    table; with interleaved workers requests cannot be attributed to visits, so there is no trace comparison with the model)."""
    tries, urls, workers = case['tries'], case['urls'], case['workers']
    res = rc.run_crawl(urls[0], case['replies'], tries, 1, more_urls=urls[1:], concurrency=workers,
                       robots={'replies': case['robots'], 'disallow': False}, timeout=case.get('timeout', 10))
    per = {}
    start = {}
    for ev in res['events']:
        if ev[0] == 'out':
            start[ev[1]] = ev
        elif ev[0] == 'in' and ev[1] in start:
            per.setdefault(ev[1], []).append((start.pop(ev[1])[3], ev[2], ev[3]))
    trace = '; '.join('%s: %s' % (u.rsplit('/', 1)[-1], ','.join('%d>%s:%d' % v for v in vs)) for u, vs in sorted(per.items()))
    ctx.case(('multi', repr(case)), tags=['multi:' + case['name'], 'multi:workers=%d' % workers, 'multi:urls=%d' % len(urls)])
    if res['hung'] or res['capped']:
        ctx.fail('crawl-never-ends', 'Application.run', case,
                 'the crawl did not end (%s) with %d workers, %d URLs of one host, robots.txt %s: %d check-outs, %d page and %d robots.txt '
                 'requests; items still checked out: %s; visits %s'
                 % ('check-out cap' if res['capped'] else 'blocked', workers, len(urls), case['name'], res['checkouts'], len(res['hops']),
                    len(res['rhops']), sorted(u.rsplit('/', 1)[-1] for u in start), trace[:400]))
        return
    for u in urls:
        vs = per.get(wpull_norm(u), per.get(u, []))
        attempts = [v for v in vs if v[0] < tries]
        if any(b != a + 1 for a, _, b in vs):
            ctx.fail('try-count-increment', 'ItemSession', case, 'visits of %s: %r' % (u, vs))
        if case.get('always_fail') and len(attempts) != tries:
            ctx.fail('attempts-not-tries', 'WebProcessorSession', case, '%s was attempted %d times with tries=%d (%s)' % (u, len(attempts), tries, trace[:300]))
        if len(vs) > tries + 1:
            ctx.fail('too-many-visits', 'URLItemSource', case, '%d check-outs of %s with tries=%d' % (len(vs), u, tries))
        if vs and vs[-1][1] in ('todo', 'error', 'in_progress'):
            ctx.fail('left-unfinished', 'URLItemSource', case, '%s ended in status %s' % (u, vs[-1][1]))
    ctx.sample({'stream': 'multi', 'name': case['name'], 'workers': workers, 'tries': tries, 'visits': trace[:200]})


def per_url_visits(res):
    per, start = {}, {}
    for ev in res['events']:
        if ev[0] == 'out':
            start[ev[1]] = ev
        elif ev[0] == 'in' and ev[1] in start:
            per.setdefault(ev[1], []).append((start.pop(ev[1])[3], ev[2], ev[3]))
    return per, start


def check_site(ctx, case):
    """Oracle only: a small site (answers by path), recursive crawl with page requisites and/or scripting hooks: per URL
    the visits at the URL table and the requests per path."""
    tries = case['tries']
    options = list(case.get('options') or ())
    tmpdb = None
    if case.get('crippled_db'):
        # a --database file whose creating run died between CREATE TABLE and CREATE UNIQUE INDEX: the tables are there, the
        # unique indexes (one row per URL) are not; the start-up of the next run has to put them back
        import os
        import sqlite3
        import tempfile
        from wpull.database.sqltable import URLTable
        tmpdb = tempfile.mkdtemp(prefix='c18db-')
        path = os.path.join(tmpdb, 'crawl.db')
        URLTable(path).close()
        con = sqlite3.connect(path)
        for name in case['crippled_db']:
            con.execute('DROP INDEX IF EXISTS %s' % name)
        con.commit()
        con.close()
        options += ['--database', path]
    try:
        res = rc.run_crawl(case['url'], [], tries, 2, by_path=case['site'], recursive=True, extra_argv=options,
                           hooks=case.get('hooks'), cap=case.get('cap', 40), req_cap=case.get('req_cap', 120), timeout=10)
    finally:
        if tmpdb:
            import shutil
            shutil.rmtree(tmpdb, ignore_errors=True)
    per, start = per_url_visits(res)
    paths = {}
    for h in res['hops']:
        pth = h[2].split(b' ')[1].decode('latin-1')
        paths[pth] = paths.get(pth, 0) + 1
    trace = '; '.join('%s: %s' % (u.rsplit('/', 1)[-1] or '/', ','.join('%d>%s:%d' % v for v in vs)) for u, vs in sorted(per.items()))
    ctx.case(('site', repr(case)), tags=['site:' + case['name'], 'site:tries=%d' % tries])
    if res['hung'] or res['capped']:
        ctx.fail('crawl-never-ends', 'Application.run', case, 'the crawl did not end (%s): requests per path %r; visits %s'
                 % ('cap' if res['capped'] else 'blocked', paths, trace[:500]))
        return
    for u, vs in per.items():
        if any(b != a + 1 for a, _, b in vs):
            ctx.fail('try-count-increment', 'ItemSession', case, 'visits of %s: %r' % (u, vs))
        if len(vs) > tries + 1:
            ctx.fail('too-many-visits', 'URLItemSource', case, '%d check-outs of %s with tries=%d (%s)' % (len(vs), u, tries, trace[:300]))
        if vs[-1][1] in ('todo', 'error', 'in_progress'):
            ctx.fail('left-unfinished', 'URLItemSource', case, '%s ended in status %s' % (u, vs[-1][1]))
    for pth in case.get('failing', ()):
        if paths.get(pth, 0) != tries:
            ctx.fail('attempts-not-tries', 'URLTable.add_many' if paths.get(pth, 0) > tries else 'WebProcessorSession', case,
                     'the always-failing %s was requested %d times with tries=%d (requests per path %r; visits %s)'
                     % (pth, paths.get(pth, 0), tries, paths, trace[:400]))
    ctx.sample({'stream': 'site', 'name': case['name'], 'tries': tries, 'paths': paths})


def wpull_norm(u):
    from wpull.url import URLInfo
    return URLInfo.parse(u).url


# options read by URLFiltersSetupTask._build_url_filters and the other set-up tasks, with values that do not exclude the test URL
# http://a.example/x: none of them may switch the tries limit or the redirect limit off
FILTER_OPTIONS = [['--hostnames', 'a.example'], ['--exclude-hostnames', 'other.test'], ['--domains', 'example'], ['--exclude-domains', 'other.test'],
                  ['--include-directories', '/'], ['--exclude-directories', '/private'], ['--accept-regex', '.*'], ['--reject-regex', 'zzz-never'],
                  ['--no-parent'], ['--follow-ftp'], ['--span-hosts'], ['--level', '3'], ['--page-requisites-level', '2'], ['--recursive'],
                  ['--page-requisites'], ['--accept', '*'], ['--reject', '*.zzz'], ['--span-hosts-allow', 'page-requisites'], ['--no-strong-redirects']]
OTHER_OPTIONS = [['--relative'], ['--no-host-directories'], ['--inet4-only'], ['--concurrent', '2'], ['--wait', '0'], ['--random-wait'],
                 ['--no-http-keep-alive'], ['--ignore-length'], ['--no-cookies'], ['--no-cache'], ['--quota', '10m'], ['--referer', 'http://r.example/'],
                 ['--header', 'X-A: b'], ['--no-iri'], ['--strip-session-id'], ['--escaped-fragment'], ['--no-dns-cache'], ['--rotate-dns'],
                 ['--hostnames', 'a.example,b.example', '--exclude-hostnames', 'c.test'], ['--retry-connrefused'], ['--retry-dns-error']]


def option_sets(rng, thorough):
    sets = [list(o) for o in FILTER_OPTIONS]
    if thorough:
        sets += [list(o) for o in OTHER_OPTIONS]
    pool = FILTER_OPTIONS + OTHER_OPTIONS
    for _ in range(40 if thorough else 6):
        combo = []
        for o in rng.sample(pool, rng.randrange(2, 5)):
            if o[0] not in combo:
                combo += o
        sets.append(combo)
    return sets


# ------------------------------------------------------------------ kill / restart on a persistent database
def check_restart(ctx, case):
    """The real application with --database FILE against pages that always fail; some runs die (os._exit in a
    forked child) while an attempt is in flight, the next run continues on the same database."""
    import os
    import shutil
    import tempfile
    tries, kills, status = case['tries'], case['kills'], case.get('status', 500)
    tmp = tempfile.mkdtemp(prefix='c18r-')
    db = os.path.join(tmp, 'crawl.db')
    log = os.path.join(tmp, 'log.txt')
    runs = []
    try:
        for kill_at in list(kills) + [None]:
            open(log, 'w').close()
            st = rc.crawl_in_child(log, kill_at, url=case['url'], replies=[rep(status) for _ in range(60)], tries=tries,
                                   max_redirects=2, extra_argv=['--database', db], cap=tries + 6)
            lines = open(log).read().split('\n')
            runs.append({'kill_at': kill_at, 'lines': [l for l in lines if l], 'status': st})
            if kill_at is not None and 'killed' not in lines:
                break           # the run ended before the kill point was reached: nothing left to restart
    finally:
        shutil.rmtree(tmp, ignore_errors=True)
    requests = sum(1 for r in runs for l in r['lines'] if l.startswith('req '))
    killed = sum(1 for r in runs if 'killed' in r['lines'])
    completed = requests - killed
    trace = ' | '.join(','.join(r['lines']) for r in runs)
    ctx.case(('restart', repr(case)), tags=['restart:tries=%d' % tries, 'restart:kills=%d' % killed])
    last = runs[-1]
    if any(l.startswith('crash') for r in runs for l in r['lines']):
        raise Infra('restart child crashed: ' + trace[:400])
    if 'killed' not in last['lines'] and not any(l.startswith('end capped=0 hung=0') for l in last['lines']):
        ctx.fail('no-termination', 'Application.run', case, 'the run after the restarts did not end: ' + trace[:500])
    if tries >= 1 and completed > tries:
        ctx.fail('too-many-tries', 'URLTable.release', case,
                 '%d completed failed attempts (+%d interrupted) over %d runs with tries=%d: %s' % (completed, killed, len(runs), tries, trace[:600]))
    tcs = [int(l.split()[2]) for r in runs for l in r['lines'] if l.startswith('in ')]
    outs = [int(l.split()[2]) for r in runs for l in r['lines'] if l.startswith('out ')]
    if any(b < a for a, b in zip(outs, outs[1:])):
        ctx.fail('try-count-reset', 'URLTable.release', case, 'try_count seen at successive check-outs went down: %r (%s)' % (outs, trace[:500]))
    ctx.sample({'stream': 'restart', 'tries': tries, 'kills': kills, 'trace': trace[:300]})


# ------------------------------------------------------------------ entry points
def load_corpus(ctx):
    import glob
    import json
    import os
    out = []
    for p in sorted(glob.glob(os.path.join(ctx.verif, 'harness', 'corpus', 'C18', '*.json'))):
        with open(p) as f:
            out.append(unjson(json.load(f)))
    return out


def replay(ctx, case, kind=None, where=None):
    s = case.get('stream')
    if s == 'session':
        check_session(ctx, case)
    elif s == 'crawl':
        check_crawl(ctx, case)
    elif s == 'restart':
        check_restart(ctx, case)
    elif s == 'multi':
        check_multi(ctx, case)
    elif s == 'site':
        check_site(ctx, case)
    else:
        raise Infra('unknown replay stream %r' % s)


def run(ctx):
    for case in load_corpus(ctx):
        replay(ctx, case['case'] if 'case' in case else case)
    thorough = ctx.tier == 'thorough'
    rng = ctx.rng
    limits = range(0, 7)
    for m in limits:
        for name, script in strategies(2 * m + 6).items():
            for login in ((None, ('GU', 'GP')) if '401' in name else (None,)):
                check_session(ctx, {'stream': 'session', 'name': name, 'url': 'http://a.example/x', 'replies': script,
                                    'max_redirects': m, 'login': login})
    # credentials configured, the server refuses them for ever: hosts on non-default ports and IPv6 literals as well
    # (the give-up logic must not depend on how the host is written)
    for url in ('http://a.example:8080/x', 'https://a.example:8443/x', 'http://[::1]/x', 'http://[2001:db8::2]:8080/x', 'http://10.0.0.5:81/'):
        for m in (0, 2):
            for name in ('401-forever', '401-alt-302', 'location-on-401'):
                check_session(ctx, {'stream': 'session', 'name': name, 'url': url, 'replies': strategies(3 * m + 60)[name],
                                    'max_redirects': m, 'login': ('GU', 'GP')})
        check_crawl(ctx, {'stream': 'crawl', 'name': '401-forever', 'url': url.replace('https:', 'http:'), 'replies': strategies(200)['401-forever'],
                          'tries': 2, 'max_redirects': 1, 'login': ('GU', 'GP'), 'timeout': 10})
    # error responses of every flavour, with and without Retry-After (seconds, HTTP-date, garbage): each one costs a try
    import itertools
    ra = [None, b'Retry-After: 1', b'Retry-After: 120', b'Retry-After: Fri, 31 Dec 1999 23:59:59 GMT', b'Retry-After: soon', b'retry-after: 0']
    for tries in ((2, 3, 7) if thorough else (3,)):
        for code in (429, 503, 500, 502, 504, 408):
            for hdr in (ra if thorough or code in (429, 503) else ra[:2]):
                script = [dict(rep(code), extra=[hdr] if hdr else []) for _ in range(40)]
                check_crawl(ctx, {'stream': 'crawl', 'name': 'error-%d%s' % (code, '-retry-after' if hdr else ''), 'url': 'http://a.example/x',
                                  'replies': script, 'tries': tries, 'max_redirects': 1, 'login': None, 'always_fail': True, 'timeout': 8})
        mixed = [dict(rep(c), extra=[h] if h else []) for c, h in itertools.islice(itertools.cycle(
            [(429, ra[1]), (503, ra[3]), (500, None), (503, ra[4]), (408, None), (429, ra[2]), (502, ra[1])]), 40)]
        check_crawl(ctx, {'stream': 'crawl', 'name': 'error-mixed-retry-after', 'url': 'http://a.example/x', 'replies': mixed, 'tries': tries,
                          'max_redirects': 1, 'login': None, 'always_fail': True, 'timeout': 8})
    for _ in range(ctx.scale(250, 8000)):
        m = rng.choice([0, 1, 2, 3, 4, 6, 20])
        check_session(ctx, {'stream': 'session', 'name': 'random', 'url': rng.choice(['http://a.example/x', 'http://u:p@a.example/x', 'https://b.example:8443/']),
                            'replies': random_script(rng, rng.choice([1, 3, 6, 12, 2 * m + 4])), 'max_redirects': m,
                            'login': rng.choice([None, ('GU', 'GP')]), 'use_jar': rng.random() < 0.3})
    crng = ctx.subrng('crawl')
    todo = []
    for name, script in strategies(40).items():
        for tries, m in ((1, 0), (2, 1), (3, 2), (0, 2), (4, 3)) if thorough else ((2, 1), (3, 2)):
            todo.append((name, script, tries, m))
    if not thorough:
        todo = crng.sample(todo, min(len(todo), 22)) + [t for t in todo if t[0] in ('401-alt-307', '500-forever') and t[2] == 3]
    for name, script, tries, m in todo:
        login = ('GU', 'GP') if '401' in name else None
        if tries == 0:
            script = script[:9]       # unlimited tries: the script must end (then 200)
        check_crawl(ctx, {'stream': 'crawl', 'name': name, 'url': 'http://a.example/x', 'replies': script, 'tries': tries,
                          'max_redirects': m, 'login': login})
    # >= 7 failures on ONE host:port with the real connection pool (6 connections per host): every failed visit has to give
    # its connection back, whether it failed before the header (reset, garbage) or after it (5xx, body cut short)
    n_rs = robots_strategies(40)
    for tries in ((7, 8, 13) if thorough else (7,)):
        for name, script in (('close-forever', None), ('500-forever', None), ('garbage-forever', [{'status': 0, 'mode': 'garbage'}] * 40),
                             ('cutbody-forever', [{'status': 200, 'mode': 'cutbody'}] * 40),
                             ('mixed-failures', [({'status': 0, 'mode': m} if m != 'resp' else rep(503))
                                                 for m in ('close', 'cutbody', 'garbage', 'resp', 'cutbody', 'close') * 7])):
            check_crawl(ctx, {'stream': 'crawl', 'name': name, 'url': 'http://a.example/x', 'replies': script or strategies(40)[name],
                              'tries': tries, 'max_redirects': 1, 'login': None, 'always_fail': True, 'timeout': 8})
        for name in ('endless-1xx', 'endless-headers'):
            check_crawl(ctx, {'stream': 'crawl', 'name': name, 'url': 'http://a.example/x', 'replies': strategies(40)[name],
                              'tries': 2 if tries == 7 else 3, 'max_redirects': 1, 'login': None, 'always_fail': True, 'timeout': 20})
        for rname in ('robots-reset-forever', 'robots-500-forever', 'robots-alt-reset-500'):
            check_crawl(ctx, {'stream': 'crawl', 'name': 'redirect-then-404', 'url': 'http://a.example/x',
                              'replies': strategies(40)['redirect-then-404'], 'tries': tries, 'max_redirects': 1, 'login': None,
                              'robots': n_rs[rname][0], 'robots_disallow': False, 'robots_name': rname, 'always_fail': True, 'timeout': 8})
        for host_fail, retry in (('refused', '--retry-connrefused'), ('dns', '--retry-dns-error')):
            check_crawl(ctx, {'stream': 'crawl', 'name': 'host-' + host_fail, 'url': 'http://a.example/x', 'replies': [], 'tries': tries,
                              'max_redirects': 1, 'login': None, 'host_fail': host_fail, 'retry': retry})
    # a failing URL that is discovered twice — as a plain link first, as a page requisite later (and the other way round):
    # the second discovery must not hand the tries budget back; scripting hooks that ask for RETRY must cost a try as well
    html = lambda *links: dict(rep(200), body=('<html><body>' + ' '.join(links) + '</body></html>').encode(), extra=[b'Content-Type: text/html'])
    a = lambda p: '<a href="%s">x</a>' % p
    img = lambda p: '<img src="%s">' % p
    for tries in ((1, 2, 3) if thorough else (2,)):
        for name, site in (
                ('link-then-requisite', {'/': html(a('/bad'), a('/page2')), '/page2': html(img('/bad'), '<iframe src="/bad"></iframe>'), '/bad': rep(500)}),
                ('requisite-then-link', {'/': html(img('/bad'), a('/page2')), '/page2': html(a('/bad')), '/bad': rep(503)}),
                ('link-twice', {'/': html(a('/bad'), a('/page2')), '/page2': html(a('/bad'), a('/page3')), '/page3': html(img('/bad')), '/bad': rep(500)})):
            check_site(ctx, {'stream': 'site', 'name': name, 'url': 'http://a.example/', 'site': site, 'tries': tries,
                             'options': ['--page-requisites'], 'failing': ['/bad']})
        for name, idx in (('db-without-unique-indexes', ['ix_url_strings_url', 'ix_queued_urls_url_string_id']),
                          ('db-without-queued-unique-index', ['ix_queued_urls_url_string_id']), ('db-without-any-index',
                           ['ix_url_strings_url', 'ix_queued_urls_url_string_id', 'ix_queued_urls_status'])):
            site = {'/': html(a('/bad'), a('/page2'), a('/')), '/page2': html(a('/bad'), a('/'), a('/page3')),
                    '/page3': html(a('/bad'), a('/page2')), '/bad': rep(500)}
            check_site(ctx, {'stream': 'site', 'name': name, 'url': 'http://a.example/', 'site': site, 'tries': tries,
                             'failing': ['/bad'], 'crippled_db': idx, 'cap': 60, 'req_cap': 200})
        for hname, action, st in (('handle_pre_response', 'RETRY', 200), ('handle_pre_response', 'RETRY', 500), ('handle_response', 'RETRY', 200),
                                  ('handle_error', 'RETRY', None), ('handle_pre_response', 'FINISH', 500), ('handle_response', 'FINISH', 500)):
            site = {'/': rep(st) if st else {'status': 0, 'mode': 'close'}}
            check_site(ctx, {'stream': 'site', 'name': 'hook-%s-%s-%s' % (hname, action, st), 'url': 'http://a.example/', 'site': site,
                             'tries': tries, 'hooks': {hname: action}, 'cap': tries + 5})
    # several items of one host in flight at once (2-3 workers), robots.txt not yet in the pool and failing
    slow = lambda r, n: dict(r, delay=n)
    multi_robots = {
        'robots-500-forever': [rep(500) for _ in range(60)],
        'robots-reset-forever': [{'status': 0, 'mode': 'close'} for _ in range(60)],
        'robots-slow-500': [slow(rep(503), 3 + (k % 4)) for k in range(60)],
        'robots-slow-reset': [dict(rep(200), delay=4, then='close') for _ in range(60)],
        'robots-slow-500-then-200': [slow(rep(500), 5), slow(rep(502), 2), rep(500), slow(rep(200), 3)] + [rep(200)] * 20,
        'robots-alt-reset-500': [({'status': 0, 'mode': 'close'} if k % 2 else slow(rep(500), 2)) for k in range(60)],
    }
    for rname, rscript in multi_robots.items():
        for workers, nurls, tries in (((2, 2, 2), (3, 4, 2), (2, 3, 3), (3, 3, 1)) if thorough else ((2, 2, 2), (3, 4, 2))):
            check_multi(ctx, {'stream': 'multi', 'name': rname, 'urls': ['http://a.example/p%d' % i for i in range(nurls)], 'workers': workers,
                              'tries': tries, 'robots': rscript, 'replies': [rep(500) for _ in range(80)],
                              'always_fail': 'then-200' not in rname})
    # option combinations of the real application wiring: whatever else is configured, a URL that keeps failing is attempted
    # --tries times and a redirect loop is cut at --max-redirect
    orng = ctx.subrng('options')
    for k, opts in enumerate(option_sets(orng, thorough)):
        check_crawl(ctx, {'stream': 'crawl', 'name': '500-forever', 'url': 'http://a.example/x', 'replies': strategies(40)['500-forever'],
                          'tries': 3 if k % 2 else 2, 'max_redirects': 1, 'login': None, 'always_fail': True, 'timeout': 8, 'options': opts})
        if thorough or k % 4 == 0:
            check_crawl(ctx, {'stream': 'crawl', 'name': 'self-301', 'url': 'http://a.example/x', 'replies': strategies(40)['self-301'],
                              'tries': 2, 'max_redirects': 2, 'login': None, 'always_fail': True, 'timeout': 8, 'options': opts})
    # persistent database, the process dies while an attempt is in flight, restart
    for tries, kills in (((2, [1]), (3, [1]), (3, [2]), (3, [1, 1]), (3, [0]), (2, [1, 0, 0]), (4, [3]), (4, [1, 1, 1]), (1, [0]), (3, [2, 0]))
                         if thorough else ((3, [2]), (3, [1, 1]), (2, [1]), (3, [0, 1]))):
        check_restart(ctx, {'stream': 'restart', 'url': 'http://a.example/x', 'tries': tries, 'kills': kills})
    # host-level failures: every connection attempt refused / every DNS lookup fails, with and without the retry options
    for host_fail in ('refused', 'dns'):
        for retry in (None, '--retry-connrefused', '--retry-dns-error'):
            for tries in ((1, 2, 3) if thorough or retry else (2,)):
                check_crawl(ctx, {'stream': 'crawl', 'name': 'host-' + host_fail, 'url': 'http://a.example/x', 'replies': [], 'tries': tries,
                                  'max_redirects': 2, 'login': None, 'host_fail': host_fail, 'retry': retry})
    # robots.txt enabled: the server also controls the robots.txt answers
    pages = strategies(40)
    rtodo = []
    for rname, (rscript, dis) in robots_strategies(40).items():
        for pname in (('500-forever', 'redirect-then-404', 'close-forever', 'self-301', 'chain-307') if thorough
                      else ('500-forever', 'redirect-then-404')):
            for tries, m in (((1, 1), (2, 1), (3, 2), (4, 2)) if thorough else ((2, 1), (3, 2))):
                rtodo.append((rname, rscript, dis, pname, tries, m))
    if not thorough:
        keep = [t for t in rtodo if t[0] in ('robots-500-forever', 'robots-reset-forever', 'robots-5xx-then-200', 'robots-alt-reset-500')]
        rest = [t for t in rtodo if t not in keep]
        rtodo = keep + crng.sample(rest, min(len(rest), 10))
    # the robots.txt fetch must obey --max-redirect as well (it goes through the client the set-up code gives the checker)
    rs40 = robots_strategies(40)
    for rname in ('robots-redirect-cycle', 'robots-redirect-chain'):
        for m in (0, 1, 2, 5):
            rtodo.append((rname, rs40[rname][0], False, 'redirect-then-404', 2, m))
    for rname, rscript, dis, pname, tries, m in rtodo:
        check_crawl(ctx, {'stream': 'crawl', 'name': pname, 'url': 'http://a.example/x', 'replies': pages[pname], 'tries': tries,
                          'max_redirects': m, 'login': None, 'robots': rscript, 'robots_disallow': dis, 'robots_name': rname})
    for _ in range(ctx.scale(10, 300)):
        m = crng.choice([0, 1, 2])
        rs = [crng.choice([rep(500), rep(503), {'status': 0, 'mode': 'close'}, rep(200), rep(404), rep(302, b'/robots.txt'),
                           {'status': 0, 'mode': 'garbage'}, dict(rep(200), body=ROBOTS_DISALLOW)]) for _ in range(crng.choice([1, 3, 8]))]
        dis = any(r.get('body') for r in rs)
        if dis:
            rs = [r if not (r.get('status') == 200 and not r.get('body')) else dict(r, body=ROBOTS_DISALLOW) for r in rs]
        ps = [r for r in random_script(crng, crng.choice([2, 5, 9]))
              if not (r.get('location') or b'').startswith((b'http', b'//', b'ftp'))]      # same host: one robots pool entry
        check_crawl(ctx, {'stream': 'crawl', 'name': 'random', 'url': 'http://a.example/x', 'replies': ps, 'tries': crng.choice([1, 2, 3]),
                          'max_redirects': m, 'login': None, 'robots': rs, 'robots_disallow': dis, 'robots_name': 'random'})
    for _ in range(ctx.scale(25, 600)):
        m = crng.choice([0, 1, 2, 3])
        tries = crng.choice([0, 1, 2, 3, 4])
        check_crawl(ctx, {'stream': 'crawl', 'name': 'random', 'url': 'http://a.example/x',
                          'replies': random_script(crng, crng.choice([2, 5, 9, 14])), 'tries': tries, 'max_redirects': m,
                          'login': crng.choice([None, ('GU', 'GP')])})
    ctx.exhaustive = False
    ctx.note('limits', 'max_redirects 0..6 x 18 strategies (session); tries 0..4 end to end')


def search(ctx):
    rng = ctx.subrng('search')
    for _ in range(ctx.scale(40, 200)):
        m = rng.choice([0, 1, 2, 3])
        check_session(ctx, {'stream': 'session', 'name': 'random', 'url': 'http://a.example/x',
                            'replies': random_script(rng, 2 * m + 6), 'max_redirects': m, 'login': ('GU', 'GP')})
    for name, script in strategies(30).items():
        for tries in (1, 2, 3):
            check_crawl(ctx, {'stream': 'crawl', 'name': name, 'url': 'http://a.example/x', 'replies': script, 'tries': tries,
                              'max_redirects': tries, 'login': ('GU', 'GP') if '401' in name else None})
