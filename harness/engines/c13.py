"""C13 — The pipeline runs every item through every task once, and always finishes.

Lock-step co-simulation of the REAL `wpull.pipeline.pipeline.Pipeline` (from ctx.repo) on
the deterministic loop `sched.DetLoop` against the Lean model `Wpull.Pipeline`
(`wpullmodel pipeline run …`).  The harness owns the whole schedule:

  P      run the producer task one step (a parked `get_item` is delivered first)
  M      run the `Pipeline.process()` task one step
  G      run one idle worker task (fresh, or woken from `queue.get`) one step
  T<i>   the task the worker of item i is suspended in completes; run that worker one step
  X<i>   … raises instead
  S      pipeline.stop()                  C<n>   pipeline.concurrency = n

After every action both sides must show the same (task,item) start/end events, the same
state digest (pipeline state, concurrency, unpaused flag, Producer._running, queue content,
unfinished count, len(_worker_tasks), live workers, parked getters, parked producer,
get_item calls, process() pending/returned/raised) and the same set of enabled actions.
Termination agreement is part of that: when nothing is enabled the model must say the
same about process() as the real coroutine (a dry loop with process() pending = a hang).

Independently of the model the property is evaluated on the real run (`oracle`).
"""
import asyncio
import itertools
import json
import os
import glob

import compat  # noqa: F401
import sched
from runner import Infra, unjson

RULE = ('case = (items 0-6, tasks 1-3, initial concurrency 0-3, source raises?, action list); the action list is '
        'drawn step by step from the actions enabled on the real pipeline (P, M, G, T<i>, X<i>) plus stop()/'
        'concurrency=n injections, under several scheduling policies (uniform, producer-first, workers-first, '
        'main-last, tasks-late); directed pause scenarios (concurrency >= 2, >= 2 items in flight, concurrency = 0 mid-run, the '
        'in-flight items then finish / raise in every order, followed by a resume, a stop, or nothing); every point at which '
        'the loop runs dry with process() pending is judged (a failure must have surfaced there, paused or not); thorough adds the exhaustive enumeration of every schedule of small scopes with '
        'one injection at every position.  non-trivial = at least one item was taken from the source; distinct by '
        '(parameters, action list)')
TRUSTED = ['harness/sched.py DetLoop (one handle per iteration, pure-Python tasks)',
           'asyncio (3.12) Condition / PriorityQueue / Event / wait semantics are mirrored by the model and tied by the co-simulation',
           'the completion callbacks of asyncio.wait are plain call_soon handles (not task steps): the harness runs them '
           'eagerly and the model fuses them into the step that ends the worker; an oracle-only stream runs the real '
           'pipeline under the unconstrained seeded loop (callbacks delayed arbitrarily) to cover the other orders']
ASSUMPTIONS = ['items are truthy and distinct objects (the producer treats a falsy item as "source exhausted")',
               'the pipeline has at least one task',
               'stop()/concurrency are called between task steps (a call from inside a task body is equivalent to a call right after that step)',
               'stop() before the first step of process() is not a stop request of the running pipeline (state is still "stopped": no-op in the code)']
UNPROVED = []

FIX_ALL = os.environ.get('C13_FIX', 'TTTTT')
MAX_ACTIONS = 400


def handle_task(handle):
    """The task a ready handle steps (sched.DetLoop.handle_task tests for the C Task class; the
    deterministic loop uses pure-Python tasks)."""
    owner = getattr(getattr(handle, '_callback', None), '__self__', None)
    if isinstance(owner, (asyncio.tasks._PyTask, asyncio.Task)):
        return owner
    return None


SOURCE_EXCEPTIONS = ['OperationalError', 'OSError', 'Exception', 'RuntimeError']


def make_exception(name):
    import sqlite3
    if name == 'OperationalError':
        return sqlite3.OperationalError('database is locked')
    if name == 'OSError':
        return OSError(5, 'Input/output error')
    if name == 'RuntimeError':
        return RuntimeError('dequeued_url listener failed')
    return Exception('check_out failed')


def make_url_item_source(real, spec):
    """The real URLItemSource over a stub URL table: `n` todo records, then NotFound - or, when the case says the
    source fails, the exception `spec['exc']` from the check_out(todo) or the check_out(error) call."""
    from wpull.pipeline.session import URLItemSource
    from wpull.pipeline.item import URLRecord, Status
    from wpull.database.base import NotFound

    class Table:
        def check_out(self, filter_status, level=None):
            if filter_status == Status.todo:
                if real.given < real.n:
                    rec = URLRecord()
                    rec.url = 'item%d' % real.given
                    real.given += 1
                    return rec
                if real.src_fail and spec.get('at', 'todo') == 'todo':
                    real.src_raised = True
                    raise make_exception(spec['exc'])
                raise NotFound()
            if real.src_fail:
                real.src_raised = True
                raise make_exception(spec['exc'])
            raise NotFound()

    class Session:
        factory = {'URLTable': Table()}
    return URLItemSource(Session())


class TaskError(Exception):
    pass


class SourceError(Exception):
    pass


class BusyLoop(BaseException):
    """process() spins without yielding (would freeze the event loop)."""


# ------------------------------------------------------------------ the real side
class Real:
    """One real Pipeline under manual step control."""

    def __init__(self, n, k, conc, src_fail, url_source=None, task_kinds=None):
        from wpull.pipeline.pipeline import Pipeline, ItemSource, ItemTask
        self.task_kinds = list(task_kinds or [])
        self.n, self.k, self.src_fail = n, k, src_fail
        self.log = []            # (task, item, 's'|'e')
        self.all_log = []        # + ('get',), ('stop',) markers for the oracle
        self.parked = {}         # item -> future of the task it is suspended in
        self.holder = {}         # asyncio task -> item
        self.src_fut = None
        self.src_calls = 0
        self.given = 0
        self.src_raised = False
        self.task_raised = 0
        self.stepped = set()
        self.workers = []
        self.stop_called = False
        self.busy = False
        self.runs = 1
        self.run_ends = []
        self.run_start_given = 0
        self.stop_in_run = False
        real = self

        self.url_src = None
        if url_source is not None:
            self.url_src = make_url_item_source(self, url_source)

        class Source(ItemSource):
            @asyncio.coroutine
            def get_item(self):
                real.src_calls += 1
                real.all_log.append(('get',))
                real.src_fut = real.loop.create_future()
                try:
                    yield from real.src_fut
                finally:
                    real.src_fut = None
                if real.url_src is not None:
                    # the REAL wpull.pipeline.session.URLItemSource over a stub URL table
                    item = yield from real.url_src.get_item()
                    return item
                if real.given < real.n:
                    real.given += 1
                    return 'item%d' % (real.given - 1)
                if real.src_fail:
                    real.src_raised = True
                    raise SourceError('source')
                return None

        class Task(ItemTask):
            def __init__(self, ix):
                self.ix = ix

            @asyncio.coroutine
            def process(self, item):
                i = int((item if isinstance(item, str) else item.url_record.url)[4:])
                ev = (self.ix, i, 's')
                real.log.append(ev)
                real.all_log.append(ev)
                fut = real.loop.create_future()
                real.parked[i] = fut
                real.holder[asyncio.current_task()] = i
                ok = yield from fut
                if not ok:
                    del real.holder[asyncio.current_task()]
                    real.task_raised += 1
                    raise TaskError('task %d item %d' % (self.ix, i))
                ev = (self.ix, i, 'e')
                real.log.append(ev)
                real.all_log.append(ev)
                if self.ix == real.k - 1:
                    del real.holder[asyncio.current_task()]

        def item_ix(item):
            return int((item if isinstance(item, str) else item.url_record.url)[4:])

        class AsyncTask(Task):
            """`async def process`"""
            async def process(self, item):
                i = item_ix(item)
                ev = (self.ix, i, 's')
                real.log.append(ev)
                real.all_log.append(ev)
                fut = real.loop.create_future()
                real.parked[i] = fut
                real.holder[asyncio.current_task()] = i
                ok = await fut
                if not ok:
                    del real.holder[asyncio.current_task()]
                    real.task_raised += 1
                    raise TaskError('task %d item %d' % (self.ix, i))
                ev = (self.ix, i, 'e')
                real.log.append(ev)
                real.all_log.append(ev)
                if self.ix == real.k - 1:
                    del real.holder[asyncio.current_task()]

        class FutureTask(Task):
            """a plain function that returns a Future which completes (or fails) later"""
            def process(self, item):
                i = item_ix(item)
                ev = (self.ix, i, 's')
                real.log.append(ev)
                real.all_log.append(ev)
                fut = real.loop.create_future()
                out = real.loop.create_future()
                real.parked[i] = fut
                worker = asyncio.current_task()
                real.holder[worker] = i
                ix = self.ix

                def done(f):
                    if not f.result():
                        real.holder.pop(worker, None)
                        real.task_raised += 1
                        out.set_exception(TaskError('task %d item %d' % (ix, i)))
                        return
                    ev = (ix, i, 'e')
                    real.log.append(ev)
                    real.all_log.append(ev)
                    if ix == real.k - 1:
                        real.holder.pop(worker, None)
                    out.set_result(None)
                fut.add_done_callback(done)
                return out
        self._task_classes = {'gen': Task, 'async': AsyncTask, 'future': FutureTask}

        self.loop = sched.new_det_loop(0, chooser=self._choose)
        self.tasks = []

        def factory(loop, coro, **kw):
            t = asyncio.tasks._PyTask(coro, loop=loop, **kw)
            real.tasks.append(t)
            return t
        self.loop.set_task_factory(factory)
        self._want = 0
        kinds = (self.task_kinds + ['gen'] * k)[:k]
        self.pipeline = Pipeline(Source(), [self._task_classes[kinds[i]](i) for i in range(k)])
        self.pipeline.concurrency = conc
        ev = self.pipeline._unpaused_event
        orig_wait = ev.wait

        async def wait():
            if ev.is_set():
                real._spin += 1
                if real._spin > 200:
                    real.busy = True
                    raise BusyLoop()
            return await orig_wait()
        ev.wait = wait
        self._spin = 0
        import asyncio.events as aev
        self._old_running = aev._get_running_loop()
        aev._set_running_loop(self.loop)
        self.main = self.loop.create_task(compat._ensure(self.pipeline.process()))
        self.roles = {id(self.main): 'M'}

    def close(self):
        import asyncio.events as aev
        aev._set_running_loop(self._old_running)
        for t in self.tasks:
            if t.done() and not t.cancelled():
                t.exception()        # mark retrieved
        sched.close_loop(self.loop)

    # --- loop control
    def _choose(self, loop, ready):
        return self._want

    def _ready(self):
        return [h for h in self.loop._ready if not h._cancelled]

    def _run_handle(self, h):
        ready = list(self.loop._ready)
        self._want = ready.index(h)
        self._spin = 0
        t = handle_task(h)
        if t is not None:
            self.stepped.add(id(t))
        import signal

        def on_alarm(signum, frame):     # wall-clock watchdog: a step that never yields is a frozen event loop
            self.busy = True
            raise BusyLoop()
        old = signal.signal(signal.SIGALRM, on_alarm)
        signal.setitimer(signal.ITIMER_REAL, 20.0)
        try:
            self.loop._run_once()
        finally:
            signal.setitimer(signal.ITIMER_REAL, 0)
            signal.signal(signal.SIGALRM, old)
        if self.busy:
            raise BusyLoop()

    def _settle(self):
        """Run the non-task handles (asyncio.wait completion callbacks) eagerly."""
        for _ in range(10000):
            hs = [h for h in self._ready() if handle_task(h) is None]
            if not hs:
                return
            self._run_handle(hs[0])
        raise Infra('callbacks do not settle')

    def role(self, task):
        if task is self.main:
            return 'M'
        if task is self.pipeline._producer_task:
            return 'P'
        return 'W'

    def _handles(self):
        out = {}
        for h in self._ready():
            t = handle_task(h)
            if t is None:
                continue
            r = self.role(t)
            if r == 'W':
                if t in self.holder:
                    r = 'W%d' % self.holder[t]
                else:
                    r = 'G'
            out.setdefault(r, h)
        return out

    def enabled(self):
        hs = self._handles()
        en = []
        if 'P' in hs or (self.src_fut is not None and not self.src_fut.done()):
            en.append('P')
        if 'M' in hs:
            en.append('M')
        if 'G' in hs:
            en.append('G')
        for i in sorted(self.parked):
            en.append('T%d' % i)
        return en

    def act(self, a):
        """Perform one action; returns False if it is not possible on the real side."""
        if a == 'S':
            self.stop_called = True
            self.stop_in_run = True
            self.all_log.append(('stop',))
            self.pipeline.stop()
        elif a[0] == 'C':
            self.pipeline.concurrency = int(a[1:])
        elif a in ('M', 'G'):
            h = self._handles().get(a)
            if h is None:
                return False
            self._run_handle(h)
        elif a == 'P':
            h = self._handles().get('P')
            if h is None:
                if self.src_fut is None or self.src_fut.done():
                    return False
                self.src_fut.set_result(None)
                h = self._handles().get('P')
            self._run_handle(h)
        elif a[0] == 'R':
            # process() again on the SAME Pipeline / ItemQueue object, after `concurrency = k`
            if self.main_status() != 'r':
                return False
            self.snapshot_end()
            self.all_log.append(('restart',))
            self.runs += 1
            kk, _, mm = a[1:].partition('+')
            self.n += int(mm or 0)               # fresh items in the source for the new run
            self.run_start_given = self.given
            self.stop_in_run = False
            self.pipeline.concurrency = int(kk)
            self.main = self.loop.create_task(compat._ensure(self.pipeline.process()))
            self._run_handle(self._handles().get('M'))      # the model's restart includes the first step of process()
        elif a[0] in 'TX':
            i = int(a[1:])
            fut = self.parked.pop(i, None)
            if fut is None:
                return False
            wtask = next((t for t, j in self.holder.items() if j == i), None)
            fut.set_result(a[0] == 'T')
            self._settle()            # a Future-returning task completes its Future from a callback
            h = next((x for x in self._ready() if wtask is not None and handle_task(x) is wtask), None)
            if h is None:
                return False
            self._run_handle(h)
        else:
            raise Infra('bad action %r' % a)
        self._settle()
        return True

    def snapshot_end(self):
        """What a finished run leaves behind on the object (recorded once per run)."""
        if len(self.run_ends) >= self.runs:
            return
        p = self.pipeline
        cond = p._item_queue._worker_ready_condition
        alive = [t for t in self.tasks if not t.done()]
        self.run_ends.append({'run': self.runs, 'status': self.main_status(), 'lock_held': bool(cond.locked()),
                              'alive_tasks': len(alive), 'worker_tasks': len(p._worker_tasks),
                              'producer_done': p._producer_task is None or p._producer_task.done(),
                              'in_flight': sorted(self.parked), 'state': p._state.value,
                              'given': self.given, 'n_total': self.n, 'given_at_start': self.run_start_given,
                              'stop_in_run': self.stop_in_run, 'stop_before': self.stop_called,
                              'failure': bool(self.src_raised or self.task_raised),
                              'queued_items': len([e for e in p._item_queue._queue._queue if e[2] is not self._pill()]),
                              'complete': sorted(self._complete())})

    def _pill(self):
        from wpull.pipeline.pipeline import POISON_PILL
        return POISON_PILL

    def _complete(self):
        per = {}
        for (t, i, se) in self.log:
            per.setdefault(i, []).append((t, se))
        canon = [(t, se) for t in range(self.k) for se in 'se']
        return [i for i, evs in per.items() if evs == canon]



    def holder_last(self, a):
        """Will completing action T<i> finish item i (its last task)?"""
        i = int(a[1:])
        started = [t for (t, j, se) in self.log if j == i and se == 's']
        return bool(started) and started[-1] == self.k - 1

    # --- observation
    def main_status(self):
        if not self.main.done():
            return 'p'
        if self.main.cancelled() or self.main.exception() is not None:
            return 'x'
        return 'r'

    def digest(self):
        try:
            return self._digest()
        except Exception as e:      # a changed pipeline must show up as a disagreement, never crash the engine
            return 'digest-error:' + type(e).__name__

    def _digest(self):
        p = self.pipeline
        q = p._item_queue
        entries = sorted(q._queue._queue)
        from wpull.pipeline.pipeline import POISON_PILL
        pills = len([e for e in entries if e[2] is POISON_PILL])
        items = [e[2] if isinstance(e[2], str) else e[2].url_record.url for e in entries if e[2] is not POISON_PILL]
        if pills and items and entries[0][2] is not POISON_PILL:
            # an item ahead of a poison pill: not representable in the model's queue (pills first)
            items = ['item!' + items[0][4:]] + items[1:]
        if len(items) > 1:
            qitem = '+'.join(items)
        else:
            qitem = items[0][4:] if items else '-'
        live = len([t for t in asyncio.all_tasks(self.loop) if self.role(t) == 'W' and not t.done()])
        gw = len([g for g in q._queue._getters if not g.done()])
        pw = len([w for w in q._worker_ready_condition._waiters if not w.done()])
        ps = {'stopped': 'o', 'running': 'r', 'stopping': 's'}[p._state.value]
        tf = lambda b: 'T' if b else 'F'
        st = ps + ','.join([str(p._concurrency), tf(p._unpaused_event.is_set()), tf(p._producer._running),
                            str(pills), qitem, str(q._unfinished_items),
                            '*' if self.main_status() == 'x' else str(len(p._worker_tasks)),
                            str(live), str(gw), str(pw), str(self.src_calls)])
        return st + ';' + self.main_status() + ';' + ''.join(self.enabled())


def run_real(n, k, conc, src_fail, policy_or_actions, rng=None, inj=None, cont=None, picker=None, cont_inj=None,
             url_source=None, task_kinds=None):
    """Run the real pipeline.  `policy_or_actions` is either a list of actions (replay) or a policy name;
    returns dict(actions, steps=[(events, digest)], …)."""
    real = Real(n, k, conc, src_fail, url_source, task_kinds)
    steps = []
    actions = []
    fixed = policy_or_actions if isinstance(policy_or_actions, list) else None
    policy = None if fixed is not None else policy_or_actions
    inj = dict(inj or {})
    n_inj = 0
    bad = None
    qpoints = []
    try:
        for step_no in range(MAX_ACTIONS):
            if real.main.done():
                real.snapshot_end()
                nxt = None
                if fixed is not None and step_no < len(fixed):
                    nxt = fixed[step_no]
                elif fixed is not None and picker is not None:
                    nxt = picker(real, actions)
                if not (nxt and nxt[0] == 'R'):
                    break
                a = nxt
            elif fixed is not None and step_no >= len(fixed) and picker is not None:
                a = picker(real, actions)
                if a is None:
                    break
            elif fixed is not None and (step_no < len(fixed) or cont is None):
                if step_no >= len(fixed):
                    break
                a = fixed[step_no]
            elif fixed is not None:
                a = choose_action(real, cont, rng, step_no, cont_inj or {}, 0)
                if a is None:
                    break
            else:
                a = choose_action(real, policy, rng, step_no, inj, n_inj)
                if a is None:
                    break
                if a[0] in 'SC':
                    n_inj += 1
            mark = len(real.log)
            try:
                ok = real.act(a)
            except BusyLoop:
                actions.append(a)
                bad = 'busy-loop'
                break
            if not ok:
                bad = 'not-enabled:%d' % step_no
                break
            actions.append(a)
            evs = '.'.join('%d%s%d' % (t, se, i) for (t, i, se) in real.log[mark:])
            steps.append(evs + ';' + real.digest())
            if not real.main.done() and not real.enabled():
                # the loop is dry with process() pending: judged by the oracle whether or not the run goes on
                qpoints.append({'at': len(actions), 'state': real.pipeline._state.value,
                                'conc': real.pipeline._concurrency, 'task_raised': real.task_raised,
                                'src_raised': real.src_raised})
        if real.main.done():
            real.snapshot_end()
        p = real.pipeline
        res = {
            'qpoints': qpoints, 'in_flight_end': sorted(real.parked), 'run_ends': list(real.run_ends),
            'n_total': real.n,
            'actions': actions, 'steps': steps, 'bad': bad,
            'main': 'b' if bad == 'busy-loop' else real.main_status(),
            'enabled': [] if bad == 'busy-loop' else real.enabled(),
            'all_log': list(real.all_log), 'log': list(real.log),
            'state': p._state.value, 'conc': p._concurrency,
            'stop_called': real.stop_called, 'src_raised': real.src_raised, 'task_raised': real.task_raised,
            'error': None, 'given': real.given,
        }
        if real.main.done() and not real.main.cancelled() and real.main.exception() is not None:
            res['error'] = type(real.main.exception()).__name__
        elif real.main.done() and real.main.cancelled():
            res['error'] = 'CancelledError'
        return res
    finally:
        real.close()


POLICIES = ['uniform', 'producer-first', 'workers-first', 'main-last', 'tasks-late', 'tasks-early']


def choose_action(real, policy, rng, step_no, inj, n_inj):
    """Pick the next action from what the real side offers (plus injections)."""
    en = real.enabled()
    started = step_no > 0
    # scheduled injections: inj = {'S': p_stop, 'C': p_conc, 'X': p_fail, 'max': m}
    if started and n_inj < inj.get('max', 0):
        r = rng.random()
        if r < inj.get('S', 0):
            return 'S'
        if r < inj.get('S', 0) + inj.get('C', 0):
            return 'C%d' % rng.choice([0, 0, 1, 2, 3])
    if not en:
        # quiescent with process() pending: a legitimate pause can be ended by an injection
        if started and inj.get('unpause', True) and real.pipeline._state.value == 'running' \
                and real.pipeline._concurrency == 0 and n_inj < inj.get('max', 0) + 2:
            return rng.choice(['C1', 'C2', 'S', 'C3'])
        return None
    tasks = [a for a in en if a[0] == 'T']
    others = [a for a in en if a[0] != 'T']
    pick = None
    if policy == 'producer-first' and 'P' in en and rng.random() < 0.8:
        pick = 'P'
    elif policy == 'workers-first' and (tasks or 'G' in en) and rng.random() < 0.8:
        pick = rng.choice(tasks + (['G'] if 'G' in en else []))
    elif policy == 'main-last' and len(en) > 1 and 'M' in en and rng.random() < 0.85:
        pick = rng.choice([a for a in en if a != 'M'])
    elif policy == 'tasks-late' and others and rng.random() < 0.85:
        pick = rng.choice(others)
    elif policy == 'tasks-early' and tasks and rng.random() < 0.85:
        pick = rng.choice(tasks)
    if pick is None:
        pick = rng.choice(en)
    if pick[0] == 'T' and rng.random() < inj.get('X', 0):
        pick = 'X' + pick[1:]
    return pick


# ------------------------------------------------------------------ oracle (model-independent)
def oracle(ctx, case, res):
    """The property's clauses on the real run."""
    n, k = res.get('n_total', case['n']), case['k']       # the source may have been refilled between runs
    per = {}
    for (t, i, se) in res['log']:
        per.setdefault(i, []).append((t, se))
    canon = [(t, se) for t in range(k) for se in 'se']
    for i, evs in per.items():
        if not (0 <= i < n) or i >= res['given']:
            ctx.fail('foreign-item', 'Worker.process_one', case, 'item %r was processed but not supplied by the source' % i)
        if evs != canon[:len(evs)]:
            ctx.fail('task-order', 'Worker.process_one', case,
                     'item %d went through %r, not a prefix of all tasks in order once' % (i, evs))
    complete = [i for i, evs in per.items() if evs == canon]
    for end in res.get('run_ends', []):
        if end['status'] != 'r':
            continue
        # what a returned run must leave behind on the Pipeline / ItemQueue object (it may be processed again)
        if end['lock_held']:
            ctx.fail('dirty-end', 'lock-held', case,
                     'run %d returned but the ItemQueue condition lock is still held (by a dead task): the next '
                     'process() on this object blocks in ItemQueue.get()' % end['run'])
        if end['alive_tasks'] or end['worker_tasks'] or not end['producer_done']:
            ctx.fail('dirty-end', 'task-alive', case,
                     'run %d returned with %d task(s) of the run still alive, %d entries in _worker_tasks, producer done=%s'
                     % (end['run'], end['alive_tasks'], end['worker_tasks'], end['producer_done']))
        if end['in_flight']:
            ctx.fail('returned-early', 'shutdown', case,
                     'run %d returned while item(s) %r were still inside a task' % (end['run'], end['in_flight']))
        if not end.get('stop_in_run') and not end.get('failure') and 'given' in end:
            # a run that was not stopped ends only by exhaustion: the source was polled until it had nothing left
            # and every item it handed out in this run (every item at all, if no run was ever stopped) went through
            # all tasks; nothing is left in the queue
            lo = 0 if not end['stop_before'] else end['given_at_start']
            missing = [i for i in range(lo, end['n_total']) if i not in end['complete']]
            if end['given'] < end['n_total'] or missing or end['queued_items']:
                ctx.fail('items-left-unprocessed', 'run', case,
                         'run %d returned without a stop request although the source still held work: %d of %d items '
                         'taken from the source, items %r not through all tasks, %d item(s) left in the queue'
                         % (end['run'], end['given'], end['n_total'], missing[:8], end['queued_items']))
    hang = None
    if res['bad'] == 'busy-loop':
        hang = 'process() spins in `while running: event.wait()` without ever yielding (event loop frozen)'
    elif res['main'] == 'p' and not res['enabled'] and not res.get('cut'):
        paused = res['state'] == 'running' and res['conc'] == 0 and not (res['src_raised'] or res['task_raised'] > 0)
        if not paused:
            hang = ('the loop ran dry with process() pending: state=%s concurrency=%d, %d of %d items complete'
                    % (res['state'], res['conc'], len(complete), n))
    failure = res['src_raised'] or res['task_raised'] > 0
    unsurfaced = False
    if not hang:
        for q in res.get('qpoints', []):
            if q['task_raised'] or q['src_raised']:
                # a task / the source has raised, nothing can move any more and process() has not raised:
                # the failure did not surface (a pause - running with concurrency 0 - is no excuse: nothing
                # guarantees a later resume)
                hang = ('after action %d the loop is dry with process() pending although a task or the source has '
                        'raised (state=%s concurrency=%d): the failure is not surfaced' % (q['at'], q['state'], q['conc']))
                unsurfaced = True
                break
    if hang:
        if res['bad'] == 'busy-loop':
            kind, where = 'hang', 'pause-at-start'
        elif unsurfaced:
            kind, where = 'hang', 'failure'
        elif ('restart',) in res['all_log']:
            kind, where = 'hang', 'second-run'
        elif res['stop_called']:
            kind, where = 'hang', 'stop'
        elif failure:
            kind, where = 'hang', 'failure'
        elif res['state'] == 'stopping' and res['conc'] == 0:
            kind, where = 'hang', 'pause'
        else:
            kind, where = 'hang', 'exhausted'
        ctx.fail(kind, where, case, hang)
        return
    if res['main'] == 'r' and res.get('in_flight_end'):
        ctx.fail('returned-early', 'shutdown', case,
                 'process() returned while item(s) %r were still inside a task (begun, not through every task)'
                 % (res['in_flight_end'],))
    if res['main'] == 'r':
        if failure:
            ctx.fail('error-swallowed', 'shutdown', case,
                     'a task or the source raised but process() returned normally')
        elif not res['stop_called']:
            if sorted(complete) != list(range(n)):
                ctx.fail('item-lost', 'process', case,
                         'process() returned without a stop but only items %r of %d went through all tasks' % (sorted(complete), n))
    if res['main'] == 'x':
        if res['error'] not in ('TaskError', 'SourceError') + tuple(SOURCE_EXCEPTIONS):
            ctx.fail('spurious-error', 'process', case, 'process() raised %s although nothing failed' % res['error'])
    if res['stop_called']:
        # after stop(): no further get_item call, no item started that was not in flight - within that run
        al = res['all_log']
        at = al.index(('stop',))
        started_before = {e[1] for e in al[:at] if len(e) == 3 and e[0] == 0 and e[2] == 's'}
        rest = al[at + 1:]
        if ('restart',) in rest:
            rest = rest[:rest.index(('restart',))]
        for e in rest:
            if e == ('get',) and case.get('stop_effective', True):
                ctx.fail('work-after-stop', 'Producer.process', case, 'get_item was called after stop()')
                break
            if len(e) == 3 and e[2] == 's' and e[1] not in started_before:
                ctx.fail('work-after-stop', 'Worker.process_one', case, 'item %d was started after stop()' % e[1])
                break


# ------------------------------------------------------------------ model side
def model_line(case, actions):
    return 'pipeline run %d %d %d %s %s %s' % (case['n'], case['k'], case['conc'], 'T' if case['src_fail'] else 'F',
                                             FIX_ALL, '/'.join(actions) if actions else '-')


def compare(ctx, case, res, reply):
    real_steps = res['steps']
    model_steps = reply.split('|') if reply else []
    if res['bad'] == 'busy-loop':
        # the model must show the spin (main status b) at the step where the real loop froze
        if len(model_steps) != len(real_steps) + 1 or not model_steps[-1].split(';')[-2:-1] == ['b']:
            ctx.disagree('cosim', case, model_steps[-1:] and model_steps[-1], 'busy-loop at action %d' % len(real_steps))
        model_steps = model_steps[:len(real_steps)]
    for ix, (m, r) in enumerate(itertools.zip_longest(model_steps, real_steps)):
        if m != r:
            ctx.disagree('cosim', dict(case, at=ix, action=(res['actions'] + ['?'])[ix] if ix < len(res['actions']) else None),
                         m, r)
            return False
    return True


def check_cases(ctx, cases_results, tags=()):
    """cases_results: list of (case, res) with res from run_real; ask the model, compare, run the oracle."""
    lines = [model_line(c, r['actions']) for c, r in cases_results]
    replies = ctx.model.ask(lines)
    for (case, res), rep in zip(cases_results, replies):
        case = dict(case, actions=res['actions'])
        compare(ctx, case, res, rep)
        oracle(ctx, case, res)
        t = ['end:' + {'r': 'returned', 'x': 'raised', 'p': 'pending', 'b': 'busy'}[res['main']],
             'items:%d' % case['n'], 'tasks:%d' % case['k'], 'conc0:%d' % case['conc']]
        if res['stop_called']:
            t.append('inj:stop')
        if any(a[0] == 'C' for a in res['actions']):
            t.append('inj:conc')
        if res['task_raised']:
            t.append('inj:task-raises')
        if res['src_raised']:
            t.append('inj:source-raises')
        if res['main'] == 'p' and not res['enabled']:
            t.append('end:paused')
        ctx.case((case['n'], case['k'], case['conc'], case['src_fail'], tuple(res['actions'])),
                 nontrivial=res['given'] > 0, tags=t + list(tags))


# ------------------------------------------------------------------ generators
def gen_random(ctx, rng, count):
    out = []
    for _ in range(count):
        n = rng.choice([0, 1, 1, 2, 2, 3, 3, 4, 5, 6])
        k = rng.choice([1, 1, 2, 2, 3])
        conc = rng.choice([0, 1, 1, 2, 2, 3, 3, 4])
        src_fail = rng.random() < 0.12
        style = rng.random()
        inj = {'max': 0}
        if style < 0.25:
            inj = {'max': 0, 'X': 0.0}
        elif style < 0.5:
            inj = {'max': 1, 'S': 0.06}
        elif style < 0.75:
            inj = {'max': rng.choice([1, 2, 4]), 'C': 0.08, 'S': 0.01}
        elif style < 0.87:
            inj = {'max': 0, 'X': 0.15}
        else:
            inj = {'max': 3, 'S': 0.03, 'C': 0.06, 'X': 0.07}
        case = {'n': n, 'k': k, 'conc': conc, 'src_fail': src_fail}
        res = run_real(n, k, conc, src_fail, rng.choice(POLICIES), rng, inj)
        out.append((case, res))
    return out


PAUSE_VARIANTS = ['finish-then-fail', 'fail-then-finish', 'fail-all', 'fail-then-resume', 'finish-fail-resume',
                  'pause-resume', 'pause-resume-twice', 'fail-then-stop']


def gen_pause_failure(ctx, rng, count):
    """Pause scenarios: concurrency >= 2, >= 2 items in flight, `concurrency = 0` mid-run, then in-flight items
    finishing / raising in every order, with or without a later resume or stop."""
    out = []
    for ix in range(count):
        variant = PAUSE_VARIANTS[ix % len(PAUSE_VARIANTS)]
        n = rng.choice([2, 2, 3, 4, 5])
        k = rng.choice([1, 1, 2, 3])
        conc = rng.choice([2, 2, 3])
        want = min(n, conc, rng.choice([2, 2, 3]))
        st = {'phase': 0, 'tdone': 0, 'failed': 0, 'resumed': 0, 'wait': rng.choice([0, 0, 1, 3])}

        def picker(real, actions, st=st, variant=variant, want=want):
            en = real.enabled()
            tasks = [a for a in en if a[0] == 'T']
            others = [a for a in en if a[0] != 'T']
            if st['phase'] == 0:
                if len(tasks) >= want and st['wait'] <= 0:
                    st['phase'] = 1
                    return 'C0'
                if len(tasks) >= want:
                    st['wait'] -= 1
                if others and (len(tasks) < want or rng.random() < 0.7):
                    return rng.choice(others)
                if en:
                    return rng.choice(en)
                return None
            # paused (or resumed)
            if not en:
                if real.main.done():
                    return None
                if variant in ('fail-then-resume', 'finish-fail-resume', 'pause-resume') and st['resumed'] < 1:
                    st['resumed'] += 1
                    return rng.choice(['C1', 'C2', 'C3'])
                if variant == 'pause-resume-twice' and st['resumed'] < 3:
                    st['resumed'] += 1
                    return 'C0' if st['resumed'] == 2 else rng.choice(['C1', 'C2'])
                if variant == 'fail-then-stop' and st['resumed'] < 1:
                    st['resumed'] += 1
                    return 'S'
                return None
            a = rng.choice(en if rng.random() < 0.5 or not tasks else tasks)
            if a[0] != 'T':
                return a
            # a task completes: normally or by raising, as the variant says
            fail = False
            if variant in ('finish-then-fail', 'finish-fail-resume'):
                fail = st['tdone'] >= 1 and st['failed'] == 0 and real.holder_last(a)
            elif variant in ('fail-then-finish', 'fail-then-resume', 'fail-then-stop'):
                fail = st['failed'] == 0
            elif variant == 'fail-all':
                fail = True
            if fail:
                st['failed'] += 1
                return 'X' + a[1:]
            if real.holder_last(a):
                st['tdone'] += 1
            return a
        case = {'n': n, 'k': k, 'conc': conc, 'src_fail': False}
        res = run_real(n, k, conc, False, [], picker=picker)
        res['variant'] = variant
        out.append((case, res))
    return out


def gen_url_source(ctx, rng, count):
    """The REAL URLItemSource (wpull/pipeline/session.py) over a stub URL table as the pipeline's source: n records,
    then NotFound - or a check_out failure (sqlite3.OperationalError, OSError, Exception, RuntimeError) raised by the
    check_out(todo) or the check_out(error) call."""
    out = []
    for _ in range(count):
        n = rng.choice([0, 1, 2, 3, 4])
        k = rng.choice([1, 1, 2])
        conc = rng.choice([1, 1, 2, 3])
        src_fail = rng.random() < 0.7
        spec = {'exc': rng.choice(SOURCE_EXCEPTIONS), 'at': rng.choice(['todo', 'error'])}
        inj = rng.choice([{'max': 0}, {'max': 0}, {'max': 1, 'C': 0.05}, {'max': 0, 'X': 0.05}])
        case = {'n': n, 'k': k, 'conc': conc, 'src_fail': src_fail, 'url_source': spec}
        res = run_real(n, k, conc, src_fail, rng.choice(POLICIES), rng, inj, url_source=spec)
        out.append((case, res))
    return out


RERUN_VARIANTS = ['natural', 'stop-blocked-producer', 'stop-random', 'pause-then-stop', 'stop-blocked-producer',
                  'natural-paused-restart']


def gen_second_run(ctx, rng, count):
    """Histories with a second (third) process() on the SAME Pipeline / ItemQueue object: run 1 ends by natural end,
    by a stop with the producer blocked in put_item, by a stop at a random point, or by pause-then-stop; then
    `concurrency = k` (0..3) and process() again (a paused start is un-paused later); same oracle as a first run."""
    out = []
    for ix in range(count):
        variant = RERUN_VARIANTS[ix % len(RERUN_VARIANTS)]
        n = rng.choice([2, 3, 4, 5, 6])
        k = rng.choice([1, 1, 2])
        conc = rng.choice([1, 1, 2, 3])
        st = {'phase': 0, 'stopped': False, 'paused': False, 'runs': 1, 'max_runs': rng.choice([2, 2, 3]),
              'stop_at': rng.randrange(2, 25), 'resumes': 0}
        k2 = 0 if variant == 'natural-paused-restart' else None

        def picker(real, actions, st=st, variant=variant, k2=k2):
            if real.main.done():
                if real.main_status() != 'r' or st['runs'] >= st['max_runs']:
                    return None
                st['runs'] += 1
                st['stopped'] = True        # later runs just run (possibly paused at start)
                c = k2 if (k2 is not None and st['runs'] == 2) else rng.choice([0, 1, 1, 2, 3])
                m = rng.choice([0, 1, 2, 3])
                return 'R%d+%d' % (c, m) if m else 'R%d' % c
            en = real.enabled()
            p = real.pipeline
            if not en:
                if p._state.value == 'running' and p._concurrency == 0 and st['resumes'] < 4:
                    st['resumes'] += 1
                    if variant == 'pause-then-stop' and not st['stopped']:
                        st['stopped'] = True
                        return 'S'
                    return rng.choice(['C1', 'C2', 'C3'])
                return None
            if not st['stopped'] and len(actions) > 0:
                q = p._item_queue
                blocked = any(not w.done() for w in q._worker_ready_condition._waiters) and q._queue.qsize() > 0 \
                    and any(a[0] == 'T' for a in en)
                if variant == 'stop-blocked-producer' and blocked:
                    st['stopped'] = True
                    return 'S'
                if variant == 'stop-random' and len(actions) >= st['stop_at']:
                    st['stopped'] = True
                    return 'S'
                if variant == 'pause-then-stop' and not st['paused'] and len(actions) >= st['stop_at']:
                    st['paused'] = True
                    return 'C0'
            others = [a for a in en if a[0] != 'T']
            if variant == 'stop-blocked-producer' and not st['stopped'] and others and rng.random() < 0.8:
                return rng.choice(others)
            return rng.choice(en)
        case = {'n': n, 'k': k, 'conc': conc, 'src_fail': False}
        res = run_real(n, k, conc, False, [], picker=picker)
        res['variant'] = variant
        out.append((case, res))
    return out


TASK_KINDS = ['gen', 'async', 'future']


def gen_task_kinds(ctx, rng, count):
    """The pipeline's tasks in every awaitable style: generator coroutine, `async def`, and a plain function returning a
    Future that completes (or fails) later; random schedules incl. stops, concurrency changes, failures."""
    out = []
    for _ in range(count):
        n = rng.choice([1, 2, 3, 4])
        k = rng.choice([1, 2, 2, 3])
        conc = rng.choice([1, 1, 2, 3])
        kinds = [rng.choice(TASK_KINDS) for _ in range(k)]
        if 'future' not in kinds and rng.random() < 0.5:
            kinds[rng.randrange(k)] = 'future'
        inj = rng.choice([{'max': 0}, {'max': 0, 'X': 0.1}, {'max': 1, 'S': 0.04}, {'max': 1, 'C': 0.06}])
        case = {'n': n, 'k': k, 'conc': conc, 'src_fail': False, 'task_kinds': kinds}
        res = run_real(n, k, conc, False, rng.choice(POLICIES), rng, inj, task_kinds=kinds)
        out.append((case, res))
    return out


STOP_VARIANTS = ['stop', 'stop', 'stop-fail-last', 'source-raises', 'source-raises-fail-last', 'stop-queued']


def gen_stop_busy(ctx, rng, count):
    """Stop scenarios: every worker busy (concurrency 1-4) and, when possible, the next item already in the queue
    when stop() is called / the source raises; the in-flight items then finish at different times (process() steps
    in between), the last one possibly raising."""
    out = []
    for ix in range(count):
        variant = STOP_VARIANTS[ix % len(STOP_VARIANTS)]
        conc = rng.choice([1, 2, 3, 3, 4, 4])
        k = rng.choice([1, 1, 2, 3])
        src = variant.startswith('source')
        n = conc if src else conc + rng.choice([1, 2, 3])
        st = {'phase': 0, 'left': None}

        def picker(real, actions, st=st, variant=variant, conc=conc, src=src):
            en = real.enabled()
            if not en:
                return None
            tasks = [a for a in en if a[0] == 'T']
            others = [a for a in en if a[0] != 'T']
            if st['phase'] == 0:
                queued = real.pipeline._item_queue._queue.qsize() > 0
                if len(tasks) >= conc and (src or queued or not others):
                    st['phase'] = 1
                    st['left'] = len(tasks)
                    if not src:
                        return 'S'
                if src and real.src_raised:
                    st['phase'] = 1
                    st['left'] = len(tasks)
                if len(tasks) >= conc and src and 'P' in en:
                    return 'P'
                if others:
                    return rng.choice(others)
                return rng.choice(en)
            # after the stop / the source failure: staggered completions, process() runs in between
            if 'M' in en and rng.random() < 0.75:
                return 'M'
            if others and rng.random() < 0.6:
                return rng.choice(others)
            if tasks:
                a = rng.choice(tasks)
                if variant.endswith('fail-last') and len(tasks) == 1 and real.holder_last(a):
                    return 'X' + a[1:]
                return a
            return rng.choice(en)
        case = {'n': n, 'k': k, 'conc': conc, 'src_fail': src}
        res = run_real(n, k, conc, src, [], picker=picker)
        res['variant'] = variant
        out.append((case, res))
    return out


def enumerate_scope(ctx, n, k, conc, src_fail, inject, limit):
    """Every schedule (DFS over the enabled actions of the real side) with the injection `inject`
    ('S', 'C0', 'C2', 'X', None) made at every position.  One real run per leaf: a run replays a stored
    prefix and then follows the first option at every step, pushing the other options as new prefixes.
    Returns (list of (case, res), whole space explored?)."""
    out = []
    case = {'n': n, 'k': k, 'conc': conc, 'src_fail': src_fail}
    stack = [([], False)]

    def options(real, actions, injected):
        en = real.enabled()
        if not en:
            p = real.pipeline
            if p._state.value == 'running' and p._concurrency == 0 and len(actions) < 60 and actions[-1:] != ['C1'] \
                    and not real.main.done():
                return [('C1', injected)]          # end the pause, continue (the paused point itself is judged too)
            return []
        opts = []
        for a in en:
            opts.append((a, injected))
            if inject == 'X' and not injected and a[0] == 'T':
                opts.append(('X' + a[1:], True))
            if inject == 'C0+X' and injected == 1 and a[0] == 'T':
                opts.append(('X' + a[1:], 2))
        if inject in ('S', 'C0', 'C1', 'C2') and not injected and actions:
            opts.append((inject, True))
        if inject == 'C0+X' and not injected and actions:
            opts.append(('C0', 1))
        return opts

    while stack and len(out) < limit:
        prefix, injected = stack.pop()
        state = {'inj': injected}

        def picker(real, actions):
            opts = options(real, actions, state['inj'])
            if not opts:
                return None
            for (a, inj2) in reversed(opts[1:]):
                stack.append((actions + [a], inj2))
            state['inj'] = opts[0][1]
            return opts[0][0]
        res = run_real(n, k, conc, src_fail, list(prefix), picker=picker)
        out.append((case, res))
    return out, (not stack)


# ------------------------------------------------------------------ free-running oracle stream
def free_run(ctx, rng, count):
    """The real pipeline under the unconstrained seeded loop (completion callbacks delayed arbitrarily,
    futures released by a seeded driver task): oracle only."""
    for _ in range(count):
        n = rng.choice([0, 1, 2, 3, 4, 6])
        k = rng.choice([1, 2, 3])
        conc = rng.choice([0, 1, 2, 3, 4])
        src_fail = rng.random() < 0.1
        seed = rng.randrange(1 << 30)
        plan = {'stop_at': rng.choice([None, None, rng.randrange(1, 40)]),
                'conc_at': [(rng.randrange(1, 40), rng.choice([0, 1, 2, 3])) for _ in range(rng.choice([0, 0, 1, 2]))],
                'fail_p': rng.choice([0, 0, 0, 0.1])}
        case = {'stream': 'free', 'n': n, 'k': k, 'conc': conc, 'src_fail': src_fail, 'seed': seed, 'plan': plan}
        res = run_free(case)
        oracle(ctx, dict(case, stop_effective=res.get('stop_effective', True)), res)
        ctx.case(('free', n, k, conc, src_fail, seed, json.dumps(plan, sort_keys=True)), nontrivial=res['given'] > 0,
                 tags=['free:' + {'r': 'returned', 'x': 'raised', 'p': 'pending', 'b': 'busy'}[res['main']]])


def run_free(case):
    import random
    rng = random.Random(case['seed'])
    n, k, conc, src_fail, plan = case['n'], case['k'], case['conc'], case['src_fail'], case['plan']
    real = Real(n, k, conc, src_fail)
    real.loop._chooser = None
    real.loop._rng = random.Random(case['seed'])
    conc_at = dict((int(a), b) for a, b in plan['conc_at'])
    bad = None
    started = False
    stop_effective = True
    try:
        for it in range(3000):
            if real.main.done():
                break
            if started and plan['stop_at'] == it:
                real.stop_called = True
                real.stop_in_run = True
                real.all_log.append(('stop',))
                real.pipeline.stop()
            if started and it in conc_at:
                real.pipeline.concurrency = conc_at[it]
            # release parked futures at seeded times
            if real.src_fut is not None and not real.src_fut.done() and rng.random() < 0.5:
                real.src_fut.set_result(None)
            for i in list(real.parked):
                if rng.random() < 0.4:
                    real.parked.pop(i).set_result(rng.random() >= plan['fail_p'])
            if real.loop.idle():
                pend = (real.src_fut is not None and not real.src_fut.done()) or real.parked
                if pend:
                    continue
                p = real.pipeline
                if p._state.value == 'running' and p._concurrency == 0 and it < 2500:
                    p.concurrency = rng.choice([1, 2])
                    continue
                break
            real._spin = 0
            real.loop._run_once()
            if real.busy:
                bad = 'busy-loop'
                break
            started = True
        p = real.pipeline
        pend = (real.src_fut is not None and not real.src_fut.done()) or bool(real.parked)
        res = {'in_flight_end': sorted(real.parked),
               'actions': [], 'steps': [], 'bad': bad, 'main': 'b' if bad else real.main_status(),
               'enabled': ['?'] if (pend or not real.loop.idle()) else [], 'all_log': list(real.all_log), 'log': list(real.log),
               'state': p._state.value, 'conc': p._concurrency, 'stop_called': real.stop_called,
               'src_raised': real.src_raised, 'task_raised': real.task_raised, 'error': None, 'given': real.given,
               'cut': (not real.main.done()) and (pend or not real.loop.idle())}
        if real.main.done() and not real.main.cancelled() and real.main.exception() is not None:
            res['error'] = type(real.main.exception()).__name__
        return res
    finally:
        real.close()


# ------------------------------------------------------------------ Application level (wpull/application/app.py, builder.py)
# What the property says about the built pipeline series: a pipeline that takes new work items (its source is not the
# one-shot housekeeping AppSource) must be skippable, so that Application.run() does not start it once a stop was
# requested (model: Wpull.Pipeline.appRun, theorem app_no_new_work_after_stop).
EXPECTED_PIPELINES = [('AppSource', False), ('URLItemSource', True), ('AppSource', True), ('QueuedFileSource', True),
                      ('AppSource', False)]


def app_site(n_pages, fanout):
    import appsim
    pages = {}
    names = ['/'] + ['/p%d.html' % i for i in range(1, n_pages)]
    for ix, name in enumerate(names):
        kids = names[ix * fanout + 1: ix * fanout + 1 + fanout]
        pages[name] = appsim.Page(200, appsim.html(links=kids, title='page %d' % ix))
    return {'a.test': pages}


def run_app(case):
    """Build and run the whole application (Builder(args).build(), Application.run()) socket-free; instrument
    every pipeline's ItemSource.get_item, the pipeline_begin events and Application.stop()."""
    import appsim
    events = []
    info = {'pipelines': None, 'table_raised': 0, 'stop_calls': 0}
    holder = {}

    def on_app(app, builder):
        holder['app'] = app
        pipes = list(app._pipeline_series.pipelines)
        info['pipelines'] = [(type(p._producer._item_source).__name__, bool(p.skippable),
                              [type(t).__name__ for t in p.tasks]) for p in pipes]
        for ix, p in enumerate(pipes):
            src = p._producer._item_source
            orig = src.get_item

            def make(ix, orig):
                @asyncio.coroutine
                def get_item():
                    events.append(('call', ix))
                    item = yield from orig()
                    events.append(('item' if item else 'none', ix))
                    return item
                return get_item
            src.get_item = make(ix, orig)
        app.event_dispatcher.add_listener(app.Event.pipeline_begin, lambda p: events.append(('begin', pipes.index(p))))
        orig_stop = app.stop

        def stop():
            info['stop_calls'] += 1
            if info['stop_calls'] == 1:
                events.append(('stop',))
            return orig_stop()
        app.stop = stop
        tf = case.get('table_fail')
        startup_stop = bool(case.get('stop')) and case['stop']['kind'] == 'startup'
        if tf or startup_stop:
            factory = builder.factory
            prev_new = factory.new

            def new(name, *a, **k):
                obj = prev_new(name, *a, **k)
                if name == 'URLTable' and startup_stop:
                    app.stop()          # a stop request while the start-up pipeline is running
                if name == 'URLTable' and tf:
                    inner = obj.check_out
                    count = {'n': 0}

                    def check_out(*aa, **kk):
                        count['n'] += 1
                        if count['n'] == tf['k']:
                            info['table_raised'] += 1
                            raise make_exception(tf['exc'])
                        return inner(*aa, **kk)
                    obj.check_out = check_out
                return obj
            factory.new = new

    def on_request(entry):
        st = case.get('stop')
        if st and st['kind'] == 'request' and entry['n'] + 1 == st['k'] and 'app' in holder:
            holder['app'].stop()

    extra = ['-r', '--no-robots']
    if case.get('convert_links'):
        extra.append('--convert-links')
    st = case.get('stop')
    if st and st['kind'] == 'quota':
        extra += ['--quota', str(st['bytes'])]
    site = app_site(case['pages'], case['fanout'])
    saved = os.dup(2)
    devnull = os.open(os.devnull, os.O_WRONLY)
    try:
        os.dup2(devnull, 2)             # wpull logs the fatal exception of a failing run to the console
        res = appsim.run_crawl(['http://a.test/'], site, seed=case['seed'], concurrent=case['conc'], extra=extra,
                               on_request=on_request, on_app=on_app, max_steps=400000)
    finally:
        os.dup2(saved, 2)
        os.close(saved)
        os.close(devnull)
    return {'events': events, 'pipelines': info['pipelines'], 'table_raised': info['table_raised'],
            'stopped': info['stop_calls'] > 0, 'exit': res.exit_code, 'hung': res.hung, 'error': res.error,
            'requests': len(res.requests), 'rows': res.rows}


def app_oracle(ctx, case, r):
    pipes = r['pipelines'] or []
    # the skippable table, read from the built application
    got = [(s, sk) for (s, sk, _) in pipes]
    for ix, (s, sk) in enumerate(got):
        if s != 'AppSource' and not sk:
            ctx.fail('work-after-stop', 'Builder.pipelines', case,
                     'pipeline %d (source %s, tasks %r) takes new work items but is not flagged skippable: '
                     'Application.run() starts it after a stop request' % (ix, s, pipes[ix][2]))
    if r['hung']:
        ctx.fail('hang', 'application', case, 'Application.run() did not complete (loop ran dry)')
        return
    ev = r['events']
    if ('stop',) in ev:
        at = ev.index(('stop',))
        for e in ev[at + 1:]:
            if e[0] == 'item' and got[e[1]][0] != 'AppSource':
                ctx.fail('work-after-stop', 'Application.run', case,
                         'after Application.stop() pipeline %d (source %s) took a new work item' % (e[1], got[e[1]][0]))
                break
    if r['table_raised']:
        if r['exit'] == 0 and not r['error']:
            ctx.fail('error-swallowed', 'URLItemSource.get_item', case,
                     'URLTable.check_out raised %s but Application.run() finished with exit status 0 (%d of the rows '
                     'not done)' % (case['table_fail']['exc'], len([x for x in r['rows'] if x['status'] not in ('done', 'skipped')])))
    elif not r['stopped'] and not case.get('stop'):
        left = [x['url'] for x in r['rows'] if x['status'] in ('todo', 'in_progress')]
        if r['exit'] != 0 or left:
            ctx.fail('item-lost', 'application', case, 'exit status %r, unprocessed rows %r' % (r['exit'], left[:5]))


def app_case(ctx, case):
    r = run_app(case)
    app_oracle(ctx, case, r)
    got = [(s, sk) for (s, sk, _) in (r['pipelines'] or [])]
    if got != EXPECTED_PIPELINES:
        ctx.disagree('app-pipelines', case, EXPECTED_PIPELINES, got)
    # Application.run against the model `appRun` (with the flags read from the built application)
    ev = r['events']
    begins = [e[1] for e in ev if e[0] == 'begin']
    sd = '-'
    if ('stop',) in ev:
        before = [e[1] for e in ev[:ev.index(('stop',))] if e[0] == 'begin']
        sd = str(before[-1]) if before else '-'
    fi = str(begins[-1]) if (r['exit'] not in (0, None) and r['table_raised']) else '-'
    if not r['hung'] and got:
        spec = '.'.join(('h' if s == 'AppSource' else 'w') + ('s' if sk else 'n') for s, sk in got)
        rep = ctx.model.ask(['pipeline app %s %s %s' % (spec, sd, fi)])[0]
        real = '.'.join(str(b) for b in begins)
        if rep != real:
            ctx.disagree('app-run', dict(case, spec=spec, stop_during=sd, fail_in=fi), rep, real)
    tags = ['app:exit=%s' % r['exit'], 'app:convert' if case.get('convert_links') else 'app:no-convert']
    if ('stop',) in r['events']:
        tags.append('app:stopped-by-' + case['stop']['kind'])
        at = r['events'].index(('stop',))
        tags.append('app:stop-during-pipeline-%d' % max([e[1] for e in r['events'][:at] if e[0] == 'begin'] + [0]))
    if r['table_raised']:
        tags.append('app:check_out-raised-' + case['table_fail']['exc'])
    ctx.case(('app', json.dumps(case, sort_keys=True)), nontrivial=r['requests'] > 0, tags=tags)
    return r


def app_stream(ctx, rng, count):
    for ix in range(count):
        pages = rng.choice([2, 3, 4, 6])
        case = {'stream': 'app', 'pages': pages, 'fanout': rng.choice([1, 2, 3]), 'conc': rng.choice([1, 2, 3]),
                'seed': rng.randrange(1 << 20), 'convert_links': rng.random() < 0.75, 'stop': None, 'table_fail': None}
        kind = ix % 5
        if kind == 4:
            case['stop'] = {'kind': 'startup'}
        elif kind == 0:
            case['stop'] = {'kind': 'request', 'k': rng.randrange(1, pages + 1)}
        elif kind == 1:
            case['stop'] = {'kind': 'quota', 'bytes': rng.choice([1, 60, 150, 400])}
        elif kind == 2:
            case['table_fail'] = {'k': rng.randrange(1, pages + 3), 'exc': rng.choice(SOURCE_EXCEPTIONS)}
        r = app_case(ctx, case)
        if ix < 2:
            ctx.sample(dict(case, exit=r['exit'], pipelines=[(s, sk) for (s, sk, _) in (r['pipelines'] or [])]))


# ------------------------------------------------------------------ Application.run over a scripted PipelineSeries
SERIES_KINDS = ['list', 'tuple', 'generator', 'iterator']


def run_series(case):
    """Application(PipelineSeries(<list | tuple | generator | iterator of Pipelines>)).run() with scripted sources and
    tasks.  The series is read while it is being run: `series.concurrency = k` and `tuple(series.pipelines)` before the
    run and / or from inside a task of the first pipeline (what plugins and PluginSetupTask do)."""
    from wpull.application.app import Application
    from wpull.pipeline.pipeline import Pipeline, PipelineSeries, ItemSource, ItemTask
    log, begins, polls = [], [], {}
    holder = {}

    class Source(ItemSource):
        def __init__(self, ix, items):
            self.ix, self.items = ix, list(items)
            polls[ix] = 0

        @asyncio.coroutine
        def get_item(self):
            polls[self.ix] += 1
            if self.items:
                return self.items.pop(0)
            st = stop_spec()
            if st and st['at'] == 'late' and st['pipe'] == self.ix and not holder.get('late'):
                # the source is exhausted: the stop request arrives a few loop steps later, around the moment the
                # pipeline winds down (state stopping / stopped, process() not yet returned - or just returned)
                holder['late'] = True
                delay = st.get('steps', 0)

                def later(k=delay):
                    if k > 0:
                        holder['loop'].call_soon(later, k - 1)
                    else:
                        do_stop()
                holder['loop'].call_soon(later)

    def stop_spec():
        if case.get('stop'):
            return case['stop']
        if case.get('stop_during') is not None:
            return {'at': 'task', 'pipe': case['stop_during']}
        return None

    def do_stop():
        app = holder['app']
        if 'stop_at' not in holder:
            cur = app._current_pipeline
            holder['stop_at'] = pipes.index(cur) if cur in pipes else None
            holder['stop_midway'] = bool(cur is not None and cur._state.value == 'running')
            holder['begins_at_stop'] = len(begins)
        app.stop()

    class Record(ItemTask):
        def __init__(self, ix, t):
            self.ix, self.t = ix, t

        @asyncio.coroutine
        def process(self, item):
            first = item.endswith('.0') and self.t == 0
            if first and self.ix == 0:
                if case['set_conc'] == 'during':
                    holder['conc_set'] = True
                    holder['series'].concurrency = case['conc']
                if case['read'] == 'during':
                    holder['seen'] = len(tuple(holder['series'].pipelines))
            st = stop_spec()
            if first and st and st['at'] == 'task' and st['pipe'] == self.ix:
                do_stop()
            yield from asyncio.sleep(0)
            if first and case['fail_in'] == self.ix:
                raise TaskError('pipeline %d' % self.ix)
            log.append((self.ix, self.t, item))

    class RecordTask(Record):
        """a plain function returning an asyncio.Task"""
        def process(self, item):
            return asyncio.ensure_future(compat._ensure(Record.process(self, item)))

    class RecordDone(Record):
        """a plain function that does its work at once and returns an already-done (or already-failed) Future"""
        def process(self, item):
            out = holder['loop'].create_future()
            first = item.endswith('.0') and self.t == 0
            st = stop_spec()
            if first and st and st['at'] == 'task' and st['pipe'] == self.ix:
                do_stop()
            if first and case['fail_in'] == self.ix:
                out.set_exception(TaskError('pipeline %d' % self.ix))
            else:
                log.append((self.ix, self.t, item))
                out.set_result(None)
            return out
    record_cls = {'gen': Record, 'task': RecordTask, 'done-future': RecordDone}[case.get('task_kind', 'gen')]

    pipes = []
    for ix, (n_items, n_tasks, skippable) in enumerate(case['pipes']):
        p = Pipeline(Source(ix, ['p%d.%d' % (ix, j) for j in range(n_items)]),
                     [(Record if (ix == 0 and t == 0) else record_cls)(ix, t) for t in range(n_tasks)])
        p.skippable = bool(skippable)
        pipes.append(p)
    kind = case['kind']
    arg = {'list': lambda: list(pipes), 'tuple': lambda: tuple(pipes), 'generator': lambda: (p for p in pipes),
           'iterator': lambda: iter(pipes)}[kind]()
    series = PipelineSeries(arg)
    holder['series'] = series
    for ix in case['conc_pipes']:
        series.concurrency_pipelines.add(pipes[ix])
    if case['set_conc'] == 'before':
        series.concurrency = case['conc']
    if case['read'] == 'before':
        holder['seen'] = len(tuple(series.pipelines))
    app = Application(series)
    holder['app'] = app

    def on_begin(p):
        begins.append(pipes.index(p))
        st = stop_spec()
        if st and st['at'] == 'begin' and st['pipe'] == pipes.index(p):
            do_stop()

    def on_end(p):
        st = stop_spec()
        if st and st['at'] == 'end' and st['pipe'] == pipes.index(p):
            do_stop()
    app.event_dispatcher.add_listener(app.Event.pipeline_begin, on_begin)
    app.event_dispatcher.add_listener(app.Event.pipeline_end, on_end)
    loop = sched.new_det_loop(case['seed'])
    holder['loop'] = loop
    saved = os.dup(2)
    devnull = os.open(os.devnull, os.O_WRONLY)
    try:
        os.dup2(devnull, 2)
        exit_code, error = None, None
        if case.get('via') == 'run_sync':
            # Application.run_sync() as main() calls it, on a private loop; a loop that has nothing left to do while
            # run_sync() is still waiting is a hang (reported, not suffered)
            class Dry(BaseException):
                pass
            inner = loop._run_once
            count = {'n': 0}

            def guarded():
                count['n'] += 1
                if (loop.idle() and not loop._stopping) or count['n'] > 200000:
                    raise Dry()
                inner()
            loop._run_once = guarded
            done = True
            try:
                exit_code = app.run_sync()
            except Dry:
                done = False
            except BaseException as e:     # noqa
                error = type(e).__name__
            for obj in list(asyncio.all_tasks(loop)):
                # tasks the application left behind (run() re-raises a task error at once): nobody will run them on
                # the closed loop; close them quietly instead of at garbage collection
                obj._log_destroy_pending = False
                try:
                    obj.get_coro().close()
                except BaseException:      # noqa
                    pass
        else:
            done, task = loop.run_until_quiescent(app.run(), max_steps=200000)
            if done:
                try:
                    exit_code = task.result()
                except BaseException as e:     # noqa
                    error = type(e).__name__
            for t in asyncio.all_tasks(loop):
                t.cancel()
    finally:
        os.dup2(saved, 2)
        os.close(saved)
        os.close(devnull)
        sched.close_loop(loop)
    return {'begins': begins, 'log': log, 'polls': polls, 'left': [len(p._producer._item_source.items) for p in pipes],
            'exit': exit_code, 'error': error, 'hung': not done, 'seen': holder.get('seen'),
            'concs': [p.concurrency for p in pipes], 'after': len(tuple(series.pipelines)),
            'conc_set': bool(holder.get('conc_set')) or case['set_conc'] == 'before',
            'stop_at': holder.get('stop_at'), 'stop_midway': holder.get('stop_midway'),
            'begins_at_stop': holder.get('begins_at_stop')}


def series_case(ctx, case):
    r = run_series(case)
    specs = case['pipes']
    spec = '.'.join('w' + ('s' if sk else 'n') for (_, _, sk) in specs)
    # the stop position is what was observed: the pipeline that was current when Application.stop() was called
    # (from a task, from a pipeline_begin / pipeline_end listener, or some loop steps after the source ran dry)
    stop_at = r['stop_at']
    sd = '-' if stop_at is None else str(stop_at)
    fi = '-' if case['fail_in'] is None else str(case['fail_in'])
    rep = ctx.model.ask(['pipeline app %s %s %s' % (spec, sd, fi)])[0]
    expected = [int(x) for x in rep.split('.')] if rep else []
    if r['begins'] != expected:
        ctx.disagree('app-run', dict(case, spec=spec), rep, '.'.join(str(b) for b in r['begins']))
    # direct oracle (independent of the model)
    if r['hung']:
        if case.get('via') == 'run_sync':
            ctx.fail('hang', 'Application.run_sync', case,
                     'Application.run_sync() did not return: the loop ran dry while it was still waiting (begun: %r)' % (r['begins'],))
        else:
            ctx.fail('hang', 'application', case, 'Application.run() over the scripted series did not complete')
    else:
        n = len(specs)
        must = []           # pipelines that have to be processed
        stopping = False
        for ix in range(n):
            if stopping and specs[ix][2]:
                continue
            must.append(ix)
            if case['fail_in'] == ix:
                break
            if stop_at == ix:
                stopping = True
        for ix in range(n):
            if ix not in must and ix in r['begins'] and (case['fail_in'] is None or ix < case['fail_in']):
                ctx.fail('work-after-stop', 'Application.stop', case,
                         'Application.stop() was called while pipeline %r was current (%s), but the skippable pipeline %d '
                         'was begun afterwards and took %d item(s): the stop request was lost'
                         % (stop_at, (case.get('stop') or {}).get('at', 'task'), ix, r['polls'][ix]))
                break
        for ix in must:
            if r['begins'].count(ix) != 1:
                ctx.fail('pipeline-not-run', 'PipelineSeries', case,
                         'pipeline %d of the %d-pipeline series (built from a %s) was begun %d times (begun: %r, exit status %r): '
                         'its source was polled %d times, %d of its items are left'
                         % (ix, n, case['kind'], r['begins'].count(ix), r['begins'], r['exit'], r['polls'][ix], r['left'][ix]))
                break
            unstopped = not (stop_at == ix and r['stop_midway']) and case['fail_in'] != ix
            if unstopped:
                done_items = {it for (pix, t, it) in r['log'] if pix == ix and t == specs[ix][1] - 1}
                if r['left'][ix] or len(done_items) != specs[ix][0]:
                    ctx.fail('items-left-unprocessed', 'series-pipeline', case,
                             'pipeline %d: %d items left in its source, %d of %d through all tasks'
                             % (ix, r['left'][ix], len(done_items), specs[ix][0]))
                    break
        if case['fail_in'] is not None and case['fail_in'] in must and r['exit'] == 0:
            ctx.fail('error-swallowed', 'Application.run', case, 'a task of pipeline %d raised but the exit status is 0' % case['fail_in'])
        if case['fail_in'] is None and r['exit'] != 0:
            ctx.fail('spurious-error', 'Application.run', case, 'exit status %r (%r) although nothing failed' % (r['exit'], r['error']))
        if case['set_conc'] != 'never' and r['conc_set']:
            for ix in case['conc_pipes']:
                if r['concs'][ix] != case['conc']:
                    ctx.fail('concurrency-not-applied', 'PipelineSeries.concurrency', case,
                             'pipeline %d has concurrency %r after series.concurrency = %d' % (ix, r['concs'][ix], case['conc']))
                    break
        if r['seen'] is not None and r['seen'] != n or r['after'] != n:
            ctx.fail('pipeline-not-run', 'PipelineSeries.pipelines', case,
                     'series.pipelines showed %r pipelines when read %s and %d after the run; the series has %d'
                     % (r['seen'], case['read'], r['after'], n))
    tags = ['series:' + case['kind'], 'series:set-conc-' + case['set_conc'], 'series:read-' + case['read'],
            'series:exit=%s' % r['exit']]
    if stop_at is not None:
        tags.append('series:stop-' + (case.get('stop') or {'at': 'task'})['at'])
        if not r['stop_midway']:
            tags.append('series:stop-while-pipeline-not-running')
    tags.append('series:via-' + case.get('via', 'run'))
    tags.append('series:tasks-' + case.get('task_kind', 'gen'))
    if case['fail_in'] is not None:
        tags.append('series:task-raises')
    ctx.case(('series', json.dumps(case, sort_keys=True)), nontrivial=True, tags=tags)
    return r


def series_stream(ctx, rng, count):
    for ix in range(count):
        n = rng.choice([2, 3, 3, 4])
        pipes = [[rng.choice([1, 2, 3]), rng.choice([1, 2]), (i > 0 and i < n - 1 and rng.random() < 0.5)] for i in range(n)]
        case = {'stream': 'series', 'kind': SERIES_KINDS[ix % 4], 'pipes': pipes,
                'set_conc': rng.choice(['never', 'before', 'during', 'during']), 'conc': rng.choice([1, 2, 3]),
                'conc_pipes': sorted(rng.sample(range(n), rng.choice([1, 1, 2]))),
                'read': rng.choice(['never', 'never', 'before', 'during']),
                'stop_during': None, 'fail_in': None, 'seed': rng.randrange(1 << 20)}
        r = rng.random()
        if r < 0.4:
            case['stop'] = {'at': rng.choice(['task', 'begin', 'end', 'end', 'late', 'late']), 'pipe': rng.randrange(n),
                            'steps': rng.choice([0, 1, 2, 3, 5])}
            # make a skippable pipeline with items follow, so that a lost stop shows
            for j in range(case['stop']['pipe'] + 1, n - 1):
                pipes[j][2] = True
        elif r < 0.6:
            case['fail_in'] = rng.randrange(n)
            if pipes[case['fail_in']][0] < 2:
                pipes[case['fail_in']][0] = rng.choice([2, 3])     # work remains when the task raises
        case['via'] = 'run_sync' if ix % 2 else 'run'
        case['task_kind'] = rng.choice(['gen', 'gen', 'task', 'done-future'])
        res = series_case(ctx, case)
        if ix < 1:
            ctx.sample(dict(case, begins=res['begins'], exit=res['exit']))


# ------------------------------------------------------------------ entry points
def stop_with_item_queued(res):
    """Was stop() called in a state with an item in the queue and at least one item inside a task?"""
    for ix, a in enumerate(res['actions']):
        if a == 'S' and ix > 0:
            f = res['steps'][ix - 1].split(';')[1].split(',')
            return f[4] != '-' and 'T' in res['steps'][ix - 1].split(';')[-1]
    return False


def load_corpus(ctx):
    out = []
    for p in sorted(glob.glob(os.path.join(ctx.verif, 'harness', 'corpus', 'C13', '*.json'))):
        with open(p) as f:
            out.append(unjson(json.load(f)))
    return out


def replay(ctx, case, kind=None, where=None):
    case = case.get('case', case)
    if case.get('stream') == 'free':
        res = run_free(case)
        oracle(ctx, case, res)
        return
    if case.get('stream') == 'app':
        app_case(ctx, case)
        return
    if case.get('stream') == 'series':
        series_case(ctx, case)
        return
    base = {kk: case[kk] for kk in ('n', 'k', 'conc', 'src_fail', 'url_source', 'task_kinds') if kk in case}
    import random
    res = run_real(case['n'], case['k'], case['conc'], case['src_fail'], list(case['actions']),
                   rng=random.Random(case.get('then_seed', 0)), cont=case.get('then'),
                   cont_inj={'unpause': False} if case.get('no_resume') else None,
                   url_source=case.get('url_source'), task_kinds=case.get('task_kinds'))
    if case.get('then_restart') is not None and res['main'] == 'r' and not any(a[0] == 'R' for a in res['actions']):
        # run 1 is complete: process() again on the same object, then run on
        res = run_real(case['n'], case['k'], case['conc'], case['src_fail'],
                       list(res['actions']) + ['R%s' % case['then_restart']],
                       rng=random.Random(case.get('then_seed', 0) + 1), cont=case.get('then'),
                       url_source=case.get('url_source'))
    check_cases(ctx, [(base, res)], tags=['replay'])


def run(ctx):
    thorough = ctx.tier == 'thorough'
    for case in load_corpus(ctx):
        replay(ctx, case)
    rng = ctx.rng
    batch = gen_random(ctx, rng, ctx.scale(4000, 30000))
    check_cases(ctx, batch)
    for c, r in batch[:3]:
        ctx.sample(dict(c, actions=r['actions'], end=r['main']))
    # pause scenarios (concurrency 0 with items in flight; failures while paused; resume / stop / neither)
    pf = gen_pause_failure(ctx, ctx.subrng('pause'), ctx.scale(800, 8000))
    check_cases(ctx, pf, tags=['pause-scenario'])
    for v in PAUSE_VARIANTS:
        ctx.tag('pause:' + v, len([1 for c, r in pf if r.get('variant') == v]))
    def failed_while_paused(acts):
        paused = False
        for a in acts:
            if a[0] == 'C':
                paused = a == 'C0'
            elif a == 'S':
                paused = False
            elif a[0] == 'X' and paused:
                return True
        return False
    ctx.tag('pause:task-raised-while-paused', len([1 for c, r in pf if failed_while_paused(r['actions'])]))
    ctx.tag('pause:ended-paused-without-resume',
            len([1 for c, r in pf if r['main'] == 'p' and not r['enabled']]))
    # tasks in every awaitable style (generator coroutine, async def, Future-returning plain function)
    tk = gen_task_kinds(ctx, ctx.subrng('task-kinds'), ctx.scale(600, 6000))
    check_cases(ctx, tk, tags=['task-kinds'])
    for kd in TASK_KINDS:
        ctx.tag('task-kinds:' + kd, len([1 for c, r in tk if kd in c['task_kinds']]))
    # a second / third process() on the same Pipeline object
    sr = gen_second_run(ctx, ctx.subrng('second-run'), ctx.scale(600, 6000))
    check_cases(ctx, sr, tags=['second-run'])
    for v in sorted(set(RERUN_VARIANTS)):
        ctx.tag('second-run:' + v, len([1 for c, r in sr if r.get('variant') == v]))
    ctx.tag('second-run:runs>=2', len([1 for c, r in sr if any(a[0] == 'R' for a in r['actions'])]))
    ctx.tag('second-run:restart-paused', len([1 for c, r in sr if any(a == 'R0' or a.startswith('R0+') for a in r['actions'])]))
    ctx.tag('second-run:source-refilled', len([1 for c, r in sr if any(a[0] == 'R' and '+' in a for a in r['actions'])]))
    ctx.tag('second-run:after-cancelled-producer',
            len([1 for c, r in sr if any(a[0] == 'R' for a in r['actions']) and 'S' in r['actions']]))
    # the REAL URLItemSource as the pipeline's source (check_out failures must surface)
    us = gen_url_source(ctx, ctx.subrng('url-source'), ctx.scale(500, 5000))
    check_cases(ctx, us, tags=['url-source'])
    ctx.tag('url-source:check_out-raised', len([1 for c, r in us if r['src_raised']]))
    # the whole application: Builder-built pipeline series, Application.run(), stop by request hook / --quota,
    # URLTable.check_out failures
    app_stream(ctx, ctx.subrng('app'), ctx.scale(40, 400))
    # Application.run over a scripted PipelineSeries built from a list / tuple / generator / iterator, read while run
    series_stream(ctx, ctx.subrng('series'), ctx.scale(400, 4000))
    # stop / source failure with every worker busy (concurrency up to 4) and an item queued; staggered finishes
    sb = gen_stop_busy(ctx, ctx.subrng('stop-busy'), ctx.scale(600, 6000))
    check_cases(ctx, sb, tags=['stop-busy-scenario'])
    for v in sorted(set(STOP_VARIANTS)):
        ctx.tag('stop-busy:' + v, len([1 for c, r in sb if r.get('variant') == v]))
    ctx.tag('stop-busy:stop-with-item-queued-and-all-busy',
            len([1 for c, r in sb if stop_with_item_queued(r)]))
    free_run(ctx, ctx.subrng('free'), ctx.scale(2000, 15000))
    # exhaustive small scopes: every schedule, one injection at every position
    if not thorough:
        scopes = [(1, 1, 1), (2, 1, 1), (1, 2, 2), (2, 1, 2)]
        injections = [None, 'S', 'C0+X']
    else:
        scopes = [(0, 1, 1), (1, 1, 0), (1, 1, 1), (1, 2, 1), (2, 1, 1), (1, 1, 2), (2, 1, 2), (1, 2, 2), (3, 1, 1),
                  (2, 2, 1), (3, 1, 2), (2, 2, 2)]
        injections = [None, 'S', 'C0', 'C2', 'X', 'C0+X']
    report = []
    total = 0
    for (n, k, c) in scopes:
        for inject in injections:
            for sf in ([False, True] if (thorough and inject is None) else [False]):
                res, whole = enumerate_scope(ctx, n, k, c, sf, inject, ctx.scale(900, 1000))
                total += len(res)
                report.append(['%d items x %d tasks, concurrency %d, inject %s%s' % (n, k, c, inject, ', source raises' if sf else ''),
                               len(res), 'complete' if whole else 'capped'])
                check_cases(ctx, res, tags=['enum'])
    ctx.exhaustive = all(r[2] == 'complete' for r in report if r[0].startswith(('0 items', '1 items x 1 tasks, concurrency 1',
                                                                                 '2 items x 1 tasks, concurrency 1')))
    ctx.note('enumeration', {'runs': total, 'scopes': report,
                             'exhaustive_means': 'every schedule with the injection at every position was run for the scopes marked complete'})


def search(ctx):
    rng = ctx.subrng('search')
    check_cases(ctx, gen_random(ctx, rng, ctx.scale(300, 1000)))
    check_cases(ctx, gen_pause_failure(ctx, rng, ctx.scale(100, 300)), tags=['pause-scenario'])
    check_cases(ctx, gen_stop_busy(ctx, rng, ctx.scale(100, 300)), tags=['stop-busy-scenario'])
    check_cases(ctx, gen_url_source(ctx, rng, ctx.scale(100, 300)), tags=['url-source'])
    check_cases(ctx, gen_second_run(ctx, rng, ctx.scale(100, 300)), tags=['second-run'])
    check_cases(ctx, gen_task_kinds(ctx, rng, ctx.scale(100, 300)), tags=['task-kinds'])
    app_stream(ctx, rng, ctx.scale(2, 5))
    series_stream(ctx, rng, ctx.scale(20, 50))
    free_run(ctx, rng, ctx.scale(100, 300))
