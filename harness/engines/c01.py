"""C01 — Recursive crawl fetches every in-scope reachable URL exactly once; ends with
every discovered URL in a final state.

Tie: trace acceptance.  The REAL application (`Builder(args).build()`, real
SQLite table, real HTML scraper, real HTTP client and connection pool) runs
in-process on the deterministic loop against an in-memory server serving a
generated site; every URL-table call and every request is logged; the Lean
model `Wpull.Crawl` (driver `crawl accept`) must accept the logged event
sequence as one of its runs — instantiated with reference semantics of a visit
written from the option meanings — with the same hand-outs, the same inserted
URLs and the same final table.
Oracle (independent of the model): no URL requested twice, nothing left
pending / in progress, requested set = least fixed point of the site under the
scope options, run terminates.
"""
import json
import os
import glob

import compat  # noqa: F401
import crawl_common as cc
from runner import Infra, unjson

RULE = ('sites: 2-9 pages + images on one host (cycles, diamonds, self links, duplicate and re-spelled links - case, '
        'default port, dot segments, fragment -, same-host redirects 301/302/303/307, 404s, an off-site link), '
        'options from {-l 1..3 | unlimited} x {-p} x {accept/reject regex}, 1..4 workers, seeded answer order; '
        'one case = one end-to-end crawl; non-trivial = at least 2 requests; distinct by (site, options, workers, seed)')
TRUSTED = ['harness/appsim.py + sched.py: whole application on a deterministic loop, in-memory transports',
           'reference semantics of a visit (crawl_common.RefCrawl) written from the option documentation',
           'HTML link extraction is the real html5lib path on simple generated HTML; the model takes the link list as given',
           'URL normalisation of links uses the real URLInfo (tied to its own model by C10)']
ASSUMPTIONS = ['`--concurrent` is parsed but never applied in this tree; N workers are set through PipelineSeries.concurrency '
               '(what a plugin does)', 'no fetch fails (404 counts as a successful answer without document)',
               'plugin hooks disconnected; robots off (C20 covers robots)']
UNPROVED = []


class _Res:
    pass


def _work(args):
    """Runs in a worker process: one real crawl + its trace turned into a model request."""
    import multiprocessing as _mp
    if _mp.current_process().name != 'MainProcess':
        cc.appsim.quiet_stderr()
    desc, opts, conc, seed = args
    site = cc.Site.from_desc(desc)
    res, events = cc.run_real(site, opts, seed, conc)
    ids = cc.Ids()
    ref = cc.RefCrawl(site, opts)
    start = ['http://%s%s' % (cc.HOST, site.start)]
    line, evs, notes = cc.accept_line(conc, start, events, ids, ref)
    return {'line': line, 'rows': cc.rows_canon(res.rows, ids), 'rows_raw': res.rows, 'hung': res.hung,
            'exit_code': res.exit_code, 'error': res.error, 'requests': res.request_urls(),
            'nevents': len(events)}


def judge(ctx, r, reply, case, site, opts, conc):
    ref = cc.RefCrawl(site, opts)
    start = 'http://%s%s' % (cc.HOST, site.start)
    nreq = len(r['requests'])
    tags = ['conc=%d' % conc, 'level=%s' % opts['level'], 'no_parent=%s' % opts.get('no_parent'), 'requests=%s' % ('0-1' if nreq < 2 else '2-5' if nreq < 6 else '6+')]
    if any(p['kind'] == 'redirect' for p in site.pages.values()):
        tags.append('has-redirect')
    ctx.case(json.dumps(case, sort_keys=True), nontrivial=nreq >= 2, tags=tags)
    # ---- correspondence
    if not reply.startswith('ok '):
        ctx.disagree('trace-acceptance', case, reply, 'real trace (%d table/request events)' % r['nevents'])
    elif reply.split(' ')[1] != r['rows']:
        ctx.disagree('final-table', case, reply.split(' ')[1], r['rows'])
    elif reply.split(' ')[3] != 'T':
        ctx.disagree('quiescence', case, 'model not quiescent at end of trace', 'run ended')
    # ---- oracle on the real run
    if r['hung']:
        ctx.fail('hang', 'crawl', case, 'the event loop ran dry before the application finished')
        return
    if r['error'] or r['exit_code'] not in (0, 8):
        ctx.fail('crash', 'crawl', case, 'exit=%s error=%s' % (r['exit_code'], r['error']))
        return
    bad = [x for x in r['rows_raw'] if x['status'] not in ('done', 'skipped')]
    if bad:
        ctx.fail('not-final', 'table', case, 'rows left %s' % bad[:3])
    normed = [cc.norm(u, '') or u for u in r['requests']]
    redirect_targets = {cc.norm('http://%s%s' % (cc.HOST, p), d['location']) for p, d in site.pages.items()
                        if d['kind'] == 'redirect'}
    by_resource = {}
    for u in r['requests']:
        by_resource.setdefault(cc.resource_key(u), []).append(u)
    for k, us in by_resource.items():
        if len(set(us)) > 1:
            ctx.fail('dup-request', 'spelling', case, 'one resource requested under %d spellings: %s' % (len(set(us)), sorted(set(us))))
    seen = set()
    for u in normed:
        if u in seen:
            if u in redirect_targets:
                ctx.fail('dup-request', 'redirect-target', case, '%s requested twice (redirect target that is also linked / redirected to twice)' % u)
            else:
                ctx.fail('dup-request', 'plain', case, '%s requested twice' % u)
        seen.add(u)
    # ---- what closure_of_stored_records says, on the real table: a row is requested iff its STORED record is in scope
    # (redirect-free sites only: a redirect hop is requested under the record of the redirecting row)
    if not redirect_targets and r['exit_code'] in (0, 8):
        for x in r['rows_raw']:
            want = ref.accept(x['url'], x['level'], x['inline_level'], 0)
            got = x['url'] in seen
            if want != got:
                ctx.fail('stored-record-verdict', 'table', case,
                         '%s stored as (level %s, inline %s): reference verdict for that record is %s but it was %s'
                         % (x['url'], x['level'], x['inline_level'], 'accept' if want else 'reject', 'requested' if got else 'not requested'))
                break
    expect, _ = ref.reach_any(start)
    missing = set(expect) - seen
    extra = seen - set(expect)
    if missing:
        why = ref.explain_missing(missing, r['rows_raw'], start)
        for where in sorted(set(why.values())):
            us = sorted(u for u in missing if why[u] == where)
            ctx.fail('missing-url', where, case, 'in scope but never requested (%s): %s' % (
                {'plain': 'its stored record is in scope or it was never stored although its parents were handled with their best record',
                 'depth-race': 'stored, or its parent stored, with the depth of a longer path: first record wins',
                 'requisite-shadowed': 'stored, or its parent stored, as an ordinary link although it is also a page requisite: first record wins',
                 'type-shadowed': 'its parent is an HTML page stored under a media / css / javascript link-type hint (it is also referenced from CSS url(), <script src> or a stylesheet link): fetched, never scraped; first record wins'}[where], us))
    if extra:
        ctx.fail('extra-request', 'crawl', case, 'requested although not reachable in scope: %s' % sorted(extra))


def batch(ctx, cases):
    """cases: list of (site, opts, conc, seed); the real crawls run in worker processes"""
    import concurrent.futures as cf
    import multiprocessing as mp
    args = [(site.describe(), opts, conc, seed) for site, opts, conc, seed in cases]
    if len(args) <= 2:
        results = [_work(a) for a in args]
    else:
        with cf.ProcessPoolExecutor(max_workers=min(ctx.jobs, len(args)), mp_context=mp.get_context('fork')) as ex:
            results = list(ex.map(_work, args, chunksize=2))
    replies = ctx.model.ask([r['line'] for r in results])
    for (site, opts, conc, seed), r, rep in zip(cases, results, replies):
        case = {'site': site.describe(), 'opts': opts, 'conc': conc, 'seed': seed}
        judge(ctx, r, rep, case, site, opts, conc)
    if cases:
        site, opts, conc, seed = cases[0]
        ctx.sample({'site': site.describe(), 'opts': opts, 'workers': conc, 'seed': seed, 'requests': results[0]['requests']})


def replay(ctx, case, kind=None, where=None):
    site = cc.Site.from_desc(case['site'])
    batch(ctx, [(site, case['opts'], case['conc'], case['seed'])])


def load_corpus(ctx):
    out = []
    for p in sorted(glob.glob(os.path.join(ctx.verif, 'harness', 'corpus', 'C01', '*.json'))):
        with open(p) as f:
            out.append(unjson(json.load(f)))
    return out


def gen_cases(rng, n):
    cases = []
    for i in range(n):
        opts = cc.gen_options(rng)
        if opts.get('reject_regex') and rng.random() < 0.5:
            # a script's accept_url hook that keeps (some of) what the reject pattern refuses
            opts['plugin_accept'] = rng.choice([opts['reject_regex'], 'p[12]', '/d/p'])
        site = cc.gen_site(rng, start_deep=opts['no_parent'])
        chain = cc.longest_chain(site)
        if chain and rng.random() < 0.5:
            opts['max_redirect'] = chain        # the longest chain is exactly as long as the limit allows: no fetch fails
        conc = rng.choice([1, 1, 2, 3, 4])
        cases.append((site, opts, conc, rng.randrange(1 << 30)))
    return cases


def run(ctx):
    for case in load_corpus(ctx):
        replay(ctx, case)
    rng = ctx.rng
    n = ctx.scale(150, 3000)
    cases = gen_cases(rng, n)
    # the same site under several schedules / worker counts: the requested set must not depend on them
    for site, opts, conc, seed in cases[: max(3, n // 10)]:
        for c2 in (1, 2, 4):
            cases.append((site, opts, c2, seed + c2))
    batch(ctx, cases)


def search(ctx):
    rng = ctx.subrng('search')
    batch(ctx, gen_cases(rng, ctx.scale(15, 60)))
