"""C20 — With robots enabled, disallowed URLs are never requested.

Streams:
  match   function level: the matcher of the bundled robots parser as wpull calls it
          (RobotsTxtPool.load_robots_txt + can_fetch) vs the Lean matcher `Wpull.Robots.isAllowed`
          on the rule sets the real parser produced (tokenising is the third-party parser's job).
  gate    trace acceptance: end-to-end crawls of the REAL application with robots on; the observed
          sequence  can_fetch starts / robots.txt fetches / pool loads / page requests  must be a
          run of the Lean gate machine (`robots gate`).
  oracle  on the server log of the same crawls, with an independent matcher written from the
          documented semantics: robots.txt first per origin, no disallowed path requested, no
          robots.txt fetch started after one was loaded, 5xx postpones, nofollow drops plain links.
"""
import glob
import json
import os
import re
import urllib.parse

import compat  # noqa: F401
import appsim
import crawl_common as cc
import hostile
from appsim import Page, html
from runner import enc, unjson

RULE = ('match: generated robots.txt files (several agent groups incl. the crawler and *, allow/disallow mixes, '
        'wildcards * and $, blank rules, comments, odd case, percent escapes) x URLs x user agents; '
        'gate/oracle: end-to-end crawls over 1-2 origins (ports) with robots.txt = 200 small / 200 with the deciding '
        'rule beyond 4 KiB / 404 / 5xx / redirect, pages with meta nofollow, 1-3 workers; non-trivial = rule file has '
        'a rule that matches the URL (match) / a robots.txt was fetched and at least one page decided (gate)')
TRUSTED = ['tokenising of robots.txt into rule sets is the bundled third-party parser (logged, not modelled)',
           'nofollow: html5lib and ElementWalker.iter_links_element are parameters (what they yield per element is logged)',
           'percent-decoding of rule paths and of the target (`_unquote_path`) is the bundled parser\'s (logged)',
           'str.lower of agent names (Python)']
ASSUMPTIONS = ['"disallows" means what the bundled parser documents: first group whose agent matches (specific before *), '
               'first matching rule wins, GYM2008 wildcards',
               'redirect hops are outside this check\'s page-request oracle only where listed as a finding']
UNPROVED = []

UA_DEFAULT = None


# ------------------------------------------------------------------ match stream
def parsed_rulesets(parser):
    rs = getattr(parser, '_RobotExclusionRulesParser__rulesets')
    out = []
    for r in rs:
        out.append(([n.lower() for n in r.robot_names], [(t == r.ALLOW, p) for t, p in r.rules]))
    return out


def enc_rulesets(rs):
    if not rs:
        return '~'
    parts = []
    for names, rules in rs:
        n = ','.join(enc(x) for x in names)
        r = ','.join(('A=' if a else 'D=') + enc(p) for a, p in rules) if rules else '_'
        parts.append(n + ':' + r)
    return '|'.join(parts)


def target_of(url):
    import wpull.thirdparty.robotexclusionrulesparser as rerp
    _, _, path, parameters, query, fragment = rerp.urllib_urlparse(url)
    t = rerp.urllib_urlunparse(('', '', path, parameters, query, fragment))
    return rerp._unquote_path(t)


AGENTS = ['Wpull/2.0 (gzip)', 'wpull', 'Mozilla/5.0 (compatible; FooBot/1.0)', 'foobot', '', 'XWPULLX', 'Other']


def gen_path(rng):
    segs = [rng.choice(['a', 'b', 'private', 'p', 'x.html', 'dir', 'img.png', '%7Ejoe', '~joe', 'A', 'q?x=1', 'a%2Fb', ''])
            for _ in range(rng.randint(0, 3))]
    return '/' + '/'.join(segs)


def gen_rule_path(rng):
    r = rng.random()
    if r < 0.1:
        return ''
    p = gen_path(rng)
    if r < 0.3:
        p = p + rng.choice(['*', '$', '*$', '*.png$', '*/x', '**'])
    elif r < 0.4:
        p = p.replace('/', '/*', 1)
    elif r < 0.45:
        p = '*' + p
    return p


# comments as webmasters write them, seen as the parser sees them (the file is read as ISO-8859-1): UTF-8 Cyrillic and
# Nordic text whose last byte is 0x85, a cp1252 ellipsis, CJK text with 0x85 in the middle, a no-break space, and
# the page-break / separator controls some editors leave at the start or the end of a line
ODD_COMMENTS = ['# \xd0\xb7\xd0\xb0\xd0\xbf\xd1\x80\xd0\xb5\xd1\x82 \xd0\xbd\xd0\xb0 \xd0\xb2\xd1\x81\xd0\xb5\xd1\x85', '# \xc3\x85', '# and so on\x85',
                '# \xe5\x85\xa8\xe9\x83\xa8', '# caf\xe9\xa0', '# a\x0bb', '# a\x0cb', '# a\x1cb\x1d\x1e', '#\x85', '# x \x85 ']
ODD_EDGES = ['\x0c', '\x0b', '\x1c', '\x1d', '\x1e', '\x85', '\xa0', '\t']


def gen_robots(rng, ua_names=('wpull', 'foobot', '*'), odd=None):
    lines = []
    odd = rng.random() < 0.3 if odd is None else odd
    for g in range(rng.randint(0, 3)):
        for _ in range(rng.randint(1, 2)):
            name = rng.choice(list(ua_names) + ['Googlebot', 'WPULL', 'bot'])
            lines.append(rng.choice(['User-agent', 'user-agent', 'User-Agent', 'Useragent']) + ': ' + name)
        if odd and rng.random() < 0.5:
            lines.append(rng.choice(ODD_COMMENTS))        # a comment line between the agent line and its rules
        for _ in range(rng.randint(0, 4)):
            kind = rng.choice(['Disallow', 'Disallow', 'Allow', 'disallow', 'Crawl-delay', 'Sitemap', 'Bogus'])
            val = gen_rule_path(rng) if kind.lower() in ('disallow', 'allow') else rng.choice(['1', 'http://a.test/s.xml', 'x'])
            cm = rng.choice(['', '', '', ' # note'])
            if odd and rng.random() < 0.4:
                cm = ' ' + rng.choice(ODD_COMMENTS)
            line = '%s: %s%s' % (kind, val, cm)
            if odd and rng.random() < 0.3:
                line = rng.choice(ODD_EDGES) + line if rng.random() < 0.5 else line + rng.choice(ODD_EDGES)
            lines.append(line)
            if odd and rng.random() < 0.3:
                lines.append(rng.choice(ODD_COMMENTS))    # ... and between two rules
        if rng.random() < 0.7:
            lines.append('')
        if rng.random() < 0.15:
            lines.append('# comment')
    nl = rng.choice(['\n', '\r\n', '\r'])
    return nl.join(lines) + nl


def load_as_fetched(checker, url_info, data):
    """What fetch_robots_txt does with a 200 answer: the body bytes go through RobotsTxtChecker._read_content."""
    from wpull.protocol.http.request import Response
    from wpull.body import Body
    response = Response(200, 'OK')
    response.body = Body()
    response.body.write(data)
    response.body.seek(0)
    try:
        checker._read_content(response, url_info)
    finally:
        response.body.close()


PARSE_PIECES = ['User-agent', 'user-agent', 'USERAGENT', 'Disallow', 'disallow', 'Allow', 'ALLOW', 'Sitemap', 'Crawl-delay', 'Host', 'Noindex', 'x',
                ':', ':', ':', ' ', ' ', '\t', '#', '#', '*', 'wpull', 'foobot', '/', '/p', '/private', '/a%2Fb', '%7e', '$', 'http://a.test/s.xml', '1',
                '\x0b', '\x0c', '\x1c', '\x1e', '\x1f', '\x85', '\xa0', '\x00', '\x7f', '\x01', '\xe9', '\xef\xbb\xbf', 'Disallow:/x', 'User-agent:*',
                'Allow: /y', 'xDisallow: /z', 'Disallow : /w', 'allow:disallow:/v', 'User-agent: a # b']
PARSE_ENDS = ['\n', '\n', '\r\n', '\r', '\n\n', '\r\r\n', '\n\r']


def gen_parse_text(rng):
    r = rng.random()
    if r < 0.35:
        return gen_robots(rng, odd=rng.random() < 0.6)
    if r < 0.5:
        return hostile.robots_doc(rng).decode('latin-1')
    lines = []
    for _ in range(rng.randint(0, 8)):
        lines.append(''.join(rng.choice(PARSE_PIECES) for _ in range(rng.randint(0, 6))))
    return ''.join(l + rng.choice(PARSE_ENDS) for l in lines) + rng.choice(['', 'Disallow: /last', '#'])


def real_parse(data):
    from wpull.robotstxt import RobotsTxtPool
    from wpull.url import URLInfo
    from wpull.protocol.http.robots import RobotsTxtChecker
    pool = RobotsTxtPool()
    base = URLInfo.parse('http://a.test/')
    load_as_fetched(RobotsTxtChecker(web_client=None, robots_txt_pool=pool), base, data)
    rs = getattr(pool._parsers[pool.url_info_key(base)], '_RobotExclusionRulesParser__rulesets')
    return [(list(r.robot_names), [(t == r.ALLOW, p) for t, p in r.rules]) for r in rs]


def dec_model_rulesets(rep):
    import wpull.thirdparty.robotexclusionrulesparser as rerp
    if rep == '~':
        return []
    out = []
    for part in rep.split('|'):
        ns, rs = part.split(':')
        names = [dec_str(x) for x in ns.split(',')]
        rules = [] if rs == '_' else [(x[0] == 'A', rerp._unquote_path(dec_str(x[2:]))) for x in rs.split(',')]
        out.append((names, rules))
    return out


def dec_str(x):
    return '' if x == '-' else ''.join(chr(int(h, 16)) for h in x.split('.'))


def stream_parse(ctx, n, texts=None):
    """The tokenizer: bytes of a robots.txt -> the rule sets the matcher consults, model against the real parser
    (the model keeps paths as written; the module's own _unquote_path is applied to its answer)."""
    rng = ctx.subrng('parse')
    texts = texts if texts is not None else [gen_parse_text(rng) for _ in range(n)]
    replies = ctx.model.ask(['robots parse %s' % enc(t) for t in texts])
    for t, rep in zip(texts, replies):
        real = real_parse(t.encode('latin-1', 'replace'))
        ctx.case(('parse', t), nontrivial=bool(real), tags=['parse:sets=%d' % min(len(real), 3)])
        try:
            model = dec_model_rulesets(rep)
        except Exception:      # noqa
            model = rep
        if model != real:
            ctx.disagree('parse', {'stream': 'parse', 'robots': t}, repr(model), repr(real))
    if texts:
        ctx.sample({'stream': 'parse', 'robots': texts[0]})


def stream_match(ctx, n):
    from wpull.robotstxt import RobotsTxtPool
    from wpull.url import URLInfo
    from wpull.protocol.http.robots import RobotsTxtChecker
    from wpull.protocol.http.request import Request
    rng = ctx.rng
    reqs, meta = [], []
    for _ in range(n):
        text = gen_robots(rng)
        pool = RobotsTxtPool()
        base = URLInfo.parse('http://a.test/')
        checker = RobotsTxtChecker(web_client=None, robots_txt_pool=pool)
        # as the crawler loads it: the BYTES of the response body, through the checker
        bom = rng.choice(['', '', '\xef\xbb\xbf'])
        load_as_fetched(checker, base, (bom + text).encode('latin-1', 'replace'))
        parser = pool._parsers[pool.url_info_key(base)]
        rs = parsed_rulesets(parser)
        if bom:
            # a byte order mark in front of the file changes nothing (the first group is still a group)
            pool2 = RobotsTxtPool()
            load_as_fetched(RobotsTxtChecker(web_client=None, robots_txt_pool=pool2), base, text.encode('latin-1', 'replace'))
            rs2 = parsed_rulesets(pool2._parsers[pool2.url_info_key(base)])
            if rs2 != rs:
                ctx.fail('bom-changes-rules', 'parser', {'stream': 'match', 'robots': bom + text, 'url': 'http://a.test/', 'ua': ''},
                         'with a UTF-8 byte order mark the file parses to %r, without it to %r' % (rs, rs2))
        if '#' in text:
            # what a comment says changes nothing: the same file with the text of every comment taken out
            bare = re.sub(r'#[^\r\n]*', '#', text)
            pool3 = RobotsTxtPool()
            load_as_fetched(RobotsTxtChecker(web_client=None, robots_txt_pool=pool3), base, bare.encode('latin-1', 'replace'))
            rs3 = parsed_rulesets(pool3._parsers[pool3.url_info_key(base)])
            if rs3 != rs:
                ctx.fail('comment-changes-rules', 'parser', {'stream': 'match', 'robots': bom + text, 'url': 'http://a.test/', 'ua': ''},
                         'the file parses to %r, with its comments emptied to %r' % (rs, rs3))
        for _ in range(4):
            url = 'http://a.test' + gen_path(rng)
            ua = rng.choice(AGENTS)
            try:
                ui = URLInfo.parse(url)
            except ValueError:
                continue
            req = Request(ui.url)
            req.fields['User-Agent'] = ua
            real = checker.can_fetch_pool(req)
            t = target_of(ui.url)
            reqs.append('robots match %s %s %s' % (enc(ua.lower()), enc(t), enc_rulesets(rs)))
            meta.append((text, ui.url, ua, real, rs, t))
    replies = ctx.model.ask(reqs)
    for (text, url, ua, real, rs, t), rep in zip(meta, replies):
        hit = any(any(True for a, p in rules) for names, rules in rs)
        ctx.case(('match', text, url, ua), nontrivial=hit, tags=['match:' + ('allowed' if real else 'disallowed'),
                                                                  'match:groups=%d' % len(rs)])
        r = 'T' if real else 'F'
        if r != rep:
            ctx.disagree('match', {'robots': text, 'url': url, 'ua': ua}, rep, r)
    if meta:
        ctx.sample({'stream': 'match', 'robots': meta[0][0], 'url': meta[0][1], 'ua': meta[0][2], 'allowed': meta[0][3]})


# ------------------------------------------------------------------ independent matcher (oracle)
def ref_parse(text):
    """Canonical-subset tokenizer: groups of User-agent lines followed by Allow/Disallow lines."""
    groups, cur, last_ua = [], None, False
    if text.startswith('\xef\xbb\xbf'):
        text = text[3:]
    for line in re.split(r'\r\n|\r|\n', text):
        if line.strip().startswith('#'):
            continue          # a line that holds only a comment is no record boundary (the 1994 text says so)
        line = line.split('#', 1)[0].strip()
        if not line:
            cur, last_ua = None, False
            continue
        m = re.match(r'(?i)(user-?agent|allow|disallow)\s*:\s*(.*)$', line)
        if not m:
            if re.match(r'(?i)(sitemap|crawl-delay)\s*:', line):
                last_ua = False
            continue
        field, val = m.group(1).lower().replace('-', ''), m.group(2).strip()
        if field == 'useragent':
            if not last_ua or cur is None:
                cur = {'names': [], 'rules': []}
                groups.append(cur)
            if val:
                cur['names'].append(val.lower())
            last_ua = True
        else:
            last_ua = False
            if cur is not None:
                cur['rules'].append((field == 'allow', urllib.parse.unquote(val.replace('%2F', '%252F').replace('%2f', '%252f'))))
    groups = [g for g in groups if g['names'] and g['rules']]
    return [g for g in groups if '*' not in g['names']] + [g for g in groups if '*' in g['names']]


def ref_allowed(text, ua, path_query):
    target = urllib.parse.unquote(path_query.replace('%2F', '%252F').replace('%2f', '%252f'))
    for g in ref_parse(text):
        if any(n == '*' or n in ua.lower() for n in g['names']):
            for allow, p in g['rules']:
                if '*' in p or p.endswith('$'):
                    anchored = p.endswith('$')
                    if anchored:
                        p = p[:-1]
                    rx = '.*'.join(re.escape(x) for x in p.split('*')) + ('$' if anchored else '')
                    if re.match(rx, target, re.S):
                        return allow
                elif target.startswith(p):
                    return (not allow) if p == '' else allow
            return True
    return True


# ------------------------------------------------------------------ end-to-end
class RSite:
    """Two origins (a.test:80, a.test:81), each with a robots.txt behaviour and pages."""

    def __init__(self):
        self.origins = {}    # host header -> {'robots': spec, 'pages': {path: {...}}}

    def to_server(self):
        out = {}
        for host, o in self.origins.items():
            pages = {}
            for path, p in o['pages'].items():
                if p['kind'] == 'html' and p.get('meta'):
                    # a page declaring nofollow; the declaration may come before or AFTER the links
                    meta = '<meta name="robots" content="%s">' % p['meta']
                    links = ''.join('<a href="%s">x</a>' % l for l in p['links'])
                    imgs = ''.join('<img src="%s">' % l for l in p.get('inline', []))
                    pos = p.get('meta_pos', 'head')
                    if pos == 'head':
                        doc = '<html><head>%s</head><body>%s%s</body></html>' % (meta, links, imgs)
                    elif pos == 'head-after-link':
                        doc = '<html><head><link rel="next" href="%s">%s</head><body>%s%s</body></html>' % (p['links'][0], meta, links, imgs)
                    else:
                        doc = '<html><head><title>t</title></head><body>%s%s%s</body></html>' % (links, imgs, meta)
                    pages[path] = Page(200, doc.encode(), headers=[('Refresh', '5; url=%s' % p['links'][0])] if p.get('refresh') else None)
                elif p['kind'] == 'html':
                    pages[path] = Page(200, html(p['links'], p.get('inline', [])))
                elif p['kind'] == 'redirect':
                    pages[path] = Page(302, b'', location=p['location'])
                else:
                    pages[path] = Page(200, b'data', ctype='text/plain')
            r = o['robots']
            if r['kind'] == 'ok':
                pages['/robots.txt'] = Page(200, r['text'].encode('latin-1'), ctype='text/plain')
                if r.get('split'):
                    pages['/robots.txt'].split = r['split']      # the body arrives after the header (two reads at the client)
            elif r['kind'] == 'missing':
                pages['/robots.txt'] = Page(404, b'no', ctype='text/plain')
            elif r['kind'] == 'forbidden':
                pages['/robots.txt'] = Page(403, b'no', ctype='text/plain')
            elif r['kind'] == 'error':
                pages['/robots.txt'] = Page(503, b'busy', ctype='text/plain')
            elif r['kind'] == 'dropped-once':
                # the first request is answered by closing the connection without a byte (a network error: the URL is
                # postponed); afterwards the file is served
                state = {'n': 0}
                good = Page(200, r['text'].encode('latin-1'), ctype='text/plain')

                def flaky(entry, state=state, good=good):
                    state['n'] += 1
                    return Page(raw=b'', close=True) if state['n'] == 1 else good
                pages['/robots.txt'] = flaky
            elif r['kind'] == 'dropped-always':
                # every request for the file ends in a network error (closed without a byte, or garbage instead of a
                # header): the origin's URLs are postponed until their tries are used up, and the crawl ends
                pages['/robots.txt'] = Page(raw=b'' if r.get('how', 'close') == 'close' else b'\x00\x01garbage\r\n\r\n', close=True)
            elif r['kind'] == 'redirect':
                moved = (b'<html><head><title>301 Moved Permanently</title></head><body><h1>Moved Permanently</h1>'
                         b'<p>The document has moved <a href="/r2.txt">here</a>.</p>' + b'<!-- pad -->' * 40 + b'</body></html>')
                hops = r.get('hops', 1)
                chain = ['/robots.txt'] + ['/r%d.txt' % (i + 2) for i in range(hops)]
                if r.get('via'):
                    # the last hop is a file on ANOTHER origin (not that origin's own /robots.txt)
                    chain[-1] = origin_base(r['via']) + '/static/robots-of-%d.txt' % (abs(hash(host)) % 100)
                    out.setdefault('__foreign__', []).append((r['via'], '/static/robots-of-%d.txt' % (abs(hash(host)) % 100), r['text']))
                for a, b in zip(chain, chain[1:]):
                    pages[a] = Page(301, moved if r.get('redirect_body', True) else b'', location=b)
                if not r.get('via'):
                    pages[chain[-1]] = Page(200, r['text'].encode('latin-1'), ctype='text/plain')
            out[host] = pages
        for via, path, text in out.pop('__foreign__', []):
            if via in out:
                out[via][path] = Page(200, text.encode('latin-1'), ctype='text/plain')
        return out

    def describe(self):
        return self.origins

    @classmethod
    def from_desc(cls, d):
        s = cls()
        s.origins = d
        return s


def origin_base(key):
    """origin key ('a.test', 'a.test:81', 'a.test#443' = the same host over https) -> URL prefix"""
    return 'https://' + key[:-4] if key.endswith('#443') else 'http://' + key


def request_origin(q):
    return q['host'] + '#443' if q.get('port') == 443 else q['host']


NF_PAGES = {'/nf': '/only-nf', '/docs/node.js/nf.html': '/only-nf2'}


def gen_rsite(rng, big=None):
    s = RSite()
    hosts = ['a.test'] + (['a.test:81'] if rng.random() < 0.5 else []) + (['a.test#443'] if rng.random() < 0.35 else [])
    names = ['/', '/a', '/b', '/private/x', '/private/y', '/pub/z', '/p.png', '/nf', '/only-nf', '/s?q=1', '/s?q=2', '/s', '/t;v=1',
             '/docs/node.js/nf.html', '/only-nf2']
    for h in hosts:
        kind = rng.choice(['ok', 'ok', 'ok', 'missing', 'error', 'redirect', 'redirect', 'forbidden', 'dropped-once', 'dropped-always'])
        text = ''
        if kind in ('ok', 'redirect', 'dropped-once'):
            groups = []
            if rng.random() < 0.4:
                groups.append('User-agent: wpull\n' + ''.join(rng.choice(['Disallow: /private\n', 'Disallow: /b\n', 'Allow: /private/x\nDisallow: /private\n', 'Disallow: /*.png$\n', 'Disallow:\n', 'Disallow: /s?q=1\n', 'Disallow: /*?q=\n', 'Allow: /s?q=2\nDisallow: /s\n', 'Disallow: /t;v\n'])
                                                               for _ in range(rng.randint(1, 2))))
            groups.append('User-agent: *\n' + ''.join(rng.choice(['Disallow: /private\n', 'Disallow: /pub\n', 'Disallow: /a\n', 'Allow: /\n', 'Disallow: /p*g\n', 'Disallow: /s?\n', 'Disallow: /*?q=2$\n', 'Disallow: /*;v=\n'])
                                                      for _ in range(rng.randint(1, 2))))
            if rng.random() < 0.3:
                groups.append('User-agent: otherbot\nDisallow: /\n')
            if rng.random() < 0.35:
                # rules for a crawler that is named in the MIDDLE of its agent string (Mozilla/5.0 (compatible; foobot/1.0; ...))
                groups.append('User-agent: foobot\n' + ''.join(rng.choice(['Disallow: /private\n', 'Disallow: /a\n', 'Disallow: /s\n', 'Disallow: /pub\n'])
                                                                for _ in range(rng.randint(1, 2))))
            rng.shuffle(groups)
            text = '\n'.join(groups)
            if rng.random() < 0.3:
                # the webmaster's notes, in the webmaster's language, inside the records
                ls = text.split('\n')
                for k in range(len(ls) - 1, -1, -1):
                    if ls[k] and rng.random() < 0.5:
                        if rng.random() < 0.5:
                            ls.insert(k + 1, rng.choice(ODD_COMMENTS))
                        else:
                            ls[k] += ' ' + rng.choice(ODD_COMMENTS)
                text = '\n'.join(ls)
            if rng.random() < 0.5:
                text = text.rstrip('\n')        # last rule without a line end
            if big if big is not None else rng.random() < 0.25:
                # the deciding rule comes after more than 4 KiB of other (irrelevant) rules
                # (sometimes more than 100 KiB: the size at which the parser's own download helper would stop reading)
                pad = ''.join('Disallow: /zz%04d\n' % i for i in range(rng.choice([300, 300, 300, 6500])))
                text = 'User-agent: *\n' + pad + 'Disallow: /private\nDisallow: /b\n'
        pages = {}
        for p in names:
            links = [q if rng.random() < 0.8 else '%s%s' % (origin_base(rng.choice(hosts)), q)
                     for q in rng.sample(names, rng.randint(1, 4)) if q not in ('/only-nf', '/only-nf2')]
            if p in NF_PAGES:
                # (the second nofollow page has a URL that looks like a script to a detector that goes by the name)
                pages[p] = {'kind': 'html', 'links': [NF_PAGES[p], '/a'], 'inline': ['/p.png'], 'meta': rng.choice(['nofollow', 'noindex, nofollow', 'NOFOLLOW']),
                            'meta_pos': rng.choice(['head', 'head-after-link', 'body-end']), 'refresh': rng.random() < 0.3}
            elif p in ('/p.png', '/only-nf', '/only-nf2'):
                pages[p] = {'kind': 'leaf'}
            elif p == '/pub/z' and rng.random() < 0.3:
                pages[p] = {'kind': 'redirect', 'location': rng.choice(['/private/x', '/a'])}
            else:
                pages[p] = {'kind': 'html', 'links': links + (['/nf'] if rng.random() < 0.3 else []) + (['/docs/node.js/nf.html'] if rng.random() < 0.3 else [])}
        if text and rng.random() < 0.2:
            text = '\xef\xbb\xbf' + text          # saved with a UTF-8 byte order mark
        elif text and rng.random() < 0.3:
            # bytes that are not UTF-8 (a Latin-1 comment): the file is still a robots.txt
            text = '# Acc\xe8s r\xe9serv\xe9 aux abonn\xe9s \xff\n' + text
        s.origins[h] = {'robots': {'kind': kind, 'text': text, 'hops': rng.choice([1, 1, 2, 3])}, 'pages': pages}
        others = [x for x in hosts if x != h]
        if kind == 'redirect' and others and rng.random() < 0.5:
            s.origins[h]['robots']['via'] = rng.choice(others)
    m = rng.choice([None, None, 1, 2, 3])        # --max-redirect: a robots.txt behind more hops than that counts as missing
    t = rng.choice([2, 2, 3, 7, 8])              # --tries: more failures than a host has connections (6) must not hang
    for o in s.origins.values():
        o['robots']['max_redirect'] = m
        o['robots']['tries'] = t
        o['robots']['how'] = rng.choice(['close', 'garbage'])
        o['robots']['split'] = rng.choice([None, 0.2, 0.5, 1.5])
    tg = rng.choice([None, None, None, ['--follow-tags', 'a,area,img'], ['--ignore-tags', 'meta,link'], ['--follow-tags', 'a,area,img,link,script']])
    for o in s.origins.values():
        o['robots']['tags'] = tg
    return s


def effective_rules(rb):
    """The rules in force for an origin: its robots.txt text, unless the file sits behind more redirects than the
    client follows (then it is treated as missing: everything allowed)."""
    if rb['kind'] == 'redirect' and rb.get('hops', 1) > (rb.get('max_redirect') or 20):
        return ''
    return rb['text']


def run_one(args):
    """Worker: one real crawl with robots on; returns observations."""
    import multiprocessing as _mp
    if _mp.current_process().name != 'MainProcess':
        appsim.quiet_stderr()
    desc, conc, seed, ua = args
    site = RSite.from_desc(desc)
    import wpull.protocol.http.robots as pr
    import wpull.robotstxt as rt
    import wpull.processor.web as pw
    obs = []          # merged observation sequence
    counter = {'n': 0}
    orig_can = pr.RobotsTxtChecker.can_fetch
    orig_fetch = pr.RobotsTxtChecker.fetch_robots_txt
    orig_load = rt.RobotsTxtPool.load_robots_txt
    orig_fetch_one = pw.WebProcessorSession._fetch_one
    import asyncio

    def okey(url_info):
        return '%s://%s' % (url_info.scheme, url_info.hostname_with_port)

    @asyncio.coroutine
    def can_fetch(self, request, file=None):
        counter['n'] += 1
        i = counter['n']
        request._verif_item = i
        obs.append({'ev': 'begin', 'item': i, 'url': request.url_info.url, 'origin': okey(request.url_info),
                    'ua': request.fields.get('User-agent', '')})
        self._verif_cur = getattr(self, '_verif_cur', [])
        try:
            r = yield from orig_can(self, request, file=file)
        except BaseException as e:
            obs.append({'ev': 'raise', 'item': i, 'exc': type(e).__name__})
            raise
        obs.append({'ev': 'verdict', 'item': i, 'allowed': bool(r)})
        return r

    @asyncio.coroutine
    def fetch_robots_txt(self, request, file=None):
        i = getattr(request, '_verif_item', None)
        obs.append({'ev': 'robots-fetch', 'item': i, 'origin': okey(request.url_info)})
        tok = {'item': i}
        stack.append(tok)
        try:
            return (yield from orig_fetch(self, request, file=file))
        finally:
            stack.remove(tok)
    stack = []

    def load_robots_txt(self, url_info, text):
        res = orig_load(self, url_info, text)
        parser = self._parsers[self.url_info_key(url_info)]
        # which fetch is loading?  the pool is loaded synchronously inside fetch_robots_txt
        obs.append({'ev': 'load', 'origin': okey(url_info), 'rulesets': parsed_rulesets(parser),
                    'item': loading_item[0]})
        return res
    loading_item = [None]
    orig_read = pr.RobotsTxtChecker._read_content
    orig_blank = pr.RobotsTxtChecker._accept_as_blank

    def fetch_one(self, request):
        it = getattr(self._item_session.request, '_verif_item', None)
        first = request.url_info.url == self._item_session.url_record.url
        obs.append({'ev': 'page', 'url': request.url_info.url, 'origin': okey(request.url_info),
                    'item_url': self._item_session.url_record.url, 'first': first})
        return orig_fetch_one(self, request)
    pr.RobotsTxtChecker.can_fetch = can_fetch
    pr.RobotsTxtChecker.fetch_robots_txt = fetch_robots_txt
    rt.RobotsTxtPool.load_robots_txt = load_robots_txt
    pw.WebProcessorSession._fetch_one = fetch_one
    try:
        extra = ['-r', '-l', '0', '--tries', str(next(iter(site.origins.values()))['robots'].get('tries', 2))]
        if ua:
            extra += ['--user-agent', ua]
        m = next(iter(site.origins.values()))['robots'].get('max_redirect')
        if m:
            extra += ['--max-redirect', str(m)]
        tags = next(iter(site.origins.values()))['robots'].get('tags')
        if tags:
            extra += tags       # --follow-tags / --ignore-tags: which elements give links; not whether nofollow is honoured
        starts = ['%s/' % origin_base(h) for h in site.origins]
        if any(h.endswith('#443') for h in site.origins):
            extra += ['--no-check-certificate']      # https runs over the in-memory transport without TLS
        res = appsim.run_crawl(starts, site.to_server(), seed=seed, concurrent=conc, extra=extra, ports=(80, 81, 443))
    finally:
        pr.RobotsTxtChecker.can_fetch = orig_can
        pr.RobotsTxtChecker.fetch_robots_txt = orig_fetch
        rt.RobotsTxtPool.load_robots_txt = orig_load
        pw.WebProcessorSession._fetch_one = orig_fetch_one
    return {'obs': obs, 'requests': [{'host': r['host'], 'port': r['port'], 'target': r['target'], 'ua': r['headers'].get('user-agent', '')}
                                     for r in res.requests],
            'rows': res.rows, 'hung': res.hung, 'exit_code': res.exit_code, 'error': res.error}


def gate_line(r):
    """Turn the observations into a `robots gate` request.  Items = can_fetch calls."""
    origins = {}

    def oid(o):
        return origins.setdefault(o, len(origins))
    items, events = [], []
    begun = {}
    ua = ''
    page_of_item = {}
    # a robots fetch's outcome is reported at the `verdict`/`raise` of its item
    loads = {}
    fetched = set()
    last_load_origin = {}
    for e in r['obs']:
        if e['ev'] == 'begin':
            ua = e['ua']
            t = target_of(e['url'])
            items.append('%d,%d,%s' % (e['item'], oid(e['origin']), enc(t)))
            begun[e['item']] = e
            events.append('b%d' % e['item'])
        elif e['ev'] == 'robots-fetch':
            fetched.add(e['item'])
        elif e['ev'] == 'load':
            last_load_origin[e['origin']] = e['rulesets']
        elif e['ev'] == 'verdict':
            if e['item'] in fetched:
                o = begun[e['item']]['origin']
                events.append('a%d=R%s' % (e['item'], enc_rulesets(last_load_origin.get(o, []))))
        elif e['ev'] == 'raise':
            if e['item'] in fetched:
                events.append('a%d=%s' % (e['item'], 'S' if e['exc'] == 'ServerError' else 'N'))
        elif e['ev'] == 'page':
            # every page request (first hop or redirect hop) must belong to a gate passage
            # (`can_fetch` call) for exactly that URL which has not been used yet
            cand = [i for i, b in begun.items() if b['url'] == e['url'] and i not in page_of_item]
            if cand:
                i = max(cand)
                page_of_item[i] = True
                events.append('q%d' % i)
            else:
                events.append('q999999')
    return 'robots gate %s %s %s' % (enc(ua.lower()), ';'.join(items) or '~', ';'.join(events) or '~'), len(events)


def judge(ctx, r, reply, case, site):
    nontriv = any(e['ev'] == 'robots-fetch' for e in r['obs']) and any(e['ev'] == 'verdict' for e in r['obs'])
    kinds = sorted({o['robots']['kind'] for o in site.origins.values()})
    ctx.case(json.dumps(case, sort_keys=True), nontrivial=nontriv,
             tags=['gate:robots=' + '+'.join(kinds), 'gate:conc=%d' % case['conc'], 'gate:origins=%d%s' % (
                 len(site.origins), '+https-same-host' if any(h.endswith('#443') for h in site.origins) else '')])
    if not reply.startswith('ok'):
        ctx.disagree('gate', case, reply, 'observed sequence of %d events' % len(r['obs']))
    if r['hung'] or r['error']:
        ctx.fail('hang-or-crash', 'crawl', case, 'hung=%s error=%s' % (r['hung'], r['error']))
        return
    # ---- oracle on the server log
    first_seen = set()
    for q in r['requests']:
        ok_ = request_origin(q)
        o = site.origins.get(ok_)
        if o is None:
            continue
        if q['target'].startswith('/static/robots-of-') or q['target'] in ('/r2.txt', '/r3.txt', '/r4.txt'):
            continue        # a hop of obtaining SOME origin's robots.txt (the file may live on another origin)
        if ok_ not in first_seen:
            first_seen.add(ok_)
            if q['target'] != '/robots.txt':
                ctx.fail('robots-not-first', 'origin', case, 'first request to %s is %s' % (origin_base(ok_), q['target']))
        rb = o['robots']
        if q['target'] in ('/robots.txt', '/r2.txt', '/r3.txt', '/r4.txt') or q['target'].startswith('/static/robots-of-'):
            continue
        if rb['kind'] == 'error':
            ctx.fail('fetched-despite-5xx', 'robots', case, '%s%s requested although robots.txt answers 503' % (q['host'], q['target']))
        elif rb['kind'] == 'dropped-always' and rb.get('how', 'close') == 'close':
            # (bytes that are no HTTP response at all are a protocol error: the code treats the file as missing)
            ctx.fail('fetched-without-robots', 'robots', case, '%s%s requested although robots.txt of the origin was never obtained (every fetch failed)' % (q['host'], q['target']))
        elif rb['kind'] in ('ok', 'redirect', 'dropped-once') and not ref_allowed(effective_rules(rb), q['ua'], q['target']):
            via_redirect = any(p['kind'] == 'redirect' and p['location'] == q['target'] for p in o['pages'].values())
            big = len(rb['text']) > 4096
            where = 'redirect-hop' if via_redirect else ('beyond-4096' if big else 'plain')
            ctx.fail('disallowed-request', where, case, '%s%s is disallowed for %r but was requested' % (q['host'], q['target'], q['ua']))
    # robots.txt never fetched again after a load for that origin
    loaded = set()
    for e in r['obs']:
        if e['ev'] == 'load':
            loaded.add(e['origin'])
        elif e['ev'] == 'robots-fetch' and e['origin'] in loaded:
            ctx.fail('robots-refetched', 'origin', case, 'robots.txt of %s fetched again after it was obtained' % e['origin'])
    # nofollow
    for host, o in site.origins.items():
        for nf, only in NF_PAGES.items():
            if any(request_origin(q) == host and q['target'] == nf for q in r['requests']):
                if any(request_origin(q) == host and q['target'] == only for q in r['requests']):
                    ctx.fail('nofollow-ignored', 'html-scraper', case, '%s is linked only from %s, a page declaring nofollow, but was requested' % (only, nf))


def batch(ctx, cases):
    import concurrent.futures as cf
    import multiprocessing as mp
    args = [(site.describe(), conc, seed, ua) for site, conc, seed, ua in cases]
    if len(args) <= 2:
        results = [run_one(a) for a in args]
    else:
        with cf.ProcessPoolExecutor(max_workers=min(ctx.jobs, len(args)), mp_context=mp.get_context('fork')) as ex:
            results = list(ex.map(run_one, args, chunksize=2))
    lines = [gate_line(r)[0] for r in results]
    replies = ctx.model.ask(lines)
    for (site, conc, seed, ua), r, rep in zip(cases, results, replies):
        case = {'stream': 'gate', 'site': site.describe(), 'conc': conc, 'seed': seed, 'ua': ua}
        judge(ctx, r, rep, case, site)
    if cases:
        ctx.sample({'stream': 'gate', 'site': cases[0][0].describe(), 'workers': cases[0][1],
                    'requests': ['%s%s' % (q['host'], q['target']) for q in results[0]['requests']]})


# ------------------------------------------------------------------ nofollow (HTMLScraper)
NF_CONTENTS = ['nofollow', 'noindex, nofollow', 'NOFOLLOW', 'NoFollow,noarchive', ' nofollow ']
OK_CONTENTS = ['index, follow', 'noindex', 'all', '', 'follow', 'no follow', 'nofollo']


def gen_nf_doc(rng):
    """-> (elements, html bytes).  elements: ('meta', name, attr, content) | ('a'|'img'|'iframe'|'link-css'|'area', url)"""
    els = []
    n = rng.randint(0, 8)
    for _ in range(n):
        k = rng.choice(['a', 'a', 'img', 'img', 'iframe', 'link-css', 'area', 'script', 'other-meta'])
        if k == 'other-meta':
            els.append(('meta', rng.choice(['description', 'googlebot', 'ROBOT', 'robots-x']), 'content', rng.choice(NF_CONTENTS)))
        else:
            els.append((k, '/%s%d' % (k[0], rng.randint(0, 5))))
    r = rng.random()
    metas = []
    if r < 0.45:
        metas.append(('meta', rng.choice(['robots', 'ROBOTS', 'Robots']), 'content', rng.choice(NF_CONTENTS)))
    elif r < 0.6:
        metas.append(('meta', 'robots', 'content', rng.choice(OK_CONTENTS)))
    elif r < 0.7:
        metas.append(('meta', 'robots', rng.choice(['value', 'contents', 'http-equiv']), 'nofollow'))      # not the directive
    elif r < 0.8:
        metas += [('meta', 'robots', 'content', rng.choice(OK_CONTENTS)), ('meta', 'robots', 'content', rng.choice(NF_CONTENTS))]
    for m in metas:
        els.insert(rng.randint(0, len(els)), m)       # before, between or after the links
    parts = []
    for e in els:
        if e[0] == 'meta':
            parts.append('<meta name="%s" %s="%s">' % (e[1], e[2], e[3]))
        elif e[0] == 'a':
            parts.append('<a href="%s">x</a>' % e[1])
        elif e[0] == 'img':
            parts.append('<img src="%s">' % e[1])
        elif e[0] == 'iframe':
            parts.append('<iframe src="%s"></iframe>' % e[1])
        elif e[0] == 'link-css':
            parts.append('<link rel="stylesheet" href="%s">' % e[1])
        elif e[0] == 'area':
            parts.append('<map><area href="%s"></map>' % e[1])
        elif e[0] == 'script':
            parts.append('<script src="%s"></script>' % e[1])
    head_n = rng.randint(0, len(parts))
    doc = '<html><head><title>t</title>%s</head><body>%s</body></html>' % (''.join(parts[:head_n]), ''.join(parts[head_n:]))
    return els, doc.encode()


def real_scrape(doc, robots, refresh=None, tags=None):
    from wpull.document.htmlparse.html5lib_ import HTMLParser
    from wpull.scraper.html import HTMLScraper, ElementWalker
    from wpull.protocol.http.request import Request, Response
    from wpull.body import Body
    flags = []
    orig = ElementWalker.robots_cannot_follow

    def logged(element):
        r = orig(element)
        flags.append(bool(r))
        return r
    ElementWalker.robots_cannot_follow = staticmethod(logged) if not isinstance(ElementWalker.__dict__['robots_cannot_follow'], classmethod) \
        else classmethod(lambda cls, element: logged(element))
    try:
        scraper = HTMLScraper(HTMLParser(), ElementWalker(), robots=robots, **(tags or {}))
        request = Request('http://a.test/page.html')
        response = Response(200, 'OK')
        response.fields['Content-Type'] = 'text/html'
        if refresh:
            response.fields['Refresh'] = refresh
        response.body = Body()
        response.body.write(doc)
        response.body.seek(0)
        response.request = request
        try:
            result = scraper.scrape(request, response)
        finally:
            response.body.close()
    finally:
        ElementWalker.robots_cannot_follow = orig
    ctxs = sorted({(c.link, bool(c.inline), bool(c.linked)) for c in result.link_contexts})
    return ctxs, flags


def all_scrapers_linked(doc, url):
    """The links that WOULD BE FOLLOWED when the document at `url` goes through every scraper the application installs
    (HTML with robots handling, CSS, JavaScript), as ProcessingRule.scrape_document runs them."""
    from wpull.document.htmlparse.html5lib_ import HTMLParser
    from wpull.scraper.base import DemuxDocumentScraper
    from wpull.scraper.css import CSSScraper
    from wpull.scraper.html import HTMLScraper, ElementWalker
    from wpull.scraper.javascript import JavaScriptScraper
    from wpull.protocol.http.request import Request, Response
    from wpull.body import Body
    css, js = CSSScraper(), JavaScriptScraper()
    demux = DemuxDocumentScraper([HTMLScraper(HTMLParser(), ElementWalker(css_scraper=css, javascript_scraper=js), robots=True), css, js])
    request = Request(url)
    response = Response(200, 'OK')
    response.fields['Content-Type'] = 'text/html'
    response.body = Body()
    response.body.write(doc)
    response.body.seek(0)
    response.request = request
    try:
        info = demux.scrape_info(request, response)
    finally:
        response.body.close()
    out = set()
    for scraper, result in (info or {}).items():
        if result:
            out |= {(type(scraper).__name__, c.link) for c in result.link_contexts if c.linked}
    return sorted(out)


NF_URLS = ['http://a.test/page.html', 'http://a.test/docs/node.js/changes.html', 'http://a.test/download/jquery.js.html', 'http://a.test/theme.css/about.html',
           'http://a.test/x.js', 'http://a.test/feed.xml.html']


def stream_nofollow(ctx, n):
    rng = ctx.subrng('nofollow')
    reqs, meta = [], []
    for _ in range(n):
        els, doc = gen_nf_doc(rng)
        robots = rng.random() < 0.8
        refresh = '3; url=/refreshed' if rng.random() < 0.15 else None
        tags = rng.choice([None, None, {'followed_tags': ['a', 'area', 'img']}, {'ignored_tags': ['meta', 'link']}, {'ignored_tags': ['meta']}])
        every, _ = real_scrape(doc, False, refresh, tags)               # what the walker yields (robots handling off)
        kept, flags = real_scrape(doc, robots, refresh, tags)
        ids = {u: i for i, u in enumerate(sorted({c[0] for c in every}))}
        seen = [f for f in flags]                                   # one entry per element examined while still looking
        elems = ['%s:_' % ('m' if f else 'e') for f in seen] + ['e:' + ('|'.join('%d,%s,%s' % (ids[u], 'T' if i else 'F', 'T' if l else 'F')
                                                                                  for u, i, l in every) or '_')]
        reqs.append('robots nofollow %s %s' % ('T' if robots else 'F', ';'.join(elems)))
        meta.append((els, doc, robots, refresh, every, kept, ids, tags))
    replies = ctx.model.ask(reqs)
    for (els, doc, robots, refresh, every, kept, ids, tags), rep in zip(meta, replies):
        declared = any(e[0] == 'meta' and e[1].lower() == 'robots' and e[2] == 'content' and 'nofollow' in e[3].lower() for e in els)
        case = {'stream': 'nofollow', 'doc': doc, 'robots': robots, 'refresh': refresh, 'tags': tags}
        ctx.case(('nofollow', doc, robots, refresh), nontrivial=bool(every),
                 tags=['nofollow:%s' % ('declared' if declared else 'not-declared'), 'nofollow:robots=%s' % robots])
        real = '|'.join('%d,%s,%s' % (ids[u], 'T' if i else 'F', 'T' if l else 'F') for u, i, l in kept) or '~'
        if sorted(rep.split('|')) != sorted(real.split('|')):
            ctx.disagree('nofollow', case, rep, real)
        # ---- oracle from the generator's own knowledge of the document
        anchors = {'http://a.test' + e[1] for e in els if e[0] in ('a', 'area')}
        images = {'http://a.test' + e[1] for e in els if e[0] == 'img'}
        kept_urls = {u for u, i, l in kept}
        if robots and declared:
            followed = sorted(u for u, i, l in kept if l)
            if followed:
                ctx.fail('nofollow-ignored', 'html-scraper', case, 'the page declares nofollow but these links would be followed: %s' % followed[:4])
            # ... and no OTHER scraper the application runs over the same document may offer them, whatever the URL looks like
            url = NF_URLS[hash(doc) % len(NF_URLS)] if isinstance(doc, bytes) else NF_URLS[0]
            others = all_scrapers_linked(doc, url)
            if others:
                ctx.fail('nofollow-ignored', 'other-scraper', dict(case, url=url), 'the page at %s declares nofollow but these links would be followed: %s' % (url, others[:4]))
        else:
            if not anchors <= kept_urls:
                ctx.fail('links-dropped', 'html-scraper', case, 'no nofollow in force but links were dropped: %s' % sorted(anchors - kept_urls)[:4])
        if not images <= kept_urls:
            ctx.fail('requisites-dropped', 'html-scraper', case, 'page requisites dropped: %s' % sorted(images - kept_urls)[:4])
    if meta:
        ctx.sample({'stream': 'nofollow', 'doc': meta[0][1], 'robots': meta[0][2]})


def replay(ctx, case, kind=None, where=None):
    if case.get('stream') == 'nofollow':
        replay_nofollow(ctx, case)
    elif case.get('stream') == 'parse':
        stream_parse(ctx, 1, [case['robots']])
    elif case.get('stream') == 'gate':
        batch(ctx, [(RSite.from_desc(case['site']), case['conc'], case['seed'], case.get('ua'))])
    else:
        from wpull.robotstxt import RobotsTxtPool
        from wpull.url import URLInfo
        if kind in ('bom-changes-rules', 'comment-changes-rules'):
            from wpull.protocol.http.robots import RobotsTxtChecker
            base = URLInfo.parse('http://a.test/')
            text = case['robots']
            other = text[3:] if kind == 'bom-changes-rules' and text.startswith('\xef\xbb\xbf') else re.sub(r'#[^\r\n]*', '#', text)
            got = []
            for t in (text, other):
                pl = RobotsTxtPool()
                load_as_fetched(RobotsTxtChecker(web_client=None, robots_txt_pool=pl), base, t.encode('latin-1', 'replace'))
                got.append(parsed_rulesets(pl._parsers[pl.url_info_key(base)]))
            ctx.case(('match-invariance', text))
            if got[0] != got[1]:
                ctx.fail(kind, 'parser', case, 'the file parses to %r, its plain twin to %r' % (got[0], got[1]))
            return
        pool = RobotsTxtPool()
        base = URLInfo.parse('http://a.test/')
        pool.load_robots_txt(base, case['robots'])
        ui = URLInfo.parse(case['url'])
        real = pool.can_fetch(ui, case['ua'])
        rs = parsed_rulesets(pool._parsers[pool.url_info_key(base)])
        rep = ctx.model.ask(['robots match %s %s %s' % (enc(case['ua'].lower()), enc(target_of(ui.url)), enc_rulesets(rs))])[0]
        ctx.case(('match', case['robots'], case['url'], case['ua']))
        if rep != ('T' if real else 'F'):
            ctx.disagree('match', case, rep, 'T' if real else 'F')


def load_corpus(ctx):
    out = []
    for p in sorted(glob.glob(os.path.join(ctx.verif, 'harness', 'corpus', 'C20', '*.json'))):
        with open(p) as f:
            out.append(unjson(json.load(f)))
    return out


def gen_cases(rng, n):
    return [(gen_rsite(rng), rng.choice([1, 1, 2, 3]), rng.randrange(1 << 30), rng.choice([None, None, 'FooBot/1.0', 'wpull-test', 'Mozilla/5.0 (compatible; foobot/1.2; +http://a.test/bot)', 'Mozilla/5.0 (X11) FooBot']))
            for _ in range(n)]


def run(ctx):
    for case in load_corpus(ctx):
        replay(ctx, case)
    stream_match(ctx, ctx.scale(1500, 40000))
    stream_parse(ctx, ctx.scale(2500, 60000))
    stream_nofollow(ctx, ctx.scale(400, 8000))
    batch(ctx, gen_cases(ctx.rng, ctx.scale(60, 1500)))


def replay_nofollow(ctx, case):
    kept, _ = real_scrape(case['doc'], case['robots'], case.get('refresh'), case.get('tags'))
    ctx.case(('nofollow', case['doc']))
    doc = case['doc'].decode('latin-1').lower()
    declared = bool(re.search(r'<meta name="robots" content="[^"]*nofollow', doc))
    followed = sorted(u for u, i, l in kept if l)
    if case['robots'] and declared and followed:
        ctx.fail('nofollow-ignored', 'html-scraper', case, 'the page declares nofollow but these links would be followed: %s' % followed[:4])
    if not (case['robots'] and declared):
        anchors = {'http://a.test' + m for m in re.findall(r'<a href="([^"]*)"', case['doc'].decode('latin-1'))}
        if not anchors <= {u for u, i, l in kept}:
            ctx.fail('links-dropped', 'html-scraper', case, 'links dropped without a directive')


def search(ctx):
    stream_nofollow(ctx, ctx.scale(400, 3000))
    batch(ctx, gen_cases(ctx.subrng('search'), ctx.scale(10, 40)))
