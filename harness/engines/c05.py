"""C05 — Every WARC file is a valid record sequence with correct lengths and digests.

Streams (model `Wpull.Warc` vs the real code in ctx.repo):
  nvr       NameValueRecord(normalize_overrides=NAME_OVERRIDES): set/add ops -> bytes()
  ser       WARCRecord with given fields and block -> bytes(record)
  offset    HTTPWARCRecorderSession._find_payload_offset(block)
  blockpos  oracle only: set_length_and_maybe_checksums + write_record with block files (BytesIO, file, temp file,
            GzipFile) handed over at offset 0 / middle / end
  ytdl      oracle only: the real youtube-dl coprocessor Session._write_warc_metadata over fake *.info.json files
  dedup     oracle only: --warc-dedup: index (LF/CRLF) -> real WARCVisitsTask/read_cdx/URLTable -> revisit records
  readcdx   read_cdx on one index line vs the model's readCdxLine
  recorder  whole lives of the real WARCRecorder driven through the recorder
            sessions' event methods (see warc_common.py); files read back by an
            independent strict gzip / WARC reader, digests recomputed with hashlib
  client    oracle only: the real HTTP client + recorder over harness/fakenet.py
  app       oracle only: the real Application.run + pipelines + WARCRecorderTeardownTask; fatal error with sessions in flight
  processor oracle only: the real WebProcessor + robots.txt fetch; ENOSPC in the warcinfo append of a size roll-over
  mixed     oracle only: one recorder listening to the real FTP and HTTP clients; fetches that fail at every stage
"""
import io
import os
import compat  # noqa: F401
from runner import enc, Infra
from engines import warc_common as wc

RULE = ('recorder: configurations (gzip, digests, max_size rollover incl. 0, appending second life, log record, extra warcinfo '
        '~20% of the lives with ONE injected OSError (open / ENOSPC / short write + ENOSPC at raw write 1-3) inside the append of a session '
        'record, ~7% killed (forked child os._exit) inside an append to a numbered / -meta file and followed by another life; '
        'fields incl. >1024 chars / short values with CR, LF, CRLF, TAB, VT, FF / non-ASCII, revisit table) x 1-8 interleaved HTTP/FTP recorder sessions; response '
        'header blocks with CRLF/LF/mixed line ends, odd spacing, folding, colon-less lines, duplicates, 0-40 fields, >4 KiB, '
        'bodies empty/binary/blank-line-led/chunked+trailer/4096-boundary; nvr/ser: field names from NAME_OVERRIDES in random '
        'case + custom names, values incl. empty, non-ASCII, surrogates; offset: byte strings over {CR, LF, other}. '
        'non-trivial = at least one session record written / non-empty input; distinct by canonical input')
TRUSTED = ['fault lives: io.FileIO is subclassed for the archive handle (count / fail / die at the raw write); BufferedWriter and GzipFile are the real ones',
           'SHA-1, base32 and zlib are opaque (hashlib / zlib recompute the expected values in the harness)',
           'the harness reader of gzip members and WARC records (warc_common.py) is the reference for "valid"',
           'uuid.uuid4 is replaced by a seeded generator during a run (stdlib entry point, not wpull code)']
ASSUMPTIONS = ['field values handed to the recorder are free of CR/LF: URL (C10 norm_ascii), IP address, uuid, date, digests, '
               'decimal lengths; checked on every generated record by the strict reader',
               'a revisit record keeps the payload digest of the response it was cut from (the WARC meaning of the field); '
               'its block must equal the wire header block exactly',
               'warcinfo field names given by the user are ASCII']
UNPROVED = ['history-level ids_unique (all record ids of a life pairwise distinct given distinct uuids): creation-level injectivity is proved, the history statement is checked by the oracle only', 'FieldsOk for every record the recorder builds (CR/LF-freeness per value source is proved for lengths, ids, digests; URL and IP address are assumptions checked by the strict reader)']

PID = 'C05'


# ------------------------------------------------------------------ function-level streams
def gen_name(rng):
    from wpull.warc.format import WARCRecord
    base = rng.choice(sorted(WARCRecord.NAME_OVERRIDES) + ['X-Custom', 'x', 'a-b-c', 'Content-MD5', 'warc-x9z'])
    r = rng.random()
    if r < 0.3:
        return base.lower()
    if r < 0.5:
        return base.upper()
    if r < 0.6:
        return ''.join(c.upper() if rng.random() < 0.5 else c.lower() for c in base)
    return base


def gen_text(rng):
    n = rng.choice([0, 1, 4, 12, 40])
    out = []
    for _ in range(n):
        r = rng.random()
        if r < 0.8:
            out.append(rng.choice('abcXYZ019 :;<>-_/.='))
        elif r < 0.9:
            out.append(chr(rng.randrange(0x80, 0x3000)))
        elif r < 0.95:
            out.append(chr(rng.randrange(0x10000, 0x10ffff)))
        elif r < 0.97:
            out.append(chr(rng.choice([0xd800, 0xdc80, 0xdfff])))
        else:
            out.append(rng.choice('\r\n\t'))
    return ''.join(out)


def stream_nvr(ctx, n):
    from wpull.namevalue import NameValueRecord
    from wpull.warc.format import WARCRecord
    rng = ctx.subrng('nvr')
    cases = []
    for _ in range(n):
        ops = [(rng.choice('sssa'), gen_name(rng), gen_text(rng)) for _ in range(rng.choice([0, 1, 2, 4, 8]))]
        cases.append(ops)
    lines = ['warc nvr %d%s' % (len(ops), ''.join(' %s %s %s' % (o, enc(k), enc(v)) for o, k, v in ops)) for ops in cases]
    replies = ctx.model.ask(lines)
    for ops, rep in zip(cases, replies):
        rec = NameValueRecord(normalize_overrides=WARCRecord.NAME_OVERRIDES)
        for o, k, v in ops:
            if o == 's':
                rec[k] = v
            else:
                rec.add(k, v)
        try:
            real = 'ok ' + enc(bytes(rec))
        except UnicodeEncodeError:
            real = 'exc UnicodeEncodeError'
        ctx.case(('nvr', tuple(ops)), nontrivial=bool(ops), tags=['nvr:' + real.split(' ')[0]])
        if real != rep:
            ctx.disagree('nvr', {'ops': ops}, rep, real)
    if cases:
        ctx.sample({'stream': 'nvr', 'ops': cases[-1]})


def stream_ser(ctx, n):
    from wpull.warc.format import WARCRecord
    rng = ctx.subrng('ser')
    cases = []
    for _ in range(n):
        names = []
        for _ in range(rng.choice([0, 1, 3, 7])):
            nm = rng.choice(sorted(WARCRecord.NAME_OVERRIDES) + ['X-Custom'])
            if nm not in names:
                names.append(nm)
        pairs = [(nm, gen_text(rng)) for nm in names]
        block = bytes(rng.choice(b'\r\n\r\nabc\x00\xff') for _ in range(rng.choice([0, 1, 5, 40, 5000])))
        cases.append((pairs, block))
    lines = ['warc ser %s %s %s' % (wc.enc_lists([p[0] for p in pairs]), wc.enc_lists([p[1] for p in pairs]), enc(block))
             for pairs, block in cases]
    replies = ctx.model.ask(lines)
    for (pairs, block), rep in zip(cases, replies):
        rec = WARCRecord()
        for k, v in pairs:
            rec.fields[k] = v
        rec.block_file = io.BytesIO(block)
        try:
            raw = bytes(rec)
            real = 'ok ' + enc(raw)
        except UnicodeEncodeError:
            raw = None
            real = 'exc UnicodeEncodeError'
        ctx.case(('ser', tuple(pairs), block), nontrivial=bool(pairs) or bool(block), tags=['ser:' + real.split(' ')[0]])
        if real != rep:
            ctx.disagree('ser', {'pairs': pairs, 'block': block}, rep[:600], real[:600])
        if raw is not None and not raw.endswith(block + b'\r\n\r\n'):
            ctx.fail('invalid-record-sequence', 'WARCRecord.__iter__', {'stream': 'ser', 'pairs': pairs, 'block': block},
                     'serialisation does not end with block + CRLF CRLF')


def real_offset(block):
    from wpull.warc.recorder import HTTPWARCRecorderSession
    f = getattr(HTTPWARCRecorderSession, '_find_payload_offset', None)
    if f is None:
        return 'missing'
    bio = io.BytesIO(block)
    return str(f(bio))


def stream_offset(ctx, n):
    rng = ctx.subrng('offset')
    cases = [b'', b'\n', b'\r\n', b'\r\n\r\n', b'a\n\n', b'a\r\n\r\nb', b'a\n\r\nb', b'a\r\n\nb', b'a\r\r\n\r\n', b'a\n\rb\n\n']
    for _ in range(n):
        cases.append(bytes(rng.choice(b'\r\n\r\nab') for _ in range(rng.choice([1, 2, 3, 5, 8, 14]))))
    replies = ctx.model.ask(['warc offset ' + enc(b) for b in cases])
    for b, rep in zip(cases, replies):
        real = real_offset(b)
        ctx.case(('offset', b), nontrivial=bool(b), tags=['offset'])
        if real != rep:
            ctx.disagree('offset', {'block': b}, rep, real)


# ------------------------------------------------------------------ records handed over by other callers
def _open_block(kind, directory, content, pos, rng):
    """a block file of the kinds wpull's callers hand to the recorder, positioned at `pos`"""
    import gzip
    import tempfile
    if kind == 'bytesio':
        f = io.BytesIO(content)
    elif kind == 'file':
        path = os.path.join(directory, 'blk-%d.bin' % rng.getrandbits(40))
        with open(path, 'wb') as w:
            w.write(content)
        f = open(path, 'rb')
    elif kind == 'tempfile':
        f = tempfile.NamedTemporaryFile(dir=directory, prefix='blk-', suffix='.tmp')
        f.write(content)
        f.seek(0)
    else:   # 'gzip': how close() hands over the log
        path = os.path.join(directory, 'blk-%d.gz' % rng.getrandbits(40))
        with gzip.GzipFile(path, 'wb') as w:
            w.write(content)
        f = gzip.GzipFile(filename=path)
    if pos:
        f.read(pos)       # a handle that has been read before, as a caller that inspects the content leaves it
    return f


def check_blockpos(ctx, case):
    """WARCRecorder.set_length_and_maybe_checksums + write_record with block files at offset 0 / middle / end:
    the record written must be complete (Content-Length = the block as written, digest of that block) and the
    block is the bytes from the handed position to the end."""
    import random
    import shutil
    import tempfile
    from wpull.warc.recorder import WARCRecorder, WARCRecorderParams
    from wpull.warc.format import WARCRecord
    rng = random.Random(case['seed'])
    base = os.environ.get('TMPDIR') or tempfile.gettempdir()
    directory = tempfile.mkdtemp(prefix='wpull-verif-warcb-', dir=base)
    fails = []
    try:
        rec = WARCRecorder(os.path.join(directory, wc.PREFIX), params=WARCRecorderParams(
            compress=case['compress'], temp_dir=directory, log=False, digests=case['digests'], cdx=False))
        expect = []
        for kind, n, where, poff in case['records']:
            content = bytes(rng.randrange(256) for _ in range(n))
            pos = {'start': 0, 'middle': n // 2, 'end': n}[where]
            f = _open_block(kind, directory, content, pos, rng)
            r = WARCRecord()
            r.set_common_fields('resource', 'application/octet-stream')
            r.fields['WARC-Target-URI'] = 'urn:x:%d' % len(expect)
            r.block_file = f
            rec.set_length_and_maybe_checksums(r, payload_offset=poff)
            rec.write_record(r)
            f.close()
            expect.append((r.fields['WARC-Record-ID'].encode(), content[pos:], poff))
        rec.close()
        name = wc.PREFIX + ('.warc.gz' if case['compress'] else '.warc')
        with open(os.path.join(directory, name), 'rb') as fh:
            data = fh.read()
        try:
            recs = wc.read_warc_file(name, data, case['compress'])
        except wc.Invalid as e:
            fails.append(('invalid-record-sequence', 'compute_checksum' if case['digests'] else 'set_content_length',
                          'block files handed over at %s: %s' % ([x[2] for x in case['records']], e)))
            recs = []
        by_id = {r.id: r for r in recs}
        for rid, block, poff in (expect if recs else []):
            r = by_id.get(rid)
            if r is None:
                fails.append(('record-missing', 'write_record', 'record %r not in the file' % rid))
                continue
            if r.block != block:
                fails.append(('block-not-source-bytes', 'WARCRecord.__iter__',
                              'record %r: block has %d bytes, the block file held %d from the handed position' % (rid, len(r.block), len(block))))
            if case['digests']:
                if r.get(b'WARC-Block-Digest') != b'sha1:' + wc.b32sha1(r.block):
                    fails.append(('block-digest', 'compute_checksum', 'record %r: block digest is not that of the %d-byte block written' % (rid, len(r.block))))
                if poff is not None and r.get(b'WARC-Payload-Digest') != b'sha1:' + wc.b32sha1(r.block[poff:]):
                    fails.append(('payload-digest', 'compute_checksum', 'record %r: payload digest is not that of block[%d:]' % (rid, poff)))
    finally:
        shutil.rmtree(directory, ignore_errors=True)
    ctx.case(('blockpos', repr(case)), tags=['blockpos:' + '+'.join(sorted({x[2] for x in case['records']}))] +
             ['blockpos:' + x[0] for x in case['records']])
    for kind, where, detail in fails:
        ctx.fail(kind, where, {'stream': 'blockpos', 'blockpos': case}, detail)


def stream_blockpos(ctx, n):
    rng = ctx.subrng('blockpos')
    cases = []
    for i in range(n):
        recs = []
        for _ in range(rng.choice([1, 2, 3])):
            size = rng.choice([0, 1, 10, 300, 4096, 9000])
            recs.append([rng.choice(['bytesio', 'file', 'tempfile', 'gzip']), size, rng.choice(['start', 'start', 'middle', 'end']),
                         rng.choice([None, None, 0, 3])])
        cases.append({'seed': rng.getrandbits(32), 'compress': rng.random() < 0.5, 'digests': rng.random() < 0.7, 'records': recs})
    for c in cases:
        check_blockpos(ctx, c)
    if cases:
        ctx.sample({'stream': 'blockpos', 'case': cases[0]})


def check_ytdl(ctx, case):
    """The real youtube-dl coprocessor session's _write_warc_metadata over fake *.info.json files: one metadata record
    per file, complete, whose block is the file's content."""
    import random
    import shutil
    import tempfile
    import types
    from wpull.warc.recorder import WARCRecorder, WARCRecorderParams
    from wpull.processor.coprocessor.youtubedl import Session
    from wpull.url import URLInfo
    rng = random.Random(case['seed'])
    base = os.environ.get('TMPDIR') or tempfile.gettempdir()
    directory = tempfile.mkdtemp(prefix='wpull-verif-warcy-', dir=base)
    fails = []
    try:
        outdir = os.path.join(directory, 'ytdl')
        os.mkdir(outdir)
        prefix = os.path.join(outdir, 'tmp')
        contents = []
        for i, n in enumerate(case['files']):
            if rng.random() < 0.7:
                body = ('{"id": "v%d", "formats": [%s], "title": "t\u00e9"}' % (i, ', '.join('{"format_id": "%d"}' % j for j in range(n)))).encode()
            else:
                body = bytes(rng.randrange(256) for _ in range(n))
            with open('%s.v%d.info.json' % (prefix, i), 'wb') as f:
                f.write(body)
            contents.append(body)
        rec = WARCRecorder(os.path.join(directory, wc.PREFIX), params=WARCRecorderParams(
            compress=case['compress'], temp_dir=directory, log=False, digests=case['digests'], cdx=False))
        sess = Session.__new__(Session)
        sess._item_session = types.SimpleNamespace(url_record=types.SimpleNamespace(url_info=URLInfo.parse('http://example.com/watch?v=1')))
        sess._path_prefix = prefix
        sess._warc_recorder = rec
        sess._temp_dir = None
        sess._write_warc_metadata()
        rec.close()
        name = wc.PREFIX + ('.warc.gz' if case['compress'] else '.warc')
        with open(os.path.join(directory, name), 'rb') as fh:
            data = fh.read()
        try:
            recs = wc.read_warc_file(name, data, case['compress'])
        except wc.Invalid as e:
            fails.append(('invalid-record-sequence', '_write_warc_metadata', '%d info.json files: %s' % (len(contents), e)))
            recs = None
        if recs is not None:
            got = sorted(r.block for r in recs if r.type == b'metadata')
            if got != sorted(contents):
                fails.append(('block-not-source-bytes', '_write_warc_metadata',
                              '%d info.json files of %r bytes, metadata record blocks of %r bytes'
                              % (len(contents), sorted(len(c) for c in contents), sorted(len(g) for g in got))))
            for r in recs:
                if r.get(b'WARC-Block-Digest') is not None and r.get(b'WARC-Block-Digest') != b'sha1:' + wc.b32sha1(r.block):
                    fails.append(('block-digest', 'compute_checksum', '%s record: digest is not that of its %d-byte block' % (r.type, len(r.block))))
    finally:
        shutil.rmtree(directory, ignore_errors=True)
    ctx.case(('ytdl', repr(case)), tags=['ytdl:files=%d' % len(case['files'])])
    for kind, where, detail in fails:
        ctx.fail(kind, where, {'stream': 'ytdl', 'ytdl': case}, detail)


def stream_ytdl(ctx, n):
    rng = ctx.subrng('ytdl')
    cases = [{'seed': rng.getrandbits(32), 'compress': rng.random() < 0.5, 'digests': rng.random() < 0.7,
              'files': [rng.choice([0, 1, 5, 40, 3000]) for _ in range(rng.choice([1, 2, 2, 3]))]} for _ in range(n)]
    for c in cases:
        check_ytdl(ctx, c)
    if cases:
        ctx.sample({'stream': 'ytdl', 'case': cases[0]})


# ------------------------------------------------------------------ --warc-dedup: CDX index -> URL table -> revisit records
def stream_readcdx(ctx, n):
    """wpull.warc.format.read_cdx on one data line (any terminator, odd spacing) vs the model's readCdxLine."""
    from wpull.warc.format import read_cdx
    rng = ctx.subrng('readcdx')
    keys = ['k%d' % i for i in range(14)]
    cases = []
    for _ in range(n):
        cols = [''.join(rng.choice('abc/:<>-019é\t') for _ in range(rng.choice([0, 1, 3, 8]))) for _ in range(rng.choice([1, 3, 9, 11]))]
        line = ' '.join(cols)
        if rng.random() < 0.2:
            line = rng.choice([' ', '  ', '\t']) + line
        if rng.random() < 0.2:
            line += rng.choice([' ', '\t', ' \r'])
        line += rng.choice(['\n', '\r\n', '\r\n', ''])
        cases.append(line)
    replies = ctx.model.ask(['warc readcdx 32 ' + enc(l) for l in cases])
    for line, rep in zip(cases, replies):
        data = (' CDX ' + ' '.join(keys) + '\n' + line).encode('utf-8')
        rows = list(read_cdx(io.BytesIO(data)))
        real = [rows[0].get(k) for k in keys if k in rows[0]] if rows else None
        model = [bytes(x).decode('latin-1') if False else ''.join(chr(c) for c in x) for x in
                 ([] if rep == '~' else [wc.dec(t) for t in rep.split('/')])]
        ctx.case(('readcdx', line), nontrivial=bool(line.strip()), tags=['readcdx:' + ('crlf' if line.endswith('\r\n') else 'lf' if line.endswith('\n') else 'eof')])
        if rows and len(rows) == 1:
            if model[:len(keys)] != real:
                ctx.disagree('readcdx', {'line': line}, repr(model)[:400], repr(real)[:400])
            if any('\r' in (c or '') or '\n' in (c or '') for c in real):
                ctx.fail('cdx-column-with-line-break', 'read_cdx', {'stream': 'readcdx', 'line': line},
                         'read_cdx returns a column holding CR or LF: %r' % (real,))


def gen_dedup(rng):
    n = rng.choice([1, 2, 3])
    cfg1 = wc.gen_cfg(rng)
    cfg1.update(cdx=True, digests=True, revisit=False, appending=False, max_size=rng.choice([None, None, 0, 1500]))
    sessions = [wc.gen_http_session(rng, i, cfg1) for i in range(n)]
    cfg2 = wc.gen_cfg(rng)
    cfg2.update(digests=True, revisit=True, appending=False)
    return {'cfg1': cfg1, 'sessions': sessions, 'cfg2': cfg2,
            'eol': rng.choice(['lf', 'crlf', 'crlf', 'crlf-last-line-bare']),
            'again': [rng.choice(['same', 'same', 'other-body']) for _ in range(n)], 'seed': rng.getrandbits(32)}


def check_dedup(ctx, case):
    """Life 1 writes archive + CDX index; the index (LF or CRLF line ends, as after a pass through a Windows tool) is
    loaded by the REAL --warc-dedup start-up task (WARCVisitsTask -> read_cdx -> URLTable); life 2 fetches the same
    documents again with that URL table: revisit records.  Oracle: the C05 oracle on both lives (strict one-line header
    fields on every record) and WARC-Refers-To = the id of the first life's response record."""
    import argparse
    import shutil
    import tempfile
    from wpull.application.tasks.warc import WARCVisitsTask
    from wpull.database.sqltable import URLTable
    base = os.environ.get('TMPDIR') or tempfile.gettempdir()
    d1 = tempfile.mkdtemp(prefix='wpull-verif-warcd1-', dir=base)
    d2 = tempfile.mkdtemp(prefix='wpull-verif-warcd2-', dir=base)
    fails = []
    tags = ['dedup:' + case['eol']]
    try:
        ops1 = [o for sess in case['sessions'] for o in sess]
        obs1 = wc.run_real_life(d1, {'cfg': case['cfg1'], 'ops': ops1, 'logs': []}, 'dedup1/%d' % case['seed'])
        by1, problems1 = wc.parse_life(obs1)
        f1, ids = wc.oracle_c05(obs1, by1, problems1, {})
        fails += f1
        cdx = obs1['after'].get(wc.PREFIX + '.cdx', b'')
        if case['eol'] == 'crlf':
            cdx = cdx.replace(b'\n', b'\r\n')
        elif case['eol'] == 'crlf-last-line-bare':
            cdx = cdx.replace(b'\n', b'\r\n')[:-2]
        index = os.path.join(d1, 'index-for-dedup.cdx')
        with open(index, 'wb') as f:
            f.write(cdx)
        table = URLTable()
        fh = open(index, 'rb')
        app = argparse.Namespace(args=argparse.Namespace(warc_dedup=fh, local_encoding=None), factory={'URLTable': table})
        compat.run(WARCVisitsTask().process(app), timeout=60)
        # the response records of life 1 by (url, payload)
        # (the visits table keeps ONE visit per URL: the first index line of a URL wins -- INSERT OR IGNORE on the URL)
        recs_by_id = {r.id: r for name, (start, recs) in by1.items() for r in recs if r.type == b'response'}
        per_url = {}
        for ln in obs1['after'].get(wc.PREFIX + '.cdx', b'').split(b'\n')[1:]:
            cols = ln.split(b' ')
            r = recs_by_id.get(cols[8]) if len(cols) == 9 else None
            m = obs1['meta'].get((r.id or b'').decode('latin-1')[10:-1]) if r else None
            if m:
                per_url.setdefault(r.get(b'WARC-Target-URI'), (m['full'][m['hdrlen']:], r.id.decode('latin-1')))
        first = {(u, payload): rid for u, (payload, rid) in per_url.items()}
        ops2 = []
        for sess, again in zip(case['sessions'], case['again']):
            for o in sess:
                o = dict(o, k=o['k'] + 50)
                if o['op'] == 'ep':
                    if again == 'other-body':
                        o['body'] = o['body'] + b'!changed'
                        o['cuts'] = []
                    o['revisit'] = None
                ops2.append(o)
        # expectation: same URL and same payload as a response of the index -> revisit referring to it
        hdr = {}
        from wpull.protocol.http.request import Request
        for o in ops2:
            if o['op'] == 'bq':
                hdr[o['k']] = [Request(o['url']).url_info.url.encode(), None]
            elif o['op'] == 'bp':
                hdr[o['k']][1] = o['header']
            elif o['op'] == 'ep':
                o['revisit'] = first.get((hdr[o['k']][0], o['body']))
                tags.append('dedup:revisit-expected' if o['revisit'] else 'dedup:no-revisit')
        obs2 = wc.run_real_life(d2, {'cfg': case['cfg2'], 'ops': ops2, 'logs': [], '_url_table': table}, 'dedup2/%d' % case['seed'])
        if obs2['raised']:
            r = obs2['raised']
            fails.append(('recorder-raised', r['where'], '%s(%s) at op %d of the deduplicating life' % (r['type'], r['text'], r['index'])))
        else:
            by2, problems2 = wc.parse_life(obs2)
            f2, ids = wc.oracle_c05(obs2, by2, problems2, ids)
            fails += f2
    finally:
        shutil.rmtree(d1, ignore_errors=True)
        shutil.rmtree(d2, ignore_errors=True)
    ctx.case(('dedup', repr(case)), tags=sorted(set(tags)))
    for kind, where, detail in fails:
        ctx.fail(kind, where, {'stream': 'dedup', 'dedup': case}, detail + ' [--warc-dedup, index with %s lines]' % case['eol'])


def stream_dedup(ctx, n):
    rng = ctx.subrng('dedup')
    cases = [gen_dedup(rng) for _ in range(n)]
    for c in cases:
        check_dedup(ctx, c)
    if cases:
        ctx.sample({'stream': 'dedup', 'eol': cases[0]['eol'], 'again': cases[0]['again']})


# ------------------------------------------------------------------ recorder lives
def stream_recorder(ctx, scenarios, pid=PID):
    outs = []
    for i, scn in enumerate(scenarios):
        out = wc.run_scenario(scn, seed='%s/%d/%d' % (pid, ctx.seed, i))
        outs.append(out)
    lines = [l for out in outs for l in out.requests]
    replies = ctx.model.ask(lines, jobs=min(ctx.jobs, max(1, len(lines) // 8)))
    pos = 0
    for scn, out in zip(scenarios, outs):
        reps = replies[pos:pos + len(out.requests)]
        pos += len(out.requests)
        nrec = sum(len(v[1]) for (obs, by_file, real) in out.lives for v in by_file.values())
        ctx.case(('scenario', repr(scn)), nontrivial=nrec > len(out.lives), tags=sorted(set(out.tags)))
        wc.check_scenario(ctx, scn, reps, out, pid)
    if scenarios:
        s = scenarios[0]
        ctx.sample({'stream': 'recorder', 'cfg': s['runs'][0]['cfg'], 'ops': [o['op'] for o in s['runs'][0]['ops']]})


def replay(ctx, case, kind=None, where=None):
    s = case.get('stream')
    if s == 'scenario':
        stream_recorder(ctx, [case['scenario']], pid=ctx.pid)
    elif s == 'app':
        from engines import warc_app
        warc_app.check_app(ctx, case['app'])
    elif s == 'processor':
        from engines import warc_app
        warc_app.check_processor(ctx, case['processor'])
    elif s == 'mixed':
        from engines import warc_client
        warc_client.check_mixed(ctx, case['mixed'], ctx.pid)
    elif s == 'client':
        from engines import warc_client
        warc_client.check_exchange(ctx, case['exchange'], ctx.pid)
    elif s == 'dedup':
        check_dedup(ctx, case['dedup'])
    elif s == 'blockpos':
        check_blockpos(ctx, case['blockpos'])
    elif s == 'ytdl':
        check_ytdl(ctx, case['ytdl'])
    elif s == 'ser':
        pass
    else:
        raise Infra('unknown replay stream %r' % s)


def run(ctx):
    for case in wc.load_corpus(ctx, PID):
        replay(ctx, case['case'] if 'case' in case else case)
    stream_nvr(ctx, ctx.scale(1500, 30000))
    stream_ser(ctx, ctx.scale(400, 6000))
    stream_offset(ctx, ctx.scale(3000, 60000))
    stream_blockpos(ctx, ctx.scale(150, 1200))
    stream_ytdl(ctx, ctx.scale(60, 400))
    stream_dedup(ctx, ctx.scale(60, 800))
    stream_readcdx(ctx, ctx.scale(1500, 20000))
    rng = ctx.rng
    stream_recorder(ctx, [wc.gen_scenario(rng) for _ in range(ctx.scale(400, 5000))])
    from engines import warc_client
    warc_client.stream_client(ctx, ctx.scale(200, 3000), PID)
    warc_client.stream_mixed(ctx, ctx.scale(150, 2000), PID)
    from engines import warc_app
    warc_app.stream_app(ctx, ctx.scale(80, 1000))
    warc_app.stream_processor(ctx, ctx.scale(80, 1000))


def search(ctx):
    rng = ctx.subrng('search')
    stream_offset(ctx, ctx.scale(3000, 20000))
    stream_recorder(ctx, [wc.gen_scenario(rng, big_p=0.3) for _ in range(ctx.scale(40, 150))])
