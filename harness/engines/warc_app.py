"""Application-level oracle streams of C05 (the recorder as the APPLICATION wires it):

  app        the real Application.run() over a PipelineSeries (download pipeline with concurrency >= 2, then the tear-down
             pipeline with the real WARCRecorderTeardownTask), real HTTP client + recorder over harness/fakenet.py; one
             worker may hit a fatal error while other workers' sessions are between two record writes.
  processor  the real WebProcessor + FetchRule + RobotsTxtChecker + WebClient + HTTP client + recorder; a size roll-over at
             the end of the robots.txt session meets a full disk (ENOSPC) in the warcinfo append of the next file; then
             more fetches.  An error that leaves the processor ends the crawl (as Application.run does).

Oracle (C05): every archive file that exists afterwards, wherever it lies, is a sequence of complete records that starts with
a warcinfo record, and every record's WARC-Warcinfo-ID names a warcinfo record of ITS file; ids unique.
No real-time sleeps: delays are counted in event-loop turns.
"""
import argparse
import asyncio
import contextlib
import io
import logging
import os
import shutil
import sys
import tempfile

import compat  # noqa: F401
import fakenet
from runner import Infra
from engines import warc_common as wc


def judge_files(directory, compress):
    """-> list of (kind, where, detail) over every archive file below `directory`"""
    fails = []
    seen = {}
    for root, dirs, files in os.walk(directory):
        for n in sorted(files):
            if not (n.endswith('.warc') or n.endswith('.warc.gz')) or n.startswith('tmp-'):
                continue
            path = os.path.join(root, n)
            rel = os.path.relpath(path, directory)
            with open(path, 'rb') as f:
                data = f.read()
            try:
                recs = wc.read_warc_file(rel, data, n.endswith('.gz'))
            except wc.Invalid as e:
                fails.append(('invalid-record-sequence', 'WARCRecord.__iter__', '%s: %s' % (rel, e)))
                continue
            if recs and recs[0].type != b'warcinfo':
                fails.append(('warcinfo-not-at-head', 'write_record', '%s starts with a %s record, not with a warcinfo record'
                              % (rel, (recs[0].type or b'?').decode('latin-1'))))
            infos = {r.id for r in recs if r.type == b'warcinfo'}
            for i, r in enumerate(recs):
                if r.get(b'WARC-Warcinfo-ID') not in infos:
                    fails.append(('warcinfo-id', 'write_record', '%s #%d (%s): WARC-Warcinfo-ID %r names no warcinfo record of this file'
                                  % (rel, i, (r.type or b'?').decode('latin-1'), r.get(b'WARC-Warcinfo-ID'))))
                    break
            for r in recs:
                if r.id in seen:
                    fails.append(('duplicate-record-id', 'set_common_fields', '%s: id %r also in %s' % (rel, r.id, seen[r.id])))
                seen[r.id] = rel
                if r.get(b'WARC-Block-Digest') is not None and r.get(b'WARC-Block-Digest') != b'sha1:' + wc.b32sha1(r.block):
                    fails.append(('block-digest', 'compute_checksum', '%s: %s record' % (rel, r.type)))
                pd = r.get(b'WARC-Payload-Digest')
                if pd is not None and r.type in (b'request', b'response'):
                    # the payload is what follows the first empty line of the block (recomputed from the block alone)
                    import re as _re
                    m = _re.search(rb'\n\r?\n', r.block)
                    end = m.end() if m else len(r.block)
                    if pd != b'sha1:' + wc.b32sha1(r.block[end:]):
                        fails.append(('payload-digest', 'end_request' if r.type == b'request' else 'end_response',
                                      '%s: %s record for %r: WARC-Payload-Digest is not the SHA-1 of the %d bytes after the first empty '
                                      'line of the block (header block %d bytes: %r)'
                                      % (rel, r.type.decode(), r.get(b'WARC-Target-URI'), len(r.block) - end, end, r.block[:end][-60:])))
    return fails


@contextlib.contextmanager
def quiet():
    old_err = sys.stderr
    logging.disable(logging.CRITICAL)
    sys.stderr = io.StringIO()
    try:
        yield
    finally:
        sys.stderr = old_err
        logging.disable(logging.NOTSET)


async def turns(n):
    for _ in range(n):
        await asyncio.sleep(0)


# ------------------------------------------------------------------------------------------------ app
def gen_app(rng):
    n = rng.choice([1, 2, 3])
    case = {'compress': rng.random() < 0.4, 'log': rng.random() < 0.4, 'move': rng.random() < 0.75,
            'max_size': rng.choice([None, None, 0, 600]), 'cdx': rng.random() < 0.5,
            'concurrency': rng.choice([2, 2, 3]), 'crash': rng.random() < 0.8, 'crash_after': rng.choice([2, 5, 20]),
            'slow': [{'delay': rng.choice([40, 80, 150, 400]), 'body': rng.choice([0, 5, 3000])} for _ in range(n)],
            'fast': rng.choice([0, 1, 2]), 'teardown_turns': rng.choice([300, 600])}
    if rng.random() < 0.4:
        # a GRACEFUL stop (quota reached / one Ctrl+C / Application.stop) while several items are still being fetched
        n = rng.choice([2, 3])
        case.update(crash=False, stop=True, concurrency=n + rng.choice([1, 2]),
                    slow=[{'delay': d, 'body': rng.choice([0, 5, 3000])} for d in rng.sample([30, 60, 120, 250, 450], n)],
                    fast=rng.choice([0, 1]), teardown_turns=700)
    return case


def run_app(case):
    from wpull.application.app import Application
    from wpull.application.factory import Factory
    from wpull.application.tasks.warc import WARCRecorderTeardownTask
    from wpull.pipeline.app import AppSession, AppSource
    from wpull.pipeline.pipeline import Pipeline, PipelineSeries, ItemSource, ItemTask
    from wpull.protocol.http.client import Client
    from wpull.protocol.http.request import Request
    from wpull.network.pool import ConnectionPool
    from wpull.warc.recorder import WARCRecorder, WARCRecorderParams
    base = os.environ.get('TMPDIR') or tempfile.gettempdir()
    work = tempfile.mkdtemp(prefix='wpull-verif-warca-', dir=base)
    os.mkdir(os.path.join(work, 'done'))
    delays = {}
    items = []
    for i, sl in enumerate(case['slow']):
        items.append('http://h:%d/slow%d' % (8100 + i, i))
        delays[8100 + i] = (sl['delay'], sl['body'])
    if case['crash']:
        items.insert(min(1, len(items)), 'http://h:9/crash')
    if case.get('stop'):
        items.insert(len(case['slow']), 'http://h:9/stop')
    holder = {}
    for i in range(case['fast']):
        items.append('http://h:%d/fast%d' % (8200 + i, i))
        delays[8200 + i] = (1, 7)

    class Srv:
        def __init__(self, port):
            self.port = port
            self.buf = b''
            self.done = False

        def on_write(self, conn, data):
            self.buf += data
            if not self.done and b'\r\n\r\n' in self.buf:
                self.done = True
                asyncio.ensure_future(self.respond(conn))

        async def respond(self, conn):
            delay, n = delays[self.port]
            await turns(delay)
            body = bytes((i * 7) % 251 for i in range(n))
            conn.send(b'HTTP/1.1 200 OK\r\nContent-Type: text/plain\r\nContent-Length: %d\r\nConnection: close\r\n\r\n' % n + body)
            conn.close()

    class Source(ItemSource):
        def __init__(self, urls):
            self.urls = list(urls)

        @asyncio.coroutine
        def get_item(self):
            return self.urls.pop(0) if self.urls else None

    state = {}

    async def go():
        net = fakenet.FakeNet()
        for port in delays:
            net.listen('10.0.0.1', port, (lambda port=port: Srv(port)))
        with net:
            factory = Factory({'WARCRecorder': WARCRecorder})
            factory.new('WARCRecorder', os.path.join(work, 'crawl'), params=WARCRecorderParams(
                compress=case['compress'], log=case['log'], temp_dir=work, cdx=case['cdx'], max_size=case['max_size'],
                move_to=os.path.join(work, 'done') if case['move'] else None))
            client = Client(connection_pool=ConnectionPool(resolver=fakenet.FakeResolver()))
            factory['WARCRecorder'].listen_to_http_client(client)

            class FetchTask(ItemTask):
                """stands for ProcessTask: fetches the URL; one URL meets a bug in a scraper / plug-in"""
                @asyncio.coroutine
                def process(self, url):
                    if url.endswith('/crash'):
                        yield from turns(case['crash_after'])
                        raise ValueError('bug in a scraper/plugin')
                    if url.endswith('/stop'):
                        yield from turns(case['crash_after'])
                        holder['app'].stop()        # as the quota check / the first Ctrl+C does
                        return
                    with client.session() as session:
                        yield from session.start(Request(url))
                        yield from session.download(io.BytesIO())

            class SlowTeardownTask(ItemTask):
                """stands for the rest of the tear-down (cookie jar, log files)"""
                @asyncio.coroutine
                def process(self, session):
                    yield from turns(case['teardown_turns'])
            app_session = AppSession(factory, argparse.Namespace(directory_prefix=work), io.StringIO())
            download = Pipeline(Source(items), [FetchTask()])
            download.skippable = True
            app_stop = Pipeline(AppSource(app_session), [WARCRecorderTeardownTask(), SlowTeardownTask()])
            series = PipelineSeries([download, app_stop])
            series.concurrency_pipelines.add(download)
            series.concurrency = case['concurrency']
            app = Application(series)
            holder['app'] = app
            state['exit'] = await compat._ensure(app.run())
            # Application.run_sync(): stop the loop, let the ready callbacks run once more
            await turns(3)
    try:
        with quiet():
            compat.run(go())
    except BaseException:
        shutil.rmtree(work, ignore_errors=True)
        raise
    return work, state


def check_app(ctx, case):
    work = None
    try:
        work, state = run_app(case)
        fails = judge_files(work, case['compress'])
        if case['crash'] and state.get('exit') in (0, None):
            fails.append(('fatal-error-lost', 'Application.run', 'the fatal error of a worker did not end the crawl with an error status'))
        moved = len([n for n in os.listdir(os.path.join(work, 'done'))])
    finally:
        if work:
            shutil.rmtree(work, ignore_errors=True)
    ctx.case(('app', repr(case)), tags=['app:%s:%s' % ('crash' if case['crash'] else 'graceful-stop' if case.get('stop') else 'normal',
                                                        'move' if case['move'] else 'stay'),
                                          'app:moved-files=%d' % min(moved, 3)])
    for kind, where, detail in fails:
        ctx.fail(kind, where, {'stream': 'app', 'app': case}, detail + ' [real Application + pipelines, crash=%s stop=%s move=%s]' % (case['crash'], bool(case.get('stop')), case['move']))


def stream_app(ctx, n):
    rng = ctx.subrng('app')
    cases = [gen_app(rng) for _ in range(n)]
    for c in cases:
        check_app(ctx, c)
    if cases:
        ctx.sample({'stream': 'app', 'case': cases[0]})


# ------------------------------------------------------------------------------------------------ processor
ROBOTS_BODY = b'User-agent: *\nDisallow: /private\n'


def gen_processor(rng):
    return {'compress': rng.random() < 0.4, 'max_size': rng.choice([0, 200, 300, 300, 1200, None]), 'log': rng.random() < 0.3,
            'urls': rng.choice([2, 3, 4]), 'fault_nth': rng.choice([0, 0, 0, 1, None]), 'prefix': rng.choice(['half', 'zero', 'open']),
            'rawwrite': rng.choice([1, 1, 2]), 'same_host': rng.random() < 0.3,
            # Basic credentials in the URL (user:password@host): the WebClient adds an Authorization field
            'userinfo': rng.choice([None, None, 'user:pass', 'u:' + 'p' * 60, 'me%40site:s3cr%3At'])}


def run_processor(case):
    from unittest import mock
    from wpull.processor.rule import FetchRule, ResultRule
    from wpull.processor.web import WebProcessor, WebProcessorFetchParams
    from wpull.protocol.http.client import Client
    from wpull.protocol.http.robots import RobotsTxtChecker
    from wpull.protocol.http.web import WebClient
    from wpull.network.pool import ConnectionPool
    from wpull.stats import Statistics
    from wpull.url import URLInfo
    from wpull.urlfilter import DemuxURLFilter
    from wpull.waiter import LinearWaiter
    from wpull.warc.recorder import WARCRecorder, WARCRecorderParams
    from wpull.writer import NullWriter
    base = os.environ.get('TMPDIR') or tempfile.gettempdir()
    work = tempfile.mkdtemp(prefix='wpull-verif-warcp-', dir=base)
    state = {'fatal': None, 'done': 0}

    class Srv:
        def __init__(self):
            self.buf = b''

        def on_write(self, conn, data):
            self.buf += data
            while b'\r\n\r\n' in self.buf:
                head, _, self.buf = self.buf.partition(b'\r\n\r\n')
                body = ROBOTS_BODY if b'robots.txt' in head.split(b'\r\n')[0] else b'<html>page</html>'
                ctype = b'text/plain' if body is ROBOTS_BODY else b'text/html'
                conn.send(b'HTTP/1.1 200 OK\r\nContent-Type: %s\r\nContent-Length: %d\r\nConnection: close\r\n\r\n' % (ctype, len(body)) + body)
                conn.close()

    def new_item_session(url, factory):
        item_session = mock.MagicMock()
        item_session.app_session.factory = factory
        item_session.app_session.root_path = work
        item_session.url_record.url = url
        item_session.url_record.url_info = URLInfo.parse(url)
        item_session.url_record.parent_url = None
        item_session.url_record.post_data = None
        return item_session
    spec = None
    if case['fault_nth'] is not None:
        spec = {'mode': 'fail', 'at': 'new-file', 'nth': case['fault_nth'], 'rawwrite': case['rawwrite'], 'prefix': case['prefix']}
    fault = wc.ArchiveFault(work, spec) if spec else None

    async def go():
        net = fakenet.FakeNet()
        net.default = Srv
        with net:
            recorder = WARCRecorder(os.path.join(work, 'crawl'), WARCRecorderParams(
                compress=case['compress'], log=case['log'], temp_dir=work, max_size=case['max_size']))
            if fault:
                fault.armed = True
            http_client = Client(connection_pool=ConnectionPool(resolver=fakenet.FakeResolver()))
            recorder.listen_to_http_client(http_client)
            web_client = WebClient(http_client)
            fetch_rule = FetchRule(url_filter=DemuxURLFilter([]), robots_txt_checker=RobotsTxtChecker(web_client=web_client))
            factory = {'WebClient': web_client, 'FetchRule': fetch_rule, 'FileWriter': NullWriter(),
                       'ResultRule': ResultRule(waiter=LinearWaiter(), statistics=Statistics()),
                       'ProcessingRule': mock.MagicMock()}
            processor = WebProcessor(web_client, WebProcessorFetchParams())
            for i in range(case['urls']):
                host = 'h0' if case['same_host'] else 'h%d' % i
                url = 'http://%s%s:%d/page%d' % (case['userinfo'] + '@' if case.get('userinfo') else '', host,
                                                   8000 + (0 if case['same_host'] else i), i)
                try:
                    await compat._ensure(processor.process(new_item_session(url, factory)))
                    state['done'] += 1
                except OSError as e:
                    # Application.run(): an error that leaves the processor is fatal, the crawl ends (no tear-down)
                    state['fatal'] = '%s: %s' % (type(e).__name__, e)
                    return
            try:
                recorder.close()
            except OSError as e:
                # the fault met the -meta file's warcinfo append inside close(): the tear-down fails with that error
                state['fatal'] = 'close(): %s: %s' % (type(e).__name__, e)
    cwd = os.getcwd()
    if fault:
        fault.install()
    try:
        os.chdir(work)
        with quiet():
            compat.run(go())
    except BaseException:
        shutil.rmtree(work, ignore_errors=True)
        raise
    finally:
        os.chdir(cwd)
        if fault:
            fault.uninstall()
    state['fired'] = bool(fault and fault.fired)
    return work, state


def check_processor(ctx, case):
    work = None
    try:
        work, state = run_processor(case)
        fails = judge_files(work, case['compress'])
    finally:
        if work:
            shutil.rmtree(work, ignore_errors=True)
    ctx.case(('processor', repr(case)), tags=['processor:%s:%s' % ('fault-fired' if state['fired'] else 'no-fault',
                                                                   'crawl-ended' if state['fatal'] else 'crawl-went-on')] +
             (['processor:basic-credentials'] if case.get('userinfo') else []))
    for kind, where, detail in fails:
        ctx.fail(kind, where, {'stream': 'processor', 'processor': case},
                 detail + ' [real WebProcessor + robots.txt fetch; roll-over fault fired=%s; crawl %s]'
                 % (state['fired'], 'ended by ' + state['fatal'] if state['fatal'] else 'went on'))


def stream_processor(ctx, n):
    rng = ctx.subrng('processor')
    cases = [gen_processor(rng) for _ in range(n)]
    for c in cases:
        check_processor(ctx, c)
    if cases:
        ctx.sample({'stream': 'processor', 'case': cases[0]})
