"""Shared machinery of the HttpWire engine (properties C08 and C04).

* real-code adapters: the REAL wpull `Stream.read_response` / `read_body` over
  `fakenet` with every `Connection.read(n)` / `readline()` logged; the REAL
  `Client` / `Session` (+ optionally the REAL `WARCRecorder`) against a reactive
  in-memory server (response k+1 is sent only after request k+1 arrived);
* an independent RFC 7230 reference decoder (the oracle's yardstick);
* an independent strict WARC reader;
* the message grammar / truncation / segmentation generators;
* the line protocol spoken with the Lean model (`wpullmodel http ...`).
"""
import asyncio
import gzip as gzip_mod
import io
import os
import zlib

import compat  # noqa: F401
import fakenet
from runner import enc, Infra


# ------------------------------------------------------------------ misc
def arun(coro):
    return compat.run(coro)


def classify_exc(e):
    import wpull.errors as we
    for cls, name in ((we.NetworkTimedOut, 'NetworkTimedOut'), (we.ProtocolError, 'ProtocolError'),
                      (we.NetworkError, 'NetworkError'),
                      (UnicodeEncodeError, 'UnicodeEncodeError'), (UnicodeDecodeError, 'UnicodeDecodeError'),
                      (AssertionError, 'AssertionError'), (ValueError, 'ValueError'),
                      (AttributeError, 'AttributeError'), (TypeError, 'TypeError'), (KeyError, 'KeyError'),
                      (IndexError, 'IndexError'), (OverflowError, 'OverflowError'), (OSError, 'OSError')):
        if isinstance(e, cls):
            return name
    return type(e).__name__


class _Passive:
    """handler without behaviour; the test body feeds the connection"""


def enc_segs(segs):
    return '~' if not segs else '/'.join(enc(s) for s in segs)


# ------------------------------------------------------------------ stream level (co-simulation)
class Exchange:
    """Canonical record of one response read by the real code (or by the model)."""
    __slots__ = ('outcome', 'status', 'fields', 'body', 'exc', 'consumed', 'closed', 'notified',
                 'calls', 'declog', 'at_eof')

    def key(self):
        return (self.outcome, self.status, tuple(self.fields or ()), self.body, self.exc)


def real_stream_exchange(segs, eof, method='GET', version='HTTP/1.1', keep_alive=True, ignore_length=False):
    """Run Stream.read_response + read_body of the real code over a segmented feed."""
    from wpull.network.connection import Connection
    from wpull.protocol.http.stream import Stream
    from wpull.protocol.http.request import Request

    async def go():
        net = fakenet.FakeNet()
        net.default = _Passive
        with net:
            conn = Connection(('10.0.0.1', 80), 'h')
            await compat._ensure(conn.connect())
            fc = net.conns[-1]
            calls = []
            orig_read, orig_readline = conn.read, conn.readline

            def read(amount=-1):
                data = yield from orig_read(amount)
                calls.append(('r', amount, bytes(data)))
                return data

            def readline():
                data = yield from orig_readline()
                calls.append(('l', 0, bytes(data)))
                return data
            conn.read = asyncio.coroutine(read)
            conn.readline = asyncio.coroutine(readline)
            stream = Stream(conn, keep_alive=keep_alive, ignore_length=ignore_length)
            notified = []
            stream.data_event_dispatcher.add_read_listener(lambda d: notified.append(bytes(d)))
            declog = []
            o_dec, o_flush = stream._decompress_data, stream._flush_decompressor

            def dec(data):
                if stream._decompressor is None:
                    return o_dec(data)
                try:
                    out = o_dec(data)
                except Exception as e:
                    declog.append(('exc', classify_exc(e)))
                    raise
                declog.append(('ok', bytes(out)))
                return out

            def flush():
                if stream._decompressor is None:
                    return o_flush()
                try:
                    out = o_flush()
                except Exception as e:
                    declog.append(('exc', classify_exc(e)))
                    raise
                declog.append(('ok', bytes(out)))
                return out
            stream._decompress_data = dec
            stream._flush_decompressor = flush
            request = Request('http://h/', method=method, version=version)
            out = io.BytesIO()
            box = {}

            async def client():
                response = await compat._ensure(stream.read_response())
                box['response'] = response
                await compat._ensure(stream.read_body(request, response, file=out))
                return response
            feeder = asyncio.ensure_future(fc.send_segments(segs, eof=eof))
            task = asyncio.ensure_future(client())
            done = await fakenet.settle(task, [feeder])
            x = Exchange()
            x.status = x.fields = x.body = x.exc = None
            if not done:
                task.cancel()
                try:
                    await task
                except BaseException:
                    pass
                x.outcome = 'stalled'
            else:
                try:
                    response = task.result()
                    x.outcome = 'ok'
                    x.status = (response.version, response.status_code, response.reason)
                    x.fields = [(n, v) for n, v in response.fields.get_all()]
                    x.body = out.getvalue()
                except Exception as e:
                    x.outcome = 'exc'
                    x.exc = classify_exc(e)
            if not feeder.done():
                await feeder
            x.consumed = len(fc.sent) - len(fc.reader._buffer)
            x.closed = fc.client_closed
            x.at_eof = fc.reader.at_eof()
            x.notified = notified
            x.calls = calls
            x.declog = declog
            return x
    return arun(go())


def fmt_exchange(x):
    """Canonical text of an Exchange; the Lean driver prints the same format."""
    if x.outcome == 'ok':
        flat = []
        for n, v in x.fields:
            flat.append(enc(n))
            flat.append(enc(v))
        head = 'ok %s %d %s %s %s' % (enc(x.status[0]), x.status[1], enc(x.status[2]),
                                     '~' if not flat else '/'.join(flat), enc(x.body))
    elif x.outcome == 'exc':
        head = 'exc ' + x.exc
    else:
        head = x.outcome
    calls = ','.join(('r%d:%s' % (n, enc(d))) if k == 'r' else ('l:' + enc(d)) for k, n, d in x.calls) or '~'
    return '%s | %d %s | %s | %s' % (head, x.consumed, 'T' if x.closed else 'F', enc(b''.join(x.notified)), calls)


def enc_segs_keep(segs):
    """list of byte strings, empty ones kept"""
    return '~' if not segs else '/'.join(enc(s) for s in segs)


def model_line(data, eof, sched, declog, method='GET', version='HTTP/1.1', keep_alive=True, ignore_length=False):
    dl = ','.join(('o' + enc(v)) if k == 'ok' else ('e' + v) for k, v in declog) or '~'
    return 'http decode %s %s %s %s %s %s %s %s' % (
        enc(method), enc(version), 'T' if keep_alive else 'F', 'T' if ignore_length else 'F',
        'T' if eof else 'F', enc(data), '-' if not sched else '.'.join('%x' % s for s in sched), dl)


def sched_of(calls):
    """The schedule the model needs to reproduce the logged run: for each non-empty
    `read(n)` result of k bytes the choice k-1 (model: k = 1 + s mod min(n, avail))."""
    return [len(d) - 1 for k, n, d in calls if k == 'r' and len(d) > 0]
