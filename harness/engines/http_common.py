"""Shared machinery of the HttpWire engine (properties C08 and C04).

* real-code adapters: the REAL wpull `Stream.read_response` / `read_body` over
  `fakenet` with every `Connection.read(n)` / `readline()` logged; the REAL
  `Client` / `Session` (+ optionally the REAL `WARCRecorder`) against a reactive
  in-memory server (response k+1 is sent only after request k+1 arrived);
* an independent RFC 7230 reference decoder (the oracle's yardstick);
* an independent strict WARC reader;
* the message grammar / truncation / segmentation generators;
* the line protocol spoken with the Lean model (`wpullmodel http ...`).
"""
import asyncio
import gzip as gzip_mod
import io
import os
import zlib

import logging

import compat  # noqa: F401
import fakenet
from runner import enc, Infra

logging.getLogger('wpull').setLevel(logging.CRITICAL)


# ------------------------------------------------------------------ misc
def arun(coro):
    return compat.run(coro)


def classify_exc(e):
    import wpull.errors as we
    for cls, name in ((we.NetworkTimedOut, 'NetworkTimedOut'), (we.ProtocolError, 'ProtocolError'),
                      (we.NetworkError, 'NetworkError'),
                      (UnicodeEncodeError, 'UnicodeEncodeError'), (UnicodeDecodeError, 'UnicodeDecodeError'),
                      (AssertionError, 'AssertionError'), (ValueError, 'ValueError'),
                      (AttributeError, 'AttributeError'), (TypeError, 'TypeError'), (KeyError, 'KeyError'),
                      (IndexError, 'IndexError'), (OverflowError, 'OverflowError'), (OSError, 'OSError')):
        if isinstance(e, cls):
            return name
    return type(e).__name__


class _Passive:
    """handler without behaviour; the test body feeds the connection"""


def enc_segs(segs):
    return '~' if not segs else '/'.join(enc(s) for s in segs)


# ------------------------------------------------------------------ stream level (co-simulation)
class Exchange:
    """Canonical record of one response read by the real code (or by the model)."""
    __slots__ = ('outcome', 'status', 'fields', 'body', 'exc', 'consumed', 'closed', 'notified',
                 'calls', 'declog', 'at_eof', 'fileinfo')

    def key(self):
        return (self.outcome, self.status, tuple(self.fields or ()), self.body, self.exc)


def real_stream_exchange(segs, eof, method='GET', version='HTTP/1.1', keep_alive=True, ignore_length=False):
    """Run Stream.read_response + read_body of the real code over a segmented feed."""
    from wpull.network.connection import Connection
    from wpull.protocol.http.stream import Stream
    from wpull.protocol.http.request import Request

    async def go():
        net = fakenet.FakeNet()
        net.default = _Passive
        with net:
            conn = Connection(('10.0.0.1', 80), 'h')
            await compat._ensure(conn.connect())
            fc = net.conns[-1]
            calls = []
            orig_read, orig_readline = conn.read, conn.readline

            def read(amount=-1):
                data = yield from orig_read(amount)
                calls.append(('r', amount, bytes(data)))
                return data

            def readline():
                data = yield from orig_readline()
                calls.append(('l', 0, bytes(data)))
                return data
            conn.read = asyncio.coroutine(read)
            conn.readline = asyncio.coroutine(readline)
            stream = Stream(conn, keep_alive=keep_alive, ignore_length=ignore_length)
            notified = []
            stream.data_event_dispatcher.add_read_listener(lambda d: notified.append(bytes(d)))
            declog = []
            o_dec, o_flush = stream._decompress_data, stream._flush_decompressor

            def dec(data):
                if stream._decompressor is None:
                    return o_dec(data)
                try:
                    out = o_dec(data)
                except Exception as e:
                    declog.append(('exc', classify_exc(e)))
                    raise
                declog.append(('ok', bytes(out)))
                return out

            def flush():
                if stream._decompressor is None:
                    return o_flush()
                try:
                    out = o_flush()
                except Exception as e:
                    declog.append(('exc', classify_exc(e)))
                    raise
                declog.append(('ok', bytes(out)))
                return out
            stream._decompress_data = dec
            stream._flush_decompressor = flush
            request = Request('http://h/', method=method, version=version)
            out = io.BytesIO()
            box = {}

            async def client():
                response = await compat._ensure(stream.read_response())
                box['response'] = response
                await compat._ensure(stream.read_body(request, response, file=out))
                return response
            feeder = asyncio.ensure_future(fc.send_segments(segs, eof=eof))
            task = asyncio.ensure_future(client())
            done = await fakenet.settle(task, [feeder])
            x = Exchange()
            x.status = x.fields = x.body = x.exc = None
            if not done:
                task.cancel()
                try:
                    await task
                except BaseException:
                    pass
                x.outcome = 'stalled'
            else:
                try:
                    response = task.result()
                    x.outcome = 'ok'
                    x.status = (response.version, response.status_code, response.reason)
                    x.fields = [(n, v) for n, v in response.fields.get_all()]
                    x.body = out.getvalue()
                except Exception as e:
                    x.outcome = 'exc'
                    x.exc = classify_exc(e)
            if not feeder.done():
                await feeder
            x.consumed = len(fc.sent) - len(fc.reader._buffer)
            x.closed = fc.client_closed
            x.at_eof = fc.reader.at_eof()
            x.notified = notified
            x.calls = calls
            x.declog = declog
            return x
    return arun(go())


def fmt_exchange(x):
    """Canonical text of an Exchange; the Lean driver prints the same format."""
    if x.outcome == 'ok':
        flat = []
        for n, v in x.fields:
            flat.append(enc(n))
            flat.append(enc(v))
        head = 'ok %s %d %s %s %s' % (enc(x.status[0]), x.status[1], enc(x.status[2]),
                                     '~' if not flat else '/'.join(flat), enc(x.body))
    elif x.outcome == 'exc':
        head = 'exc ' + x.exc
    else:
        head = x.outcome
    calls = ','.join(('r%d:%s' % (n, enc(d))) if k == 'r' else ('l:' + enc(d)) for k, n, d in x.calls) or '~'
    consumed = '-' if x.outcome == 'exc' else '%d' % x.consumed
    return '%s | %s %s | %s | %s' % (head, consumed, 'T' if x.closed else 'F', enc(b''.join(x.notified)), calls)


def enc_segs_keep(segs):
    """list of byte strings, empty ones kept"""
    return '~' if not segs else '/'.join(enc(s) for s in segs)


def model_line(data, eof, sched, declog, method='GET', version='HTTP/1.1', keep_alive=True, ignore_length=False):
    dl = ','.join(('o' + enc(v)) if k == 'ok' else ('e' + v) for k, v in declog) or '~'
    return 'http decode %s %s %s %s %s %s %s %s' % (
        enc(method), enc(version), 'T' if keep_alive else 'F', 'T' if ignore_length else 'F',
        'R' if eof == 'reset' else 'T' if eof else 'F', enc(data), '-' if not sched else '.'.join('%x' % s for s in sched), dl)


def sched_of(calls):
    """The schedule the model needs to reproduce the logged run: for each non-empty
    `read(n)` result of k bytes the choice k-1 (model: k = 1 + s mod min(n, avail))."""
    return [len(d) - 1 for k, n, d in calls if k == 'r' and len(d) > 0]


# ------------------------------------------------------------------ message grammar
class Msg:
    """A generated response: the bytes plus what the (harness) server *meant*."""
    __slots__ = ('head', 'payload', 'framed', 'surplus', 'method', 'version', 'code', 'framing',
                 'wf', 'coding', 'conn_close', 'tags')

    @property
    def message(self):
        return self.head + self.framed

    @property
    def data(self):
        return self.head + self.framed + self.surplus

    def case(self):
        return {'head': self.head, 'framed': self.framed, 'surplus': self.surplus, 'payload': self.payload,
                'method': self.method, 'version': self.version, 'code': self.code, 'framing': self.framing,
                'wf': self.wf, 'coding': self.coding, 'conn_close': self.conn_close, 'tags': list(self.tags or [])}

    @staticmethod
    def from_case(c):
        m = Msg()
        for k in ('head', 'framed', 'surplus', 'payload', 'method', 'version', 'code', 'framing', 'wf', 'coding',
                  'conn_close'):
            setattr(m, k, c[k])
        m.tags = list(c.get('tags') or [])
        return m


def spell(rng, name):
    r = rng.random()
    if r < 0.4:
        return name
    if r < 0.6:
        return name.lower()
    if r < 0.75:
        return name.upper()
    return b''.join(bytes([c]).upper() if rng.random() < 0.5 else bytes([c]).lower() for c in name)


def rand_body(rng, n=None):
    if n is None:
        n = rng.choice([0, 0, 1, 2, 3, 5, 8, 13, 40, 40, 300, 4095, 4096, 4097, 5000, 9000])
    kind = rng.random()
    if kind < 0.5:
        return bytes(rng.choice(b'abcxyz \r\n0123456789:;') for _ in range(n))
    if kind < 0.6:
        return (b'HTTP/1.1 200 OK\r\nContent-Length: 1\r\n\r\nZ' * (n // 40 + 1))[:n]
    return bytes(rng.randrange(256) for _ in range(n)) if n < 400 else os.urandom(0) + bytes(rng.getrandbits(8) for _ in range(n))


def chunk_encode(rng, payload, wf=True):
    out = []
    pos = 0
    eol = rng.choice([b'\r\n', b'\r\n', b'\r\n', b'\n'])
    while pos < len(payload):
        n = rng.choice([1, 1, 2, 3, 7, 16, 100, 4096, 5000, 100000])
        piece = payload[pos:pos + n]
        pos += len(piece)
        size = rng.choice(['%x', '%x', '%X', '0%x', '000%x']) % len(piece)
        r = rng.random()
        if r < 0.08:
            size = rng.choice(['0x', '0X']) + size
        elif r < 0.12:
            size = '+' + size
        elif r < 0.16:
            size = ' ' + size + ' '
        ext = rng.choice([b'', b'', b'', b';x', b';name=value', b' ; a="b;c"', b';'])
        out.append(size.encode() + ext + eol + piece + eol)
    last = rng.choice([b'0', b'0', b'00', b'0;last', b'-0', b'0x0'])
    out.append(last + eol)
    k = rng.choice([0, 0, 0, 1, 2])
    for i in range(k):
        out.append(rng.choice([b'X-Trailer: v%d', b'x-sum:%d', b'Content-MD5 : abc%d']) % i + eol)
    out.append(eol)
    return b''.join(out)


HEADER_NOISE = [b'Server: x', b'X-A: 1', b'X-A: 2', b'Set-Cookie: a=b; c', b'Date: Mon, 01 Jan 2001 00:00:00 GMT',
                b'X-Fold: a\r\n b\r\n\tc', b'X-Empty:', b'X-Sp :  v  ', b'x-\xe9\xdf\xff\xb5: \xe9\x85q', b'X-Vt: a\x0bb',
                b'X-Colon: a:b:c', b'x1y-2z: q', b"o'neil-x: 1", b'X-Fs: a\x1cb: c']


# whitespace-only header lines: not empty, so they do not end the header block (an empty folded
# continuation, stray blanks); Stream.read_response and the field parser read past them
WS_LINES = [b' ', b'\t', b'  \t ', b'\x0b', b'\x0c ', b' \r', b' \x0b\t']


def raw_deflate(data):
    c = zlib.compressobj(9, zlib.DEFLATED, -15)
    return c.compress(data) + c.flush()


def fold_field(rng, name, colon, value, eol):
    """A framing field, sometimes written with obs-fold (RFC 7230 3.2.4): the value, or its
    tail, on a continuation line that starts with SP or HTAB."""
    r = rng.random()
    if r < 0.10:
        return name + b':' + eol + rng.choice([b' ', b'\t', b'\t', b'\t ', b'  ']) + value
    if r < 0.16 and b',' in value:
        k = value.find(b',') + 1        # fold between list elements only: unfolding inserts a space
        return name + colon + value[:k] + eol + rng.choice([b' ', b'\t', b'\t']) + value[k:]
    return name + colon + value


def gen_message(rng, allow_malformed=True):
    """One response message.  `wf` = within the adjudicated domain where the harness
    knows what the server meant (status code, framing, payload, message length)."""
    m = Msg()
    m.tags = []
    m.wf = True
    m.method = 'HEAD' if rng.random() < 0.08 else rng.choice(['GET', 'GET', 'GET', 'POST', 'get'])
    if m.method == 'get':
        m.method = 'GET'
    m.version = 'HTTP/1.0' if rng.random() < 0.12 else 'HTTP/1.1'
    # the status code is a dimension of its own: the common ones, every code the no-body rule or
    # its neighbours concern (1xx, 204, 205, 304 and what lies next to them), and any code 100..599
    r = rng.random()
    if r < 0.35:
        m.code = 200
    elif r < 0.8:
        m.code = rng.choice([201, 202, 203, 204, 204, 205, 205, 206, 300, 301, 302, 303, 304, 304, 305, 307, 400, 401, 404,
                             410, 416, 500, 502, 503, 100, 101, 102, 199])
    else:
        m.code = rng.randrange(100, 600)
    sv = rng.choice([b'HTTP/1.1', b'HTTP/1.1', b'HTTP/1.0', b'HTTP/1.1', b'HTTP/2.0', b'HTTP/12.34'])
    sep1 = rng.choice([b' ', b' ', b' ', b'  ', b'\t'])
    sep2 = rng.choice([b' ', b' ', b'', b'  ', b'\t'])
    reason = rng.choice([b'OK', b'Not Found', b'', b'Weird \xe9 reason', b'A  B', b'x'])
    eol = rng.choice([b'\r\n', b'\r\n', b'\r\n', b'\r\n', b'\n'])
    status = sv + sep1 + b'%d' % m.code + sep2 + reason
    if sep2 == b'' and reason[:1].isdigit():
        reason = b'OK'
        status = sv + sep1 + b'%d' % m.code + reason
    headers = []
    for _ in range(rng.choice([0, 0, 1, 2, 3])):
        headers.append(rng.choice(HEADER_NOISE))
    if rng.random() < 0.2:
        for _ in range(rng.choice([1, 1, 2])):
            headers.append(rng.choice(WS_LINES))
        m.tags.append('ws-line')
    nobody = m.method == 'HEAD' or 100 <= m.code < 200 or m.code in (204, 304)
    payload = rand_body(rng)
    m.coding = None
    if rng.random() < 0.15 and not nobody:
        m.coding = rng.choice(['gzip', 'deflate', 'raw-deflate', 'gzip-bad'])
        plain = payload
        if m.coding == 'gzip':
            payload = gzip_mod.compress(plain)
        elif m.coding == 'deflate':
            payload = zlib.compress(plain)
        elif m.coding == 'raw-deflate':
            payload = raw_deflate(plain)
        else:
            payload = b'\x1f\x8b' + plain
        headers.append(spell(rng, b'Content-Encoding') + b': ' + rng.choice([b'gzip', b'GZip']) if m.coding in ('gzip', 'gzip-bad')
                       else spell(rng, b'Content-Encoding') + b': ' + rng.choice([b'deflate', b'Deflate']))
    framing = rng.choice(['length', 'length', 'length', 'chunked', 'chunked', 'chunked', 'close', 'badlength', 'both'])
    m.conn_close = None
    r = rng.random()
    if r < 0.15:
        headers.append(fold_field(rng, spell(rng, b'Connection'), b': ', rng.choice([b'close', b'Close', b'CLOSE']), eol))
        m.conn_close = True
    elif r < 0.25:
        headers.append(b'Connection: ' + rng.choice([b'keep-alive', b'Keep-Alive', b'keepalive']))
        m.conn_close = False
    elif r < 0.28:
        headers.append(b'Connection: ' + rng.choice([b'closed', b'keep', b'close, TE']))
        m.conn_close = 'odd'
    colon = rng.choice([b': ', b': ', b':', b' : ', b':\t'])
    if framing == 'length':
        cl = b'%d' % len(payload)
        if rng.random() < 0.1:
            cl = rng.choice([b'+', b'0', b'00']) + cl
        headers.append(fold_field(rng, spell(rng, b'Content-Length'), colon, cl, eol))
        if rng.random() < 0.06:
            headers.append(b'Content-Length: %d' % (len(payload) + 7))  # duplicate, the first one counts
            m.wf = False
        framed = payload
    elif framing == 'chunked':
        te = rng.choice([b'chunked', b'chunked', b'Chunked', b'CHUNKED', b'gzip, chunked', b'chunked;q=1',
                         b'identity,chunked', b' chunked ', b'x , Chunked'])
        if te in (b'gzip, chunked', b'x , Chunked', b'identity,chunked'):
            m.tags.append('te-list')
        headers.append(fold_field(rng, spell(rng, b'Transfer-Encoding'), colon, te, eol))
        framed = chunk_encode(rng, payload)
    elif framing == 'both':
        headers.append(b'Content-Length: %d' % rng.choice([0, 3, len(payload), 10 ** 6]))
        headers.append(b'Transfer-Encoding: chunked')
        rng.shuffle(headers)
        framed = chunk_encode(rng, payload)
        framing = 'chunked'
    elif framing == 'badlength':
        headers.append(b'Content-Length' + colon + rng.choice([b'abc', b'-5', b'', b'1 0', b'0x10', b'1__0', b'_1', b'5;',
                                                              b'\xb2', b'1' * 4301, b'--1', b'1.0']))
        framed = payload
        framing = 'close'
        m.wf = False       # what an unparsable length means is not fixed by the property; the model says: until close
        m.tags.append('badlength')
    else:
        framed = payload
        if rng.random() < 0.3:
            headers.append(b'Transfer-Encoding: ' + rng.choice([b'identity', b'gzip', b'chunked, gzip', b'chunkedx', b'']))
            m.wf = False
    if nobody:
        # protocol forbids a body: the framing headers stay, nothing follows the head
        framed = b''
        payload = b''
        framing = 'none'
        m.coding = None
    rng.shuffle(headers)
    m.head = status + eol + b''.join(h + eol for h in headers) + eol
    m.payload = payload
    m.framed = framed
    m.framing = framing
    m.surplus = b''
    if allow_malformed and rng.random() < 0.07:
        # malformed head / framing: no expectation beyond co-simulation and segmentation independence
        m.wf = False
        b = bytearray(m.head + m.framed)
        for _ in range(rng.randrange(1, 4)):
            if b:
                i = rng.randrange(len(b))
                r = rng.random()
                if r < 0.4:
                    b[i] = rng.choice(b'\r\n :;0a\x00\xff\x85-_')
                elif r < 0.7:
                    del b[i]
                else:
                    b.insert(i, rng.choice(b'\r\n :;0a\x00\xff'))
        m.head, m.framed = bytes(b), b''
        m.tags.append('mutated')
    elif allow_malformed and rng.random() < 0.02:
        m.wf = False
        big = rng.choice([b'X-Big: ' + b'a' * rng.choice([32700, 32768, 40000, 65530, 65536, 65537, 70000]),
                          b'X: y\r\n' * rng.choice([5400, 5462, 5470])])
        m.head = status + eol + big + eol + b''.join(h + eol for h in headers) + eol
        m.tags.append('bighead')
    if len(m.head) > 32768:
        m.wf = False
    if any(h.startswith(b'X-Fs') or h.startswith(b'X-Vt') or b'\x85' in h for h in headers):
        pass  # still well-formed for framing purposes: noise headers never collide with framing fields
    m.tags.append('framing:' + m.framing)
    return m


# ------------------------------------------------------------------ independent reference decoder
class RefResult:
    __slots__ = ('kind', 'code', 'payload', 'length', 'until_close')


def ref_decode(data, method, ignore_length=False):
    """Independent reading of RFC 7230 section 3.3.3 on a byte string that starts with a
    well-formed head.  `ignore_length` (wpull --ignore-length) may only do one thing: skip the
    Content-Length step, so that a length-delimited body is read until close; chunked framing
    and the no-body rules are untouched by it.  Returns kind in {'complete', 'incomplete', 'bad'}; for 'complete' the
    status code, the transfer-decoded payload and the message length.  Written against the
    RFC text, not against wpull; used only on messages the generator marks well-formed."""
    r = RefResult()
    r.kind, r.code, r.payload, r.length, r.until_close = 'incomplete', None, None, None, False
    # head: lines up to the first empty line; line end is LF, optionally preceded by CR
    pos = 0
    lines = []
    while True:
        nl = data.find(b'\n', pos)
        if nl < 0:
            return r
        line = data[pos:nl]
        if line.endswith(b'\r'):
            line = line[:-1]
        pos = nl + 1
        if line == b'':
            break
        lines.append(line)
    if not lines:
        r.kind = 'bad'
        return r
    parts = lines[0].replace(b'\t', b' ').split(None, 2)
    if len(parts) < 2 or not parts[0].startswith(b'HTTP/') or not parts[1][:3].isdigit():
        r.kind = 'bad'
        return r
    r.code = int(parts[1][:3])
    fields = []
    for line in lines[1:]:
        if line[:1] in (b' ', b'\t') and fields:
            fields[-1][1] += b' ' + line.strip()
            continue
        if b':' not in line:
            continue
        n, v = line.split(b':', 1)
        fields.append([n.strip().lower(), v.strip()])
    te = [v.strip() for n, v in fields if n == b'transfer-encoding']
    cl = [v.strip() for n, v in fields if n == b'content-length']
    body = data[pos:]
    if method.upper() == 'HEAD' or 100 <= r.code < 200 or r.code in (204, 304):
        r.kind, r.payload, r.length = 'complete', b'', pos
        return r
    codings = [c.split(b';')[0].strip().lower() for c in b','.join(te).split(b',')]
    codings = [c for c in codings if c]
    if codings and codings[-1] == b'chunked':
        out = bytearray()
        p = 0
        while True:
            nl = body.find(b'\n', p)
            if nl < 0:
                return r
            size_s = body[p:nl].split(b';')[0].strip()
            try:
                size = int(size_s, 16)
            except ValueError:
                r.kind = 'bad'
                return r
            p = nl + 1
            if size == 0:
                break
            if len(body) < p + size:
                return r
            out += body[p:p + size]
            p += size
            nl = body.find(b'\n', p)
            if nl < 0:
                return r
            if body[p:nl] not in (b'', b'\r'):
                r.kind = 'bad'
                return r
            p = nl + 1
        while True:   # trailer section
            nl = body.find(b'\n', p)
            if nl < 0:
                return r
            line = body[p:nl]
            p = nl + 1
            if line in (b'', b'\r'):
                break
        r.kind, r.payload, r.length = 'complete', bytes(out), pos + p
        return r
    if cl and not ignore_length:
        v = cl[0]
        if v.isdigit() or (v[:1] == b'+' and v[1:].isdigit()):
            n = int(v)
            if len(body) < n:
                return r
            r.kind, r.payload, r.length = 'complete', body[:n], pos + n
            return r
    r.kind, r.payload, r.length, r.until_close = 'complete', body, len(data), True
    return r


def one_shot_decode(coding, payload):
    try:
        if coding in ('gzip', 'gzip-bad'):
            return gzip_mod.decompress(payload)
        if coding == 'deflate':
            return zlib.decompress(payload)
        if coding == 'raw-deflate':
            return zlib.decompress(payload, -15)
    except Exception:
        return None
    return payload


# ------------------------------------------------------------------ session level (real Client, reactive server)
class ReactiveServer:
    """Answers request k (complete head seen) with script[k]: the response bytes in
    segments, then optionally closes.  Response k+1 is sent only after request k+1 arrived."""

    def on_close(self, conn):
        # what a real transport does when the local side closes (connection_lost -> the
        # StreamReaderProtocol feeds EOF): a read pending on this connection returns b''
        if not conn.server_closed and not conn.reader._eof:
            conn.reader.feed_eof()
            conn.server_closed = True       # nothing more can be delivered on this connection
            conn.pending = None

    def __init__(self, shared):
        self.shared = shared
        self.buf = b''

    def on_write(self, conn, data):
        self.buf += data
        while b'\r\n\r\n' in self.buf:
            head, _, rest = self.buf.partition(b'\r\n\r\n')
            n = 0
            for line in head.split(b'\r\n')[1:]:
                if line.lower().startswith(b'content-length:'):
                    n = int(line.split(b':', 1)[1])
            if len(rest) < n:
                return          # request body still arriving
            self.buf = rest[n:]
            sh = self.shared
            k = len(sh['requests'])
            # answer by what was asked for (a request that never reached the server must not shift
            # the script): the path names the exchange when the script has a path map
            path = head.split(b' ')[1].decode('latin-1') if head.count(b' ') >= 2 else None
            if path in sh.get('paths', {}):
                k = sh['paths'][path]
            sh['requests'].append((sh['net'].conns.index(conn), head + b'\r\n\r\n' + rest[:n]))
            # a slow server: what it still owes of the previous response on this connection is on
            # its way when the next request arrives, and is delivered before the new response
            pend = getattr(conn, 'pending', None)
            if pend:
                conn.pending = None
                for seg in pend[0]:
                    conn.send(seg)
                if pend[1]:
                    conn.close()
            if k in sh.get('partial', {}):
                # the connection dies part-way through this response head: the first n bytes, then
                # the peer is gone; the same request sent again (on a new connection) is answered normally
                n_out = sh['partial'].pop(k)
                msg = b''.join(sh['script'][k][0])
                t = asyncio.ensure_future(conn.send_segments([msg[:n_out]], eof=True))
                sh['feeders'].append(t)
                continue
            if k < len(sh['script']):
                segs, eof = sh['script'][k]
                hold = sh.get('hold', {}).get(k)
                if hold is not None and hold < len(segs):
                    conn.pending = (segs[hold:], eof)
                    segs, eof = segs[:hold], False
                t = asyncio.ensure_future(conn.send_segments(segs, eof=eof))
                sh['feeders'].append(t)


class _LeaveBlock(Exception):
    """raised by the harness inside a `with client.session()` block to leave it by exception"""


class FaultyFile:
    """A recorder temp file whose write() fails once, like a full disk (ENOSPC)."""

    def __init__(self, f, fault, cur):
        self.__dict__['_f'] = f
        self.__dict__['_fault'] = fault
        self.__dict__['_cur'] = cur

    def write(self, data):
        fault = self._fault
        fault['n'] = fault.get('n', 0) + 1
        if fault['n'] == fault['k'] and fault.get('fired_exchange') is None:
            fault['fired_exchange'] = self._cur.get('k')
            import errno
            raise OSError(errno.ENOSPC, 'No space left on device (injected)')
        return self._f.write(data)

    def __getattr__(self, name):
        return getattr(self._f, name)

    def __iter__(self):
        return iter(self._f)


def install_recorder_fault(recorder, fault, cur):
    """fault = {'point': 'response_data' | 'request_data' | 'end_request' | 'end_response', 'k': n}:
    the n-th write into the response / request block file, or the n-th write_record of a request /
    response record, raises OSError once.  Only harness-side wrapping of objects the recorder
    hands out; `fault['fired_exchange']` tells in which exchange it happened."""
    import errno
    point = fault['point']
    if point in ('response_data', 'request_data'):
        orig_new = recorder.new_http_recorder_session

        def new_session():
            rs = orig_new()
            if point == 'response_data':
                rs._response_temp_file = FaultyFile(rs._response_temp_file, fault, cur)
            else:
                orig_tmp = rs._new_temp_file
                rs._new_temp_file = lambda hint='warcrecsess': FaultyFile(orig_tmp(hint=hint), fault, cur)
            return rs
        recorder.new_http_recorder_session = new_session
    else:
        want = 'request' if point == 'end_request' else ('response', 'revisit')
        orig_write = recorder.write_record

        def write_record(record):
            if record.fields.get('WARC-Type') in want:
                fault['n'] = fault.get('n', 0) + 1
                if fault['n'] == fault['k'] and fault.get('fired_exchange') is None:
                    fault['fired_exchange'] = cur.get('k')
                    raise OSError(errno.ENOSPC, 'No space left on device (injected)')
            return orig_write(record)
        recorder.write_record = write_record


class DualStackResolver:
    """a host with an A and an AAAA record"""

    @asyncio.coroutine
    def resolve(self, host):
        import socket
        from wpull.network.dns import ResolveResult, AddressInfo
        return ResolveResult([AddressInfo('10.0.0.1', socket.AF_INET, None, None),
                              AddressInfo('fd00::1', socket.AF_INET6, None, None)])
        yield  # pragma: no cover


def build_app_clients(argv):
    """The HTTP client and web client as the APPLICATION wires them: argv -> AppArgumentParser ->
    Builder -> NetworkSetupTask + ClientSetupTask (wpull/application/tasks).  Only the resolver of
    the pool the tasks built is replaced (no DNS in the sandbox)."""
    from wpull.application.builder import Builder
    from wpull.application.options import AppArgumentParser
    from wpull.application.tasks.download import ClientSetupTask
    from wpull.application.tasks.network import NetworkSetupTask
    from wpull.pipeline.app import AppSession
    args = AppArgumentParser().parse_args(list(argv))
    builder = Builder(args)
    session = AppSession(builder.factory, args, io.StringIO())
    compat.run(compat._ensure(NetworkSetupTask().process(session)))
    compat.run(compat._ensure(ClientSetupTask().process(session)))
    client, web_client = builder.factory['HTTPClient'], builder.factory['WebClient']
    client._connection_pool._resolver = fakenet.FakeResolver()
    return client, web_client, args


def options_of_argv(argv):
    """(keep_alive, ignore_length) as the documented options say - read off the command line by
    the harness, not off the objects the application built"""
    return ('--no-http-keep-alive' not in argv, '--ignore-length' in argv)


def real_session_sequence(exchanges, recorder_params=None, keep_alive=True, ignore_length=False, fault=None, wiring=None):
    """exchanges: list of dicts {segs, eof, method, version, path}.  Runs the REAL
    Client/Session (and, when `recorder_params` is given, the REAL WARCRecorder
    listening to it) against a reactive in-memory server, strictly lock-step.
    Returns per exchange: connection index, Exchange record, request bytes received."""
    from wpull.protocol.http.client import Client
    from wpull.protocol.http.request import Request
    from wpull.protocol.http.stream import Stream
    from wpull.network.pool import ConnectionPool
    import wpull.network.connection as wc
    import functools
    wiring = wiring or {}
    app = build_app_clients(wiring['argv']) if wiring.get('argv') is not None else None

    async def go():
        net = fakenet.FakeNet()
        shared = {'net': net, 'script': [(e['segs'], e['eof']) for e in exchanges], 'requests': [], 'feeders': []}
        shared['hold'] = {k: e['hold'] for k, e in enumerate(exchanges) if e.get('hold') is not None}
        shared['partial'] = {k: e['die_after'] for k, e in enumerate(exchanges) if e.get('die_after')}
        paths = [e.get('path', '/p%d' % k) for k, e in enumerate(exchanges)]
        if len(set(paths)) == len(paths):
            shared['paths'] = {p: k for k, p in enumerate(paths)}
        net.listen('10.0.0.1', 80, lambda: ReactiveServer(shared))
        if wiring.get('dual_stack'):
            # a dual-stack host whose IPv4 address refuses: the IPv6 (secondary) connection wins the race
            net.listen('fd00::1', 80, lambda: ReactiveServer(shared))
            net.refuse.add(('10.0.0.1', 80))
        calls = []
        o_read, o_readline = wc.Connection.read, wc.BaseConnection.readline

        def read(self, amount=-1):
            data = yield from o_read(self, amount)
            calls.append(('r', amount, bytes(data)))
            return data

        def readline(self):
            data = yield from o_readline(self)
            calls.append(('l', 0, bytes(data)))
            return data
        wc.Connection.read = asyncio.coroutine(read)
        wc.BaseConnection.readline = asyncio.coroutine(readline)
        cur = {'declog': [], 'notified': []}
        o_dec, o_flush = Stream._decompress_data, Stream._flush_decompressor

        def logged(orig):
            def f(self, *a):
                if self._decompressor is None:
                    return orig(self, *a)
                try:
                    out = orig(self, *a)
                except Exception as e:
                    cur['declog'].append(('exc', classify_exc(e)))
                    raise
                cur['declog'].append(('ok', bytes(out)))
                return out
            return f
        Stream._decompress_data = logged(o_dec)
        Stream._flush_decompressor = logged(o_flush)
        recorder = None
        results = []
        try:
            with net:
                if app is not None:
                    client, web_client = app[0], app[1]
                else:
                    pool = ConnectionPool(resolver=DualStackResolver() if wiring.get('dual_stack') else fakenet.FakeResolver())
                    client = Client(connection_pool=pool,
                                    stream_factory=functools.partial(Stream, keep_alive=keep_alive,
                                                                     ignore_length=ignore_length))
                    web_client = None
                if wiring.get('web') and web_client is None:
                    from wpull.protocol.http.web import WebClient
                    web_client = WebClient(client)
                # every HTTP session this client creates reports its response data
                client.event_dispatcher.add_listener(
                    Client.ClientEvent.new_session,
                    lambda sess: sess.event_dispatcher.add_listener(sess.Event.response_data,
                                                                    lambda d: cur['notified'].append(bytes(d))))
                if recorder_params is not None:
                    from wpull.warc.recorder import WARCRecorder
                    recorder = WARCRecorder(recorder_params['filename'], params=recorder_params['params'])
                    recorder.listen_to_http_client(client)
                    if fault is not None:
                        install_recorder_fault(recorder, fault, cur)
                for k, e in enumerate(exchanges):
                    cur['k'] = k
                    request = Request('http://' + wiring.get('host', 'h') + e.get('path', '/p%d' % k), method=e.get('method', 'GET'),
                                      version=e.get('version', 'HTTP/1.1'))
                    for n, v in e.get('req_fields', ()):
                        request.fields.add(n, v)
                    if e.get('req_body') is not None:
                        request.body = io.BytesIO(e['req_body'])
                        request.fields['Content-Length'] = str(len(e['req_body']))
                    # the body file: fresh; or one that already holds a prefix and is positioned at its
                    # end (-O / --save-headers / --continue); or one object shared by all exchanges
                    fmode = e.get('file', 'fresh')
                    if fmode == 'shared':
                        out = cur.setdefault('shared_file', io.BytesIO())
                        out.seek(0, 2)
                    else:
                        out = io.BytesIO()
                        if fmode == 'prefix':
                            out.write(e.get('file_prefix', b'PREFIX'))
                    file_before = (out.getvalue(), out.tell())
                    x = Exchange()
                    x.status = x.fields = x.body = x.exc = None
                    x.fileinfo = None
                    del calls[:]
                    notified = []
                    declog = cur['declog'] = []
                    nreq = len(shared['requests'])

                    cur['notified'] = notified

                    async def one_web():
                        # through WebClient / WebSession, as the processor does
                        ws = web_client.session(request)
                        with ws:
                            response = await compat._ensure(ws.start())
                            await compat._ensure(ws.download(out, duration_timeout=wiring.get('duration_timeout')))
                            return response

                    async def one():
                        if wiring.get('web'):
                            return await one_web()
                        session = client.session()
                        leave = e.get('leave', 'full')
                        box = {}
                        try:
                            with session:
                                box['response'] = response = await compat._ensure(session.start(request))
                                if leave == 'full':
                                    await compat._ensure(session.download(out))
                                elif leave == 'raise':
                                    raise _LeaveBlock()
                                elif leave == 'abort':
                                    session.abort()
                                # 'header': the header was enough; the block is left normally
                                return response
                        except _LeaveBlock:
                            return box['response']
                    task = asyncio.ensure_future(one())
                    done = await fakenet.settle(task, shared['feeders'], extra=60)
                    if not done:
                        task.cancel()
                        try:
                            await task
                        except BaseException:
                            pass
                        x.outcome = 'stalled'
                    else:
                        try:
                            response = task.result()
                            x.outcome = 'ok'
                            x.status = (response.version, response.status_code, response.reason)
                            x.fields = [(n, v) for n, v in response.fields.get_all()]
                            if e.get('leave', 'full') == 'full':
                                # what callers get: the document is read from the file position the
                                # download leaves (Body.content()), not from a private buffer
                                x.body = response.body.content()
                                x.fileinfo = {'before': file_before[0], 'offset': file_before[1], 'pos_after': out.tell(),
                                              'data_after': out.getvalue()}
                            else:
                                x.body = out.getvalue()[file_before[1]:]
                        except Exception as exc:
                            x.outcome = 'exc'
                            x.exc = classify_exc(exc)
                    # the server may still be sending what it had to say for this request
                    for f in shared['feeders']:
                        if not f.done():
                            await f
                    for _ in range(5):
                        await asyncio.sleep(0)
                    got = shared['requests'][nreq:]
                    x.calls = list(calls)
                    x.notified = notified
                    x.declog = declog
                    conn_index = got[0][0] + 1 if got else None
                    if got:
                        fc = net.conns[got[0][0]]
                        x.closed = fc.client_closed
                        x.consumed = None
                    else:
                        x.closed, x.consumed = None, None
                    results.append({'conn': conn_index, 'x': x, 'requests': [g[1] for g in got],
                                    'request_obj_bytes': None})
                    if e.get('unsolicited') and got:
                        # bytes nobody asked for arrive on the idle connection (e.g. a 408 notice)
                        fc = net.conns[got[0][0]]
                        if not fc.server_closed and not fc.client_closed:
                            fc.send(e['unsolicited'])
                            for _ in range(3):
                                await asyncio.sleep(0)
                    if x.outcome == 'stalled':
                        break
                if recorder is not None:
                    recorder.close()
        finally:
            wc.Connection.read = o_read
            wc.BaseConnection.readline = o_readline
            Stream._decompress_data, Stream._flush_decompressor = o_dec, o_flush
        return results, [(bytes(c.received), bytes(c.sent)) for c in net.conns]
    return arun(go())


# ------------------------------------------------------------------ independent strict WARC reader
class WarcFormatError(ValueError):
    """The file is not a sequence of records delimited by their declared Content-Length."""

    def __init__(self, msg, rtype=None, index=None):
        ValueError.__init__(self, msg)
        self.rtype, self.index = rtype, index


def read_warc(path):
    """Records of an (uncompressed or per-record gzip) WARC file: list of (fields dict, block bytes).
    Strict: 'WARC/1.0' first line, CRLF field lines, Content-Length, block, CRLF CRLF."""
    with open(path, 'rb') as f:
        raw = f.read()
    if raw[:2] == b'\x1f\x8b':
        out = b''
        d = raw
        while d:
            z = zlib.decompressobj(16 + zlib.MAX_WBITS)
            out += z.decompress(d)
            d = z.unused_data
        raw = out
    records = []
    pos = 0
    while pos < len(raw):
        prev = records[-1][0].get('warc-type') if records else None
        end = raw.find(b'\r\n\r\n', pos)
        lines = raw[pos:end].split(b'\r\n') if end >= 0 else [raw[pos:pos + 40]]
        if end < 0 or lines[0] != b'WARC/1.0':
            # the previous record's declared length did not lead to a record start
            raise WarcFormatError('record %d does not start with WARC/1.0 (%r): the %s record before it has a wrong '
                                  'Content-Length' % (len(records), lines[0][:30], prev), prev, len(records) - 1)
        fields = {}
        for l in lines[1:]:
            n, _, v = l.partition(b':')
            fields[n.decode('latin-1').lower()] = v.strip().decode('latin-1')
        rtype = fields.get('warc-type')
        try:
            n = int(fields['content-length'])
        except (KeyError, ValueError):
            raise WarcFormatError('record %d (%s) has no usable Content-Length' % (len(records), rtype), rtype, len(records))
        block = raw[end + 4:end + 4 + n]
        if len(block) != n or raw[end + 4 + n:end + 8 + n] != b'\r\n\r\n':
            raise WarcFormatError('record %d (%s): the %d bytes declared by Content-Length are not followed by the record '
                                  'terminator (%d bytes left in the file)' % (len(records), rtype, n, len(raw) - end - 4),
                                  rtype, len(records))
        records.append((fields, block))
        pos = end + 8 + n
    return records


# (keep_alive, ignore_length): the options of wpull.protocol.http.stream.Stream
OPTS = [(True, False), (True, True), (False, False), (False, True)]


def relaxed_by_options(m, opts):
    """The only effect the property allows the options to have on delimiting:
    ignore_length turns a Content-Length-delimited body into read-until-close."""
    return bool(opts[1]) and m.framing == 'length'


def cuts_of(segs):
    out, n = [], 0
    for s in segs[:-1]:
        n += len(s)
        out.append(n)
    return out


def fmt_exchange_nc(x):
    """as fmt_exchange, without the (consumed, closed) part: at session level the pool,
    not the stream, may close a connection, and the buffer is shared between exchanges"""
    f = fmt_exchange_parts(x)
    return '%s | %s | %s' % (f[0], f[2], f[3])


def fmt_exchange_parts(x):
    saved = x.consumed, x.closed
    x.consumed, x.closed = 0, False
    try:
        return fmt_exchange(x).split(' | ')
    finally:
        x.consumed, x.closed = saved


# ------------------------------------------------------------------ two web sessions over one connection pool
class OverlapServer:
    """Per connection: `/a` is answered at once; `/b` is answered with the first `cut` bytes of its
    response, the rest (and the close, if any) follows when the harness calls `finish_b`."""

    def __init__(self, shared):
        self.shared = shared
        self.buf = b''

    def on_write(self, conn, data):
        self.buf += data
        while b'\r\n\r\n' in self.buf:
            head, _, self.buf = self.buf.partition(b'\r\n\r\n')
            sh = self.shared
            path = head.split(b' ')[1].decode('latin-1')
            sh['requests'].append((sh['net'].conns.index(conn), path, head + b'\r\n\r\n'))
            if path == '/b':
                sh['b_conn'] = conn
                if sh['cut'] > 0:
                    conn.send(sh['b_msg'][:sh['cut']])
            else:
                conn.send(sh['a_msg'])
                if sh['a_eof']:
                    conn.close()

    def on_close(self, conn):
        # what a real transport does when the local side closes: connection_lost() reaches the
        # StreamReaderProtocol, which feeds EOF to the reader; a read pending on it returns b''
        if not conn.server_closed and not conn.reader._eof:
            self.shared['closed_under_reader'] = self.shared.get('closed_under_reader', 0) + 1
            conn.reader.feed_eof()
            conn.server_closed = True


def real_overlap(case, recorder_params):
    """Worker A fetches /a and stays inside its `with web_session:` block until `exit_point`;
    worker B fetches /b through the SAME WebClient / Client / ConnectionPool (per-host limit
    `limit`), so that it gets A's kept-alive connection.  Real WebClient, Client, Session, Stream,
    ConnectionPool and WARCRecorder; only the transport is in memory."""
    from wpull.protocol.http.client import Client
    from wpull.protocol.http.web import WebClient
    from wpull.protocol.http.request import Request
    from wpull.network.pool import ConnectionPool
    from wpull.warc.recorder import WARCRecorder

    async def go():
        net = fakenet.FakeNet()
        shared = {'net': net, 'requests': [], 'a_msg': case['a_msg'], 'a_eof': case['a_eof'],
                  'b_msg': case['b_msg'], 'cut': case['cut']}
        net.listen('10.0.0.1', 80, lambda: OverlapServer(shared))
        out = {}
        with net:
            pool = ConnectionPool(resolver=fakenet.FakeResolver(), max_host_count=case['limit'])
            http_client = Client(connection_pool=pool)
            web_client = WebClient(http_client)
            recorder = WARCRecorder(recorder_params['filename'], params=recorder_params['params'])
            recorder.listen_to_http_client(http_client)
            a_done, b_reading, b_finished = asyncio.Event(), asyncio.Event(), asyncio.Event()

            async def spin(n):
                for _ in range(n):
                    await asyncio.sleep(0)

            async def fetch(session, sink):
                response = await compat._ensure(session.start())
                await compat._ensure(session.download(sink))
                return response

            async def worker_a():
                session = web_client.session(Request('http://h/a'))
                sink = io.BytesIO()
                try:
                    with session:
                        response = await fetch(session, sink)
                        out['a'] = ('ok', response.status_code, sink.getvalue())
                        a_done.set()
                        if case['exit_point'] == 'mid':
                            await b_reading.wait()      # coprocessors, --wait pause, ... of this worker
                        elif case['exit_point'] == 'late':
                            await b_finished.wait()
                except Exception as e:
                    out['a'] = ('exc', classify_exc(e), sink.getvalue())
                    a_done.set()

            async def worker_b():
                await a_done.wait()
                if case['exit_point'] == 'early':
                    await spin(6)
                session = web_client.session(Request('http://h/b', version=case.get('b_version', 'HTTP/1.1')))
                sink = io.BytesIO()
                try:
                    with session:
                        task = asyncio.ensure_future(fetch(session, sink))
                        await spin(12)
                        b_reading.set()                 # in 'mid' runs A now leaves its session
                        await spin(12)
                        conn = shared.get('b_conn')
                        if conn is not None and not conn.client_closed:
                            conn.send(shared['b_msg'][shared['cut']:])
                            if case['b_eof']:
                                conn.close()
                        else:
                            out['b_rest_undeliverable'] = True
                        done = await fakenet.settle(task, [], extra=80)
                        if not done:
                            task.cancel()
                            try:
                                await task
                            except BaseException:
                                pass
                            out['b'] = ('stalled', None, sink.getvalue())
                        else:
                            response = task.result()
                            out['b'] = ('ok', response.status_code, sink.getvalue())
                except Exception as e:
                    out['b'] = ('exc', classify_exc(e), sink.getvalue())
                b_finished.set()
            ta, tb = asyncio.ensure_future(worker_a()), asyncio.ensure_future(worker_b())
            await fakenet.settle(tb, [], extra=400)
            await fakenet.settle(ta, [], extra=100)
            for t in (ta, tb):
                if not t.done():
                    t.cancel()
            await spin(5)
            recorder.close()
        out['requests'] = [(c, p) for c, p, _ in shared['requests']]
        out['closed_under_reader'] = shared.get('closed_under_reader', 0)
        return out
    return arun(go())


# ------------------------------------------------------------------ one Connection object, read timeout, reconnects
def real_timeout_sequence(exchanges, timeout):
    """All exchanges run on ONE `Connection(timeout=...)` object through one `Stream`, with
    `Stream.reconnect()` before each request as `Session.start` does.  An exchange whose response
    stops mid-message (peer keeps the connection open) must end in NetworkTimedOut - the close
    timer works on the loop clock, so real time is let pass - and later exchanges on the
    reconnected object must be unaffected.  Returns one Exchange per exchange."""
    from wpull.network.connection import Connection
    from wpull.protocol.http.stream import Stream
    from wpull.protocol.http.request import Request

    async def go():
        net = fakenet.FakeNet()
        shared = {'net': net, 'script': [(e['segs'], e['eof']) for e in exchanges], 'requests': [], 'feeders': [],
                  'paths': {e['path']: k for k, e in enumerate(exchanges)}}
        net.listen('10.0.0.1', 80, lambda: ReactiveServer(shared))
        results = []
        with net:
            conn = Connection(('10.0.0.1', 80), 'h', timeout=timeout)
            calls = []
            orig_read, orig_readline = conn.read, conn.readline

            def read(amount=-1):
                data = yield from orig_read(amount)
                calls.append(('r', amount, bytes(data)))
                return data

            def readline():
                data = yield from orig_readline()
                calls.append(('l', 0, bytes(data)))
                return data
            conn.read = asyncio.coroutine(read)
            conn.readline = asyncio.coroutine(readline)
            stream = Stream(conn)
            for k, e in enumerate(exchanges):
                request = Request('http://h' + e['path'], method=e.get('method', 'GET'), version=e.get('version', 'HTTP/1.1'))
                out = io.BytesIO()
                del calls[:]
                x = Exchange()
                x.status = x.fields = x.body = x.exc = None
                x.notified, x.declog, x.consumed, x.closed = [], [], 0, False

                async def one():
                    await compat._ensure(stream.reconnect())
                    await compat._ensure(stream.write_request(request))
                    response = await compat._ensure(stream.read_response())
                    await compat._ensure(stream.read_body(request, response, file=out))
                    return response
                task = asyncio.ensure_future(one())
                done = await fakenet.settle(task, shared['feeders'], extra=60)
                waited = 0
                while not done and waited < 8:
                    await asyncio.sleep(timeout)        # real time: CloseTimer uses loop.call_later / loop.time
                    waited += 1
                    done = await fakenet.settle(task, shared['feeders'], extra=30)
                if not done:
                    task.cancel()
                    try:
                        await task
                    except BaseException:
                        pass
                    x.outcome = 'stalled'
                else:
                    try:
                        response = task.result()
                        x.outcome = 'ok'
                        x.status = (response.version, response.status_code, response.reason)
                        x.fields = [(n, v) for n, v in response.fields.get_all()]
                        x.body = out.getvalue()
                    except Exception as exc:
                        x.outcome = 'exc'
                        x.exc = classify_exc(exc)
                x.calls = list(calls)
                results.append(x)
                if x.outcome == 'stalled':
                    break
            conn.close()
        return results, len(net.conns)
    return arun(go())


# ------------------------------------------------------------------ redirects through the real WebClient
class RedirectServer:
    """`/start...` is answered with a redirect whose Location is the case's raw value; every other
    request-target with a 200.  Every request is logged as (Host value, request-target)."""

    def __init__(self, shared):
        self.shared = shared
        self.buf = b''

    def on_write(self, conn, data):
        self.buf += data
        while b'\r\n\r\n' in self.buf:
            head, _, self.buf = self.buf.partition(b'\r\n\r\n')
            lines = head.split(b'\r\n')
            target = lines[0].split(b' ')[1]
            host = b''
            for l in lines[1:]:
                if l.lower().startswith(b'host:'):
                    host = l.split(b':', 1)[1].strip()
            sh = self.shared
            sh['requests'].append((host.decode('latin-1'), target.decode('latin-1'), head + b'\r\n\r\n'))
            if target.startswith(b'/start') and len(sh['requests']) <= sh['hops']:
                body = b'moved'
                msg = b'HTTP/1.1 %d Moved\r\nLocation: %s\r\nContent-Length: %d\r\n\r\n%s' % (sh['code'], sh['location'], len(body), body)
            else:
                body = b'final page %d' % len(sh['requests'])
                msg = b'HTTP/1.1 200 OK\r\nContent-Length: %d\r\n\r\n%s' % (len(body), body)
            sh['sent'].append(msg)
            conn.send(msg)

    def on_close(self, conn):
        if not conn.server_closed and not conn.reader._eof:
            conn.reader.feed_eof()
            conn.server_closed = True


def real_redirect(case, recorder_params):
    """The recorder behind the REAL WebClient / WebSession (redirect following): `/start` redirects
    to `case['location']` (raw bytes, as a server would write it: not normalised)."""
    from wpull.protocol.http.client import Client
    from wpull.protocol.http.web import WebClient
    from wpull.protocol.http.request import Request
    from wpull.network.pool import ConnectionPool
    from wpull.warc.recorder import WARCRecorder

    async def go():
        net = fakenet.FakeNet()
        shared = {'requests': [], 'sent': [], 'location': case['location'], 'code': case['code'], 'hops': case.get('hops', 1)}
        net.listen(None, 80, lambda: RedirectServer(shared))
        out = {'responses': []}
        with net:
            http_client = Client(connection_pool=ConnectionPool(resolver=fakenet.FakeResolver()))
            web_client = WebClient(http_client)
            recorder = WARCRecorder(recorder_params['filename'], params=recorder_params['params'])
            recorder.listen_to_http_client(http_client)

            async def crawl():
                session = web_client.session(Request(case.get('start', 'http://h/start')))
                with session:
                    n = 0
                    while not session.done() and n < 6:
                        n += 1
                        response = await compat._ensure(session.start())
                        sink = io.BytesIO()
                        await compat._ensure(session.download(sink))
                        out['responses'].append((response.status_code, sink.getvalue()))
            task = asyncio.ensure_future(crawl())
            done = await fakenet.settle(task, [], extra=200)
            if not done:
                task.cancel()
                out['error'] = 'stalled'
            else:
                try:
                    task.result()
                except Exception as e:
                    out['error'] = classify_exc(e)
            recorder.close()
        out['requests'] = [(h, t) for h, t, _ in shared['requests']]
        out['sent'] = shared['sent']
        return out
    return arun(go())


# ------------------------------------------------------------------ overlapping sessions on one recorder
class InterleaveServer:
    """The response for `/s<i>` is delivered piece by piece when the harness calls feed(i)."""

    def __init__(self, shared):
        self.shared = shared
        self.buf = b''

    def on_write(self, conn, data):
        self.buf += data
        while b'\r\n\r\n' in self.buf:
            head, _, self.buf = self.buf.partition(b'\r\n\r\n')
            path = head.split(b' ')[1].decode('latin-1')
            i = int(path[2:])
            self.shared['conn'][i] = conn
            self.shared['requests'].append((self.shared['net'].conns.index(conn), i, head + b'\r\n\r\n'))

    def on_close(self, conn):
        if not conn.server_closed and not conn.reader._eof:
            conn.reader.feed_eof()
            conn.server_closed = True


def real_interleave(case, recorder_params):
    """2-3 HTTP sessions of ONE Client (one pool, one WARCRecorder listening) open at the same
    time: `steps` is the interleaving - ('create', i) calls client.session(), ('start', i) lets
    session i run start()+download(), ('feed', i) makes the server deliver the next piece of
    response i.  Whatever is left is delivered round-robin at the end."""
    from wpull.protocol.http.client import Client
    from wpull.protocol.http.request import Request
    from wpull.network.pool import ConnectionPool
    from wpull.warc.recorder import WARCRecorder

    async def go():
        net = fakenet.FakeNet()
        pieces = [list(p) for p in case['pieces']]
        shared = {'net': net, 'conn': {}, 'requests': []}
        net.listen('10.0.0.1', 80, lambda: InterleaveServer(shared))
        out = {}
        with net:
            client = Client(connection_pool=ConnectionPool(resolver=fakenet.FakeResolver(), max_host_count=case['limit']))
            recorder = WARCRecorder(recorder_params['filename'], params=recorder_params['params'])
            recorder.listen_to_http_client(client)
            sessions, tasks, sinks = {}, {}, {}

            async def spin(n):
                for _ in range(n):
                    await asyncio.sleep(0)

            def feed(i):
                conn = shared['conn'].get(i)
                if conn is not None and pieces[i] and not conn.server_closed:
                    conn.send(pieces[i].pop(0))
                    if not pieces[i] and case['eofs'][i]:
                        conn.close()

            async def run(i):
                session = sessions.get(i) or client.session()
                sinks[i] = io.BytesIO()
                with session:
                    response = await compat._ensure(session.start(Request('http://h/s%d' % i)))
                    await compat._ensure(session.download(sinks[i]))
                    return response
            for kind, i in case['steps']:
                if kind == 'create':
                    sessions[i] = client.session()
                elif kind == 'start':
                    tasks[i] = asyncio.ensure_future(run(i))
                else:
                    feed(i)
                await spin(8)
            for i in range(len(pieces)):
                if i not in tasks:
                    tasks[i] = asyncio.ensure_future(run(i))
            for _ in range(60):
                if all(t.done() for t in tasks.values()):
                    break
                for i in range(len(pieces)):
                    feed(i)
                    await spin(6)
            for i, t in tasks.items():
                if not t.done():
                    t.cancel()
                    out[i] = ('stalled', None, b'')
                    continue
                try:
                    response = t.result()
                    out[i] = ('ok', response.status_code, sinks[i].getvalue())
                except Exception as e:
                    out[i] = ('exc', classify_exc(e), b'')
            await spin(5)
            recorder.close()
        return out, [(c, i) for c, i, _ in shared['requests']]
    return arun(go())
