"""Shared by C01 / C03 (/ C20): site generator, reference semantics of one visit,
conversion of a real run's trace into model events, trace acceptance.

Reference semantics (`RefCrawl`) are written from the property sentences and
the documented option meanings, independently of the Lean model: which URLs a
visit of a row requests, the status it ends with, and the links it offers to
the table.  The Lean model (`Wpull.Crawl`) is parametric in exactly that
function; acceptance checks that the real trace is a run of the model
instantiated with it.
"""
import os
import re
import urllib.parse

import compat  # noqa: F401
import appsim
from appsim import Page, html
from runner import enc

HOST = 'a.test'
OTHER = 'b.test'


# ------------------------------------------------------------------ sites
class Site:
    """pages: path -> dict(kind, links=[(raw, inline)], location)"""

    def __init__(self):
        self.pages = {}
        self.start = '/'
        self.inputs = 0          # N further input URLs /u0 .. /u(N-1) on the command line (a long --input-file)

    def to_server(self, run_index=0):
        out = {}
        for path, p in self.pages.items():
            k = p['kind']
            if k == 'flaky':
                # a server-side outage that is over by the time the command is run again
                k = 'error' if run_index == 0 else 'leaf'
            if k == 'html' and p.get('markup'):
                body = html_varied(p['links'], p['markup'], meta=p.get('meta'), hinted=bool(p.get('hinted')))
                out[path] = Page(200, body, delay=p.get('delay'))
            elif k == 'html':
                body = html([r for r, i in p['links'] if not i], [r for r, i in p['links'] if i], meta=p.get('meta'))
                out[path] = Page(200, body, delay=p.get('delay'))
            elif k == 'leaf':
                out[path] = Page(200, b'leaf data', ctype=p.get('ctype', 'text/plain'), delay=p.get('delay'))
            elif k == 'sitemap':
                body = ('<?xml version="1.0" encoding="UTF-8"?><urlset xmlns="http://www.sitemaps.org/schemas/sitemap/0.9">'
                        + ''.join('<url><loc>http://%s%s</loc></url>' % (HOST, r) for r, _ in p['links']) + '</urlset>').encode()
                out[path] = Page(200, body, ctype='application/xml', delay=p.get('delay'))
            elif k == 'redirect':
                out[path] = Page(p.get('code', 301), b'', location=p['location'], delay=p.get('delay'))
            elif k == 'missing':
                out[path] = Page(404, b'nope', ctype='text/plain')
            elif k == 'error':
                out[path] = Page(500, b'boom', ctype='text/plain')
        other = {'/': Page(200, html(['/x'])), '/x': Page(200, b'x', ctype='text/plain')}
        return {HOST: _FoldingPages(out), OTHER: other}

    def describe(self):
        d = {p: {k: v for k, v in d.items()} for p, d in self.pages.items()}
        if self.start != '/':
            d['__start__'] = self.start
        if getattr(self, 'start_spelling', 0):
            d['__start_spelling__'] = self.start_spelling
        if self.inputs:
            d['__inputs__'] = self.inputs
        if getattr(self, 'other_input', False):
            d['__other_input__'] = True
        return d

    def start_urls(self):
        # the start URL as a user types it (upper case, default port, dot segment, fragment): `start_spelling`
        first = START_SPELLINGS[self.start_spelling % len(START_SPELLINGS)](self.start) if getattr(self, 'start_spelling', 0) else 'http://%s%s' % (HOST, self.start)
        other = ['http://%s/x' % OTHER] if getattr(self, 'other_input', False) else []     # an input on a second host, early in the list
        return [first] + other + ['http://%s/u%d' % (HOST, i) for i in range(self.inputs)]

    @classmethod
    def from_desc(cls, desc):
        s = cls()
        desc = dict(desc)
        s.start = desc.pop('__start__', '/')
        s.start_spelling = desc.pop('__start_spelling__', 0)
        s.inputs = desc.pop('__inputs__', 0)
        s.other_input = desc.pop('__other_input__', False)
        for p, d in desc.items():
            d = dict(d)
            if 'links' in d:
                d['links'] = [tuple(l) for l in d['links']]
            s.pages[p] = d
        return s


LINK_FORMS = [
    '<a href="%s">x</a>', '<area href="%s">', '<form action="%s"></form>', '<link rel="next" href="%s">',
    '<meta http-equiv="refresh" content="5; url=%s">', "<A HREF='%s'>x</A>", '<a class=k href=%s>x</a>',
    # the keyword of a refresh value as generators and hand-written pages spell it
    '<meta http-equiv="refresh" content="0; URL=%s">', '<META HTTP-EQUIV="Refresh" CONTENT="3;Url=%s">',
]
INLINE_FORMS = [
    '<img src="%s">', '<script src="%s"></script>', '<link rel="stylesheet" href="%s">', '<table background="%s"></table>',
    '<input type="image" src="%s">', '<div style="background: url(%s)"></div>', '<img lowsrc="%s">', '<object data="%s"></object>',
    '<link rel="shortcut icon" href="%s">', '<bgsound src="%s">',
]


UNTYPED_INLINE_FORMS = ['<img src="%s">', '<table background="%s"></table>', '<input type="image" src="%s">', '<img lowsrc="%s">',
                        '<object data="%s"></object>', '<bgsound src="%s">']


def html_varied(links, salt, meta=None, hinted=False):
    """The page of `html`, with each reference written in one of the element forms the scraper knows: the ordinary
    links as <a>, <area>, <form action>, <link rel=next>, meta refresh; the embedded objects as <img>, <script>,
    stylesheet / icon <link>, background attributes, CSS in a style attribute, <object data>.  Which form a reference
    gets is fixed by `salt` and its position (replayable)."""
    parts = ['<html><head><title>t</title>']
    if meta:
        parts.append(meta)
    parts.append('</head><body>')
    for k, (ref, inline) in enumerate(links):
        forms = INLINE_FORMS if inline else LINK_FORMS
        if inline and not hinted and not ref.split('#')[0].endswith('.png'):
            # the forms that carry a link-type hint (script, stylesheet, icon, CSS url()) only for images: a document
            # stored first under such a hint is never scraped as HTML (first record wins, see notes/C01.md round 6)
            forms = UNTYPED_INLINE_FORMS
        plain = len(ref) < 2 or ref.startswith('#')
        parts.append(forms[0 if plain else (salt + 3 * k) % len(forms)] % ref)
    if links and salt % 4 == 0:
        # a document that simply STOPS after its last start tag (a stub page, a cut-off template): no end tag, no
        # further tag — the last element is still an element
        ref, inline = links[-1]
        parts[-1] = ('<img src="%s">' if inline else '<a href="%s">') % ref
        return ''.join(parts).encode('utf-8')
    parts.append('</body></html>')
    return ''.join(parts).encode('utf-8')


START_SPELLINGS = [
    lambda p: 'http://a.test' + p,
    lambda p: 'HTTP://A.TEST' + p,
    lambda p: 'http://a.test:80' + p,
    lambda p: 'http://a.test' + p + '#top',
    lambda p: 'http://a.test/zz/..' + p,
    lambda p: 'http://A.test:80/.' + p,
]


class _FoldingPages(dict):
    """The server's view of its paths: repeated slashes name the same resource (as on any file-backed server), so a
    client that fails to fold them gets the page again instead of a 404."""

    def get(self, key, default=None):
        if key in self:
            return dict.get(self, key)
        path, q, query = key.partition('?')
        return dict.get(self, re.sub(r'/{2,}', '/', path) + q + query, default)


def resource_key(url):
    """An identity for 'the same resource' that does not use the crawler's own normaliser: host and scheme case, the
    default port, dot segments, repeated slashes and the fragment do not matter."""
    import posixpath
    u = urllib.parse.urlsplit(url)
    path = re.sub(r'/{2,}', '/', u.path or '/')
    tail = '/' if path.endswith('/') and path != '/' else ''
    path = posixpath.normpath(path) + tail if path != '/' else '/'
    return (u.scheme.lower(), (u.hostname or '').lower(), u.port or {'http': 80, 'https': 443}.get(u.scheme.lower()), path, u.query)


# the other host's own site (Site.to_server serves it under Host: b.test)
OTHER_PAGES = {'/': {'kind': 'html', 'links': [('/x', False)]}, '/x': {'kind': 'leaf'}}


FRAGMENT_ONLY_LINKS = True       # the fragment-only join defect (extra request of the directory) was repaired by de6baa6


SPELLINGS = [
    lambda p: p,
    lambda p: 'http://a.test' + p,
    lambda p: 'HTTP://A.TEST' + p,
    lambda p: 'http://a.test:80' + p,
    lambda p: p + '#frag',
    lambda p: '/.' + p,
    lambda p: '/zz/..' + p,
    lambda p: '/y/./..' + p,
    # a doubled slash, in a path without any dot (the crawler folds repeated slashes)
    lambda p: (p[0] + p[1:].replace('/', '//')) if '/' in p[1:] else 'http://a.test/' + p,
]


def gen_site(rng, size=None, redirects=True, inline=True, offsite=True, deep=False, start_deep=False):
    s = Site()
    n = size or rng.randint(2, 9)
    paths = ['/'] + ['/d/p%d' % i if rng.random() < 0.5 else '/p%d' % i for i in range(1, n)]
    if deep:
        paths = ['/'] + ['/d/p%d' % i for i in range(1, n)]
    kinds = {}
    for p in paths:
        r = rng.random()
        kinds[p] = 'html' if (p == '/' or r < 0.6) else 'leaf' if r < 0.8 else 'missing' if r < 0.87 else 'redirect'
        if kinds[p] == 'redirect' and not redirects:
            kinds[p] = 'html'
    imgs = ['/img%d.png' % i for i in range(rng.randint(0, 3))] if inline else []
    for p in paths:
        k = kinds[p]
        if k == 'html':
            links = []
            for _ in range(rng.randint(0, 4)):
                t = rng.choice(paths)
                links.append((rng.choice(SPELLINGS)(t), False))
            if rng.random() < 0.3:
                links.append((p, False))                      # self link
            if rng.random() < 0.25 and links:
                links.append(links[0])                        # duplicate
            for im in imgs:
                if rng.random() < 0.5:
                    links.append((im, True))
                    if rng.random() < 0.4:
                        # the thumbnail idiom <a href=X><img src=X></a>: one URL, both an ordinary link and a
                        # page requisite of this page (the anchor comes first in the document)
                        links.append((im, False))
            if len(paths) > 1 and rng.random() < 0.1:
                t = rng.choice(paths[1:])
                links += [(t, False), (t, True)]               # a document that is also embedded
            if offsite and rng.random() < 0.2:
                links.append(('http://%s/' % OTHER, False))
            if rng.random() < 0.15:
                links.append(('/nowhere%d' % rng.randint(0, 2), False))
            s.pages[p] = {'kind': 'html', 'links': links}
        elif k == 'redirect':
            tgt = rng.choice([q for q in paths if q != p] or ['/'])
            s.pages[p] = {'kind': 'redirect', 'location': rng.choice(SPELLINGS[:5])(tgt), 'code': rng.choice([301, 302, 303, 307])}
        else:
            s.pages[p] = {'kind': k}
    for im in imgs:
        s.pages[im] = {'kind': 'leaf', 'ctype': 'image/png'}
    # "no fetch fails": redirect chains must end in a document (no cycles, at most 3 hops)
    def target_path(loc):
        u = urllib.parse.urlsplit(urllib.parse.urljoin('http://a.test/', loc))
        import posixpath
        return posixpath.normpath(u.path) if u.path != '/' else '/'
    for p in list(s.pages):
        seen, cur, hops = {p}, p, 0
        while s.pages.get(cur, {}).get('kind') == 'redirect':
            nxt = target_path(s.pages[cur]['location'])
            hops += 1
            if nxt in seen or hops > 3:
                s.pages[cur] = {'kind': 'html', 'links': []}
                break
            seen.add(nxt)
            cur = nxt
    # make sure the root links somewhere
    if not s.pages['/']['links'] and len(paths) > 1:
        s.pages['/']['links'].append((paths[1], False))
    # frames within frames: documents embedded in documents, seven deep, the innermost with an image (how deep the
    # requisites of requisites are followed is an option of its own, not the link depth)
    if inline and rng.random() < 0.35:
        hub = rng.choice([q for q in paths if s.pages[q]['kind'] == 'html'])
        depth = rng.randint(2, 7)
        for k in range(1, depth + 1):
            nxt = [('/frame%d.html' % (k + 1), True)] if k < depth else [('/innermost.png', True)]
            s.pages['/frame%d.html' % k] = {'kind': 'html', 'links': nxt + ([('/framepic%d.png' % k, True)] if rng.random() < 0.5 else [])}
            if ('/framepic%d.png' % k, True) in s.pages['/frame%d.html' % k]['links']:
                s.pages['/framepic%d.png' % k] = {'kind': 'leaf', 'ctype': 'image/png'}
        s.pages['/innermost.png'] = {'kind': 'leaf', 'ctype': 'image/png'}
        s.pages[hub]['links'].append(('/frame1.html', True))
    # twins that differ only in the letter case of path / query: different resources, both must be fetched
    if rng.random() < 0.3 and len(paths) > 1:
        t = rng.choice(paths[1:])
        twin = t.upper() if rng.random() < 0.5 else t + '?q=A'
        base = t if twin == t.upper() else t + '?q=a'
        if base != t:
            s.pages[base] = {'kind': 'leaf'}
        s.pages[twin] = {'kind': 'html', 'links': [(paths[0], False)]} if rng.random() < 0.5 else {'kind': 'leaf'}
        hub = rng.choice([q for q in paths if s.pages[q]['kind'] == 'html'])
        s.pages[hub]['links'] += [(base, False), (twin, False)]
    # a relative reference that EMBEDS another URL in its query (login?next=http://...): one URL on this host
    for p in paths:
        if s.pages[p]['kind'] == 'html' and rng.random() < 0.2:
            s.pages[p]['links'].append((rng.choice(['/go?next=http://a.test/', 'share?u=http://a.test%s' % rng.choice(paths), '/r?u=ftp://x/']), False))
    # a reference nothing can be made of (urljoin raises ValueError for it), AHEAD of the page's other links: it is
    # skipped, the rest of the page is still read
    for p in paths:
        if s.pages[p]['kind'] == 'html' and s.pages[p]['links'] and rng.random() < 0.2:
            s.pages[p]['links'].insert(0, (rng.choice(['http://[server]/setup', 'http://[::1/x', '//[v1.x/y']), False))
    # fragment-only and empty references: the page itself
    for p in paths:
        if FRAGMENT_ONLY_LINKS and s.pages[p]['kind'] == 'html' and rng.random() < 0.15:
            s.pages[p]['links'].append((rng.choice(['#top', '#', '']), False))
    # the same references written in the other element forms the scraper knows
    for p in paths:
        if s.pages[p]['kind'] == 'html' and rng.random() < 0.35:
            s.pages[p]['markup'] = rng.randint(1, 999)
            if rng.random() < 0.2:
                s.pages[p]['hinted'] = True       # also documents may sit in a form that carries a link-type hint
    if start_deep:
        # a page two directories down that links sideways and upwards, to in-scope pages nobody else links to
        s.pages['/d/sub/deep.html'] = {'kind': 'html', 'links': [('/d/only-from-deep.txt', False), ('../side/x.html', False), ('/top.txt', False)]
                                       + [(rng.choice(SPELLINGS[:5])(t), False) for t in rng.sample(paths, min(len(paths), 2))]}
        s.pages['/d/only-from-deep.txt'] = {'kind': 'leaf'}
        s.pages['/d/side/x.html'] = {'kind': 'html', 'links': [('/d/only-from-side.txt', False), ('../sub/deep.html', False)]}
        s.pages['/d/only-from-side.txt'] = {'kind': 'leaf'}
    if start_deep:
        # start below /d/ (what --no-parent is about); that page links up, sideways and down
        s.pages.setdefault('/d/start.html', {'kind': 'html', 'links': []})
        s.pages['/d/start.html'] = {'kind': 'html', 'links': [(rng.choice(SPELLINGS[:5])(t), False)
                                                             for t in rng.sample(paths, min(len(paths), rng.randint(2, 5)))]
                                     + [('/d/sub/leaf.txt', False), ('/d/sub/deep.html', False), ('/top.txt', False)] + [(im, True) for im in imgs[:1]]}
        s.pages['/d/sub/leaf.txt'] = {'kind': 'leaf'}
        s.pages['/top.txt'] = {'kind': 'leaf'}
        s.start = '/d/start.html'
        # sibling directories whose NAME begins like the start directory (/d-old/, /d2/): outside it all the same
        s.pages['/d/start.html']['links'] += [('/d-old/index.html', False), ('/d2/c.html', False)]
        s.pages['/d-old/index.html'] = {'kind': 'html', 'links': [('/d-old/f.html', False), ('/d/sub/leaf.txt', False)]}
        s.pages['/d-old/f.html'] = {'kind': 'leaf'}
        s.pages['/d2/c.html'] = {'kind': 'leaf'}
    if rng.random() < 0.3:
        # what --sitemaps is for: /sitemap.xml lists pages, one of them listed nowhere else; the start page may be gone
        # (404), so that everything hangs on the two URLs queued next to every start URL (robots.txt, sitemap.xml)
        s.pages['/sitemap.xml'] = {'kind': 'sitemap', 'links': [(t, False) for t in rng.sample(paths, min(len(paths), 3))] + [('/only-in-sitemap.html', False)]}
        s.pages['/only-in-sitemap.html'] = {'kind': 'html', 'links': [('/from-sitemap-page.txt', False)]}
        s.pages['/from-sitemap-page.txt'] = {'kind': 'leaf'}
        if not start_deep and rng.random() < 0.4:
            s.pages['/'] = {'kind': 'missing'}
    if rng.random() < 0.4:
        s.start_spelling = rng.randint(1, len(START_SPELLINGS) - 1)
        # ... and some page links back to the start page
        back = rng.choice([q for q in s.pages if s.pages[q]['kind'] == 'html'])
        s.pages[back]['links'].append((s.start, False))
    if redirects and rng.random() < 0.25 and s.pages['/' if not start_deep else '/d/start.html']['kind'] == 'html':
        # a moved section: more same-host redirects in one crawl than a host has connections (6), each to a page
        # nobody else links to; whatever following a redirect costs, it must not add up
        hub = '/d/start.html' if start_deep else '/'
        base = '/d/' if start_deep else '/'
        for k in range(rng.randint(7, 9)):
            src, dst = '%smoved%d.html' % (base, k), '%snew%d.html' % (base, k)
            s.pages[src] = {'kind': 'redirect', 'location': dst, 'code': rng.choice([301, 302, 303, 307])}
            s.pages[dst] = {'kind': 'leaf'} if rng.random() < 0.7 else {'kind': 'html', 'links': [(hub, False)]}
            s.pages[hub]['links'].append((src, False))
    return s


def longest_chain(site):
    """number of redirect hops of the longest redirect chain of the site"""
    import posixpath
    best = 0
    for p in site.pages:
        cur, hops, seen = p, 0, set()
        while site.pages.get(cur, {}).get('kind') == 'redirect' and cur not in seen:
            seen.add(cur)
            u = urllib.parse.urlsplit(urllib.parse.urljoin('http://a.test/', site.pages[cur]['location']))
            cur = posixpath.normpath(u.path) if u.path != '/' else '/'
            hops += 1
        best = max(best, hops)
    return best


def gen_options(rng, levelfree=False):
    o = _gen_options(rng, levelfree)
    if rng.random() < 0.2:
        o['input_file'] = True
    if rng.random() < 0.15:
        o['quota'] = rng.choice(['inf', '0'])
    if rng.random() < 0.2:
        o['sitemaps'] = True
    if o['page_requisites'] and rng.random() < 0.3:
        o['page_requisites_level'] = rng.choice([1, 2, 3, 7])     # its own limit, whatever -l says
    if rng.random() < 0.15 and not o['no_parent']:
        o['span_hosts'] = True        # the links to the other host (its own small site, same server, told apart by Host) are followed
    return o


def _gen_options(rng, levelfree=False):
    o = {'recursive': True, 'level': None, 'page_requisites': rng.random() < 0.5, 'no_parent': rng.random() < 0.25,
         'accept_regex': None, 'reject_regex': None}
    if not levelfree and rng.random() < 0.35:
        o['level'] = rng.randint(1, 3)
    if rng.random() < 0.2:
        o['reject_regex'] = rng.choice([r'p1', r'p[23]$', r'/d/'])
    if rng.random() < 0.15:
        o['accept_regex'] = rng.choice([r'a\.test/($|p|d)', r'p[0-5]|test/$'])      # with or without a reject pattern
    return o


def option_argv(o):
    a = ['--no-robots']
    if o['recursive']:
        a.append('-r')
    a += ['-l', str(o['level'] if o['level'] is not None else 0)]    # 0 = unlimited (inf)
    if o['page_requisites']:
        a.append('-p')
    if o['no_parent']:
        a.append('--no-parent')
    if o['accept_regex']:
        a += ['--accept-regex', o['accept_regex']]
    if o['reject_regex']:
        a += ['--reject-regex', o['reject_regex']]
    if o.get('tries'):
        a += ['--tries', str(o['tries'])]
    if o.get('database_uri'):
        a += ['--database-uri', 'URI']
    if o.get('warc_dedup'):
        a += ['--warc-file', 'rec', '--warc-dedup', 'CDX']
    if o.get('max_redirect'):
        a += ['--max-redirect', str(o['max_redirect'])]
    if o.get('timestamping'):
        a.append('-N')
    if o.get('quota'):
        a += ['--quota', o['quota']]          # 'inf' / '0': no quota, spelled out
    if o.get('sitemaps'):
        a.append('--sitemaps')
    if o.get('page_requisites_level'):
        a += ['--page-requisites-level', str(o['page_requisites_level'])]
    if o.get('span_hosts'):
        a.append('--span-hosts')
    if o.get('convert_links'):
        a.append('--convert-links')       # a second queue (saved files to convert) and a pipeline after the downloads
    return a


# ------------------------------------------------------------------ reference semantics
def norm(base, raw):
    """The canonical URL string the crawler stores for link `raw` found on `base`."""
    from wpull.url import URLInfo
    try:
        return URLInfo.parse(urllib.parse.urljoin(base, raw)).url
    except ValueError:
        return None


NON_HTML_HINTS = ('media', 'css', 'javascript', 'file', 'directory')


class RefCrawl:
    def __init__(self, site, opts, tries=2, max_redirects=20, start_hosts=(HOST,), run_index=0):
        self.run_index = run_index
        self.root = 'http://%s%s' % (HOST, site.start)      # single start URL: every record's root
        self.site = site
        self.o = opts
        self.tries = opts.get('tries') or tries
        max_redirects = opts.get('max_redirect') or max_redirects
        self.max_redirects = max_redirects
        self.start_hosts = start_hosts

    def page(self, url):
        u = urllib.parse.urlsplit(url)
        if u.hostname == HOST and u.scheme == 'http' and (u.port or 80) == 80:
            path = u.path + ('?' + u.query if u.query else '')
            p = self.site.pages.get(path, {'kind': 'missing'})
            if p['kind'] == 'flaky':
                return {'kind': 'error'} if self.run_index == 0 else {'kind': 'leaf'}
            return p
        if u.hostname == OTHER:
            if self.o.get('span_hosts') and u.scheme == 'http' and (u.port or 80) == 80:
                return OTHER_PAGES.get(u.path + ('?' + u.query if u.query else ''), {'kind': 'missing'})
            return {'kind': 'offsite'}
        return {'kind': 'missing'}

    def accept(self, url, level, inline_level, tries, root=None, hook=True):
        """The scope options' verdict for requesting `url` under a record (level, inline_level, try count).  `hook`: at
        fetch time a script's accept_url hook has the last word (option 'plugin_accept': a plugin that keeps every URL
        matching the pattern, whatever the filters say); the pre-insert filter of scraped links does not ask it."""
        if hook and self.o.get('plugin_accept') and re.search(self.o['plugin_accept'], url):
            return True
        o = self.o
        u = urllib.parse.urlsplit(url)
        if u.scheme not in ('http', 'https', 'ftp'):
            return False
        if level != 0:
            if inline_level:
                if not o['page_requisites']:
                    return False
            elif not o['recursive']:
                return False
        if u.hostname not in self.start_hosts and not o.get('span_hosts'):
            return False
        if self.tries and not tries < self.tries:
            return False
        if inline_level and inline_level > (o.get('page_requisites_level') or 5):
            return False
        if o['level']:
            if inline_level:
                if not level <= o['level'] + 2:
                    return False
            elif not level <= o['level']:
                return False
        if o.get('no_parent') and not inline_level and self.root is not None:
            top = urllib.parse.urlsplit(self.root)
            if u.hostname == top.hostname and (u.scheme != top.scheme or (u.port or 80) == (top.port or 80)):
                if not (u.path.rsplit('/', 1)[0] + '/').startswith(top.path.rsplit('/', 1)[0] + '/'):
                    return False
        if o['accept_regex'] and not re.search(o['accept_regex'], url):
            return False
        if o['reject_regex'] and re.search(o['reject_regex'], url):
            return False
        return True

    def visit(self, url, level, inline_level, tries, link_type=None):
        """-> (requests, status, children[(url, inline)]).  `link_type`: the hint stored with the record (None when
        unknown): a document stored as media / css / javascript is fetched but not read as HTML."""
        requests, status, kids = self._visit(url, level, inline_level, tries)
        if link_type in NON_HTML_HINTS and kids:
            kids = []
        if level == 0 and self.o.get('sitemaps') and self.accept(url, level, inline_level, tries):
            # --sitemaps: robots.txt and sitemap.xml of the origin are queued next to every start URL that the filters
            # let through, whatever becomes of the fetch (ProcessingRule.add_extra_urls runs before it)
            u = urllib.parse.urlsplit(url)
            extra = [('%s://%s/robots.txt' % (u.scheme, u.netloc), False), ('%s://%s/sitemap.xml' % (u.scheme, u.netloc), False)]
            kids = extra + [k for k in kids if k not in extra]
        return requests, status, kids

    def _visit(self, url, level, inline_level, tries):
        if not self.accept(url, level, inline_level, tries):
            return [], 's', []
        requests = []
        cur = url
        hops = 0
        while True:
            if not self.accept(cur, level, inline_level, tries):
                return requests, 's', []
            requests.append(cur)
            p = self.page(cur)
            if p['kind'] == 'redirect':
                hops += 1
                if hops > self.max_redirects:
                    return requests, 'e', []
                nxt = norm(cur, p['location'])
                if nxt is None:
                    return requests, 'e', []
                cur = nxt
                continue
            break
        k = p['kind']
        if k in ('missing', 'offsite'):
            return requests, 's', []
        if k == 'error':
            return requests, 'e', []
        if k == 'leaf' or (k == 'sitemap' and not self.o.get('sitemaps')):
            return requests, 'd', []
        kids = []
        seen = set()
        for raw, inline in p['links']:
            if not raw.strip():
                continue            # an empty href / src is no link (HTMLScraper skips it)
            c = norm(cur, raw)
            if c is None:
                continue
            joined = urllib.parse.urljoin(cur, raw)
            key = (urllib.parse.urldefrag(joined)[0], inline)
            if key in seen:
                continue
            seen.add(key)
            child_inline = ((inline_level or 0) + 1) if inline else 0
            # scrape-time filter: the *page's* URL with the child's record
            if not self.accept(cur, level + 1, child_inline, 0, hook=False):
                continue
            kids.append((c, inline))
        return requests, 'd', kids

    def reach(self, start_url):
        """URLs that must be requested: least fixed point over the site, breadth first
        (a URL's depth is its shortest link distance, the reading of the level option)."""
        todo = [(start_url, 0, None)]
        seen = {start_url: (0, None)}
        fetched = []
        while todo:
            url, level, inl = todo.pop(0)
            reqs, st, kids = self.visit(url, level, inl, 0)
            fetched.extend(reqs)
            for c, inline in kids:
                if c not in seen:
                    ci = ((inl or 0) + 1) if inline else None
                    seen[c] = (level + 1, ci)
                    todo.append((c, level + 1, ci))
        return fetched, seen


    # ---- the property's reading: a URL is in scope when SOME chain of in-scope links leads to it
    def _cap(self, level):
        L = self.o['level']
        return min(level, L + 3) if L else min(level, 1)       # beyond that every record is judged alike

    def reach_any(self, start_url):
        """-> (set of URLs that must be requested, {url: set of (level, inline_level) records it is reachable with}).
        Unlike `reach` (first sighting wins, what an insert-or-ignore table does) every record a URL can be
        discovered with is followed: depth = shortest distance, requisite if embedded anywhere."""
        todo = [(start_url, 0, None)]
        states = {(start_url, 0, None)}
        fetched = set()
        yields = {}            # state -> children [(url, inline)]
        hops = {}              # state -> request lines of its visit (first hop, redirect hops)
        while todo:
            st = todo.pop()
            url, level, inl = st
            reqs, _status, kids = self.visit(url, level, inl, 0)
            fetched.update(reqs)
            yields[st] = kids
            hops[st] = reqs
            for c, inline in kids:
                ci = ((inl or 0) + 1) if inline else None
                nst = (c, self._cap(level + 1), ci)
                if nst not in states:
                    states.add(nst)
                    todo.append(nst)
        records = {}
        for u, l, i in states:
            records.setdefault(u, set()).add((l, i))
        self._yields = yields
        self._hops = hops
        return fetched, records

    def explain_missing(self, missing, rows, start_url):
        """Why was an in-scope URL never requested?  -> {url: 'depth-race' | 'requisite-shadowed' | 'plain'}.
        'first record wins': the table keeps the record (depth, requisite or not) of the first sighting and never
        improves it; a URL whose STORED record is out of scope although a better one exists is skipped, and the links
        of a page stored too deep / as an ordinary link are judged with that record."""
        _fetched, records = self.reach_any(start_url)
        stored = {r['url']: (r['level'], r['inline_level']) for r in rows}
        hinted = {r['url'] for r in rows if r.get('link_type') in NON_HTML_HINTS and self.page(r['url'])['kind'] == 'html'}
        out = {}

        def dimension(url, rec, better):
            # better: records under which the URL (or its link) is in scope
            same_kind = [b for b in better if (b[1] is None) == (rec[1] is None)]
            return 'depth-race' if same_kind else 'requisite-shadowed'

        changed = True
        todo = set(missing)
        while changed:
            changed = False
            for u in sorted(todo):
                if u in out:
                    continue
                why = None
                if u in stored:
                    rec = stored[u]
                    good = [b for b in records.get(u, ()) if self.accept(u, b[0], b[1], 0)]
                    if not self.accept(u, rec[0], rec[1], 0) and good:
                        why = dimension(u, rec, good)
                else:
                    # never inserted: a page linking to it was handled under a worse record than its best one
                    for (p_url, pl, pi), kids in self._yields.items():
                        if u not in [k for k, _ in kids]:
                            continue
                        if p_url in hinted:
                            # its parent is an HTML page stored under a media / css / javascript hint: never scraped
                            why = 'type-shadowed'
                            break
                        if p_url in out and out[p_url] != 'plain':
                            why = out[p_url]
                            break
                        if p_url in stored and stored[p_url] != (pl, pi):
                            rec = stored[p_url]
                            _r, _s, kids2 = self.visit(p_url, rec[0], rec[1], 0)
                            if u not in [k for k, _ in kids2]:
                                why = dimension(p_url, rec, [(pl, pi)])
                                break
                if not why:
                    # expected only as a redirect hop of a visit that did not happen for an explained reason
                    for (p_url, _pl, _pi), reqs in self._hops.items():
                        if u not in reqs[1:]:
                            continue
                        if out.get(p_url, 'plain') != 'plain':
                            why = out[p_url]
                            break
                        if p_url in stored and stored[p_url] != (_pl, _pi):
                            # the redirecting URL was visited, but under its stored (worse) record, for which
                            # this hop is out of scope
                            rec = stored[p_url]
                            reqs2, _s, _k = self.visit(p_url, rec[0], rec[1], 0)
                            if u not in reqs2:
                                why = dimension(p_url, rec, [(_pl, _pi)])
                                break
                if why:
                    out[u] = why
                    changed = True
        for u in missing:
            out.setdefault(u, 'plain')
        return out


# ------------------------------------------------------------------ trace -> model events
class Ids:
    def __init__(self):
        self.of = {}
        self.urls = []

    def __call__(self, url):
        if url not in self.of:
            self.of[url] = len(self.urls)
            self.urls.append(url)
        return self.of[url]


STATUS = {'todo': 't', 'in_progress': 'p', 'done': 'd', 'error': 'e', 'skipped': 's'}


def trace_to_events(events, ids, ref, first_run=True):
    """events: merged list of table events and fetch events of ONE process run.
    Returns (model event strings, visit table dict, notes)."""
    out = []
    visits = {}
    batches = {}          # item url -> real children batch order
    i = 0
    n = len(events)
    started = False
    pending_none = False
    notes = []
    current_out = {}      # url -> record info at checkout
    flushed_open = {}     # item url -> (index of its flush event in out, URLs inserted so far)
    while i < n:
        e = events[i]
        op = e['op']
        if op == 'release':
            pass
        elif op == 'add_many' and not started:
            started = True
            out.append('s=' + enc([ids(u) for u in e['inserted']]))
        elif op == 'check_out':
            if e['got'] is None:
                if e['status'] == 'todo' and i + 1 < n and events[i + 1]['op'] == 'check_out' \
                        and events[i + 1]['status'] == 'error':
                    nxt = events[i + 1]
                    if nxt['got'] is None:
                        out.append('n')
                    else:
                        out.append('o=%d' % ids(nxt['got']))
                        current_out[nxt['got']] = nxt
                    i += 1
                elif e['status'] == 'todo' and i + 1 == n:
                    pass      # killed between get_item's two queries (to-do missed, error rows not asked for yet)
                else:
                    out.append('n')
            else:
                out.append('o=%d' % ids(e['got']))
                current_out[e['got']] = e
        elif op == 'fetch':
            out.append('r%d,%d' % (ids(e['item']), ids(e['url'])))
        elif op == 'add_many':
            item = e.get('item')
            if item is None:
                # attribute through the parent field of the batch, or the single item flushing now
                parents = {b.get('parent') for b in e['batch']}
                item = parents.pop() if len(parents) == 1 else None
            if item is None:
                if not e['batch']:
                    i += 1
                    continue
                notes.append('unattributed add_many')
                i += 1
                continue
            if e.get('phase') == 'finish' and not e['batch']:
                i += 1
                continue          # ProcessTask's trailing finish() with an empty batch
            this = [(b['url'], b.get('inline_level') is not None) for b in e['batch']]
            if item in flushed_open:
                # ItemSession stores a page's links in portions of 1000: one children flush in the model
                k, inserted = flushed_open[item]
                batches[item] = batches[item] + this
                inserted = inserted + list(e['inserted'])
                out[k] = 'f%d=%s' % (ids(item), enc([ids(u) for u in inserted]))
                flushed_open[item] = (k, inserted)
            else:
                batches[item] = this
                out.append('f%d=%s' % (ids(item), enc([ids(u) for u in e['inserted']])))
                flushed_open[item] = (len(out) - 1, list(e['inserted']))
        elif op == 'check_in':
            flushed_open.pop(e['url'], None)
            out.append('i%d,%s' % (ids(e['url']), STATUS.get(e['status'], '?')))
        i += 1
    # visit table for every row handed out
    for url, e in current_out.items():
        pass
    return out, batches, notes


def build_visits(events, ids, ref, batches):
    """One visit entry per handed-out row, children in the order the real batch had
    (link sets have no defined order) provided the *sets* agree with the reference."""
    entries = []
    for e in events:
        if e['op'] != 'check_out' or e['got'] is None:
            continue
        url, level, inl, tries = e['got'], e['level'], e['inline_level'], e['try_count']
        reqs, st, kids = ref.visit(url, level, inl, tries, e.get('link_type'))
        real = batches.get(url)
        if real is not None and sorted(set(real)) == sorted(set(kids)):
            kids = real
        entry = '%d,%d,%s,%d:%s:%s:%s' % (
            ids(url), level, 'n' if inl is None else inl, tries,
            enc([ids(r) for r in reqs]), st,
            enc([2 * ids(c) + (1 if inline else 0) for c, inline in kids]))
        if entry not in entries:
            entries.append(entry)
    return entries


def rows_canon(rows, ids):
    return ';'.join('%d,%s,%d,%s,%d' % (ids(r['url']), STATUS[r['status']], r['level'],
                                         'n' if r['inline_level'] is None else r['inline_level'], r['try_count'])
                    for r in rows) or '~'


# ------------------------------------------------------------------ running the real application with a merged trace
def run_real(site, opts, seed, concurrent, start_urls=None, workdir=None, db=None, kill_at=None, first_run=True,
             extra=(), event_sink=None, on_request=None, run_index=0, on_app=None, max_steps=None):
    """Run the real crawler; returns (CrawlResult, merged events).
    `event_sink(ev)` is called for every merged event as it happens (kill runs log to a file)."""
    import wpull.processor.web as pw
    import wpull.pipeline.session as ps
    merged = []
    orig_fetch_one = pw.WebProcessorSession._fetch_one
    orig_finish = ps.ItemSession.finish
    orig_set_status = ps.ItemSession.set_status
    orig_skip = ps.ItemSession.skip
    cur_item = []

    def fetch_one(self, request):
        ev = {'op': 'fetch', 'item': self._item_session.url_record.url, 'url': request.url_info.url}
        merged.append(ev)
        if event_sink:
            event_sink(ev)
        return orig_fetch_one(self, request)

    def tagged(orig, phase):
        def f(self, *a, **k):
            if cur_item and phase == 'finish':
                return orig(self, *a, **k)        # the flush inside set_status()/skip()
            cur_item.append((self.url_record.url, phase))
            try:
                return orig(self, *a, **k)
            finally:
                cur_item.pop()
        return f

    def on_table(ev):
        ev = dict(ev)
        if cur_item:
            ev['item'], ev['phase'] = cur_item[-1]
        merged.append(ev)
        if event_sink:
            event_sink(ev)
    import wpull.processor.rule as pr_
    orig_rule_init = pr_.FetchRule.__init__
    if opts.get('plugin_accept'):
        from wpull.application.plugin import PluginFunctions

        def rule_init(self, *a, **k):
            orig_rule_init(self, *a, **k)

            def accept_url(item_session, verdict, reasons):
                # a plugin that widens the scope: it keeps what matches its pattern, and leaves the rest alone
                req = getattr(item_session, 'request', None)
                url = req.url_info.url if req is not None else item_session.url_record.url
                return True if re.search(opts['plugin_accept'], url) else verdict
            self.hook_dispatcher.connect(PluginFunctions.accept_url, accept_url)
        pr_.FetchRule.__init__ = rule_init
    pw.WebProcessorSession._fetch_one = fetch_one
    ps.ItemSession.finish = tagged(orig_finish, 'finish')
    ps.ItemSession.set_status = tagged(orig_set_status, 'status')
    ps.ItemSession.skip = tagged(orig_skip, 'status')
    urls = start_urls or site.start_urls()[:1]       # (as the user spells it; the table stores the normal form)
    xargs = list(option_argv(opts)) + list(extra)
    tmp_input = None
    if opts.get('input_file'):
        # the start URLs come from --input-file instead of the command line
        import tempfile
        # inside the run's own directory when there is one: a killed child never reaches the clean-up below
        fd, tmp_input = tempfile.mkstemp(prefix='wpull-verif-input-', suffix='.txt', dir=workdir)
        os.write(fd, ('\n'.join(urls) + '\n').encode())
        os.close(fd)
        xargs += ['--input-file', tmp_input]
        urls = []
    try:
        res = appsim.run_crawl(urls, site.to_server(run_index), seed=seed,
                               concurrent=concurrent, extra=xargs,
                               on_table_event=on_table, workdir=workdir, keep_db=db, on_request=on_request, on_app=on_app,
                               relative_paths=bool(opts.get('relative_paths')) and workdir is not None,
                               **({'max_steps': max_steps} if max_steps else {}))
    finally:
        if tmp_input:
            os.unlink(tmp_input)
        pr_.FetchRule.__init__ = orig_rule_init
        pw.WebProcessorSession._fetch_one = orig_fetch_one
        ps.ItemSession.finish = orig_finish
        ps.ItemSession.set_status = orig_set_status
        ps.ItemSession.skip = orig_skip
    return res, merged


def accept_line(concurrent, start_urls, events, ids, ref, first_run=True):
    evs, batches, notes = trace_to_events(events, ids, ref, first_run)
    visits = build_visits(events, ids, ref, batches)
    line = 'crawl accept %d %s %s %s' % (concurrent + 2, enc([ids(u) for u in start_urls]),
                                         ';'.join(visits) or '~', ';'.join(evs) or '~')
    return line, evs, notes
