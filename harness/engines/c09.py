"""C09 — Nothing a server sends can end the crawl: bad input becomes a per-URL error.

Dynamic side (this file): the REAL receive path is driven with grammar-aware
mutations of valid traffic and with raw random bytes, under segmentation:

  e2e     whole application (appsim) against a hostile HTTP site: the crawl must finish, no
          exception may leave the pipeline, every URL must end in a final state
  http    http Client Session.start/download: only REMOTE_ERRORS may escape
  ftp     ftp Client Session.start/download and start_listing/download_listing against a hostile
          FTP server (replies, PASV answers, listings): only REMOTE_ERRORS may escape
  robots  RobotsTxtChecker.can_fetch on hostile robots.txt answers: only REMOTE_ERRORS
  scrape  DemuxDocumentScraper.scrape_info on hostile HTML/CSS/JS/sitemap documents: nothing may escape

Static side: `harness/skeleton.py` regenerates, on every run, the raise/handle
skeleton of the per-URL handlers from the CURRENT source and the Lean theorem
`Wpull.Skeleton.escape_sound` turns `escapes skeleton ⊆ REMOTE_ERRORS` into a
kernel-checked obligation (see run_static).
"""
import asyncio
import glob
import io
import json
import os
import random
import traceback

import compat  # noqa: F401
import appsim
import fakenet
import hostile
from appsim import Page, html
from runner import unjson, enc

RULE = ('grammar-aware mutations of valid HTTP responses (status line, header spellings, lengths, chunk framing, trailers, '
        'content codings, redirects, cookies), hostile HTML/CSS/JS/sitemap/robots documents, FTP replies, PASV answers and '
        'LIST/MLSD listings, plus raw random bytes, each under random segmentation; one case = one response/document/session; '
        'non-trivial = the input differs from the unmutated template; distinct by input bytes')
TRUSTED = ['declared raise-sets of primitives and third-party parsers in harness/skeleton.py (monitored dynamically: an '
           'observed escape that the skeleton does not predict is reported)',
           'harness/appsim.py, fakenet.py in-memory transports']
ASSUMPTIONS = ['plugins/hooks disconnected; PhantomJS / youtube-dl coprocessors off',
               'per-URL error kinds = wpull.processor.base.REMOTE_ERRORS (read from the source at run time)']
UNPROVED = ['data-dependent raises of third-party parsers (html5lib, zlib, http.cookiejar, robotexclusionrulesparser) are '
            'covered by the dynamic streams only']


def remote_errors():
    from wpull.processor.base import REMOTE_ERRORS
    return REMOTE_ERRORS


def where_of(exc):
    """innermost wpull frame of the traceback: 'module.function'"""
    tb = traceback.extract_tb(exc.__traceback__)
    best = None
    for fr in tb:
        if '/wpull/' in fr.filename and '/harness/' not in fr.filename:
            mod = fr.filename.split('/wpull/', 1)[1].rsplit('.', 1)[0].replace('/', '.')
            best = '%s.%s' % (mod, fr.name)
    return best or 'unknown'


def classify(exc):
    return type(exc).__name__, where_of(exc)


# ------------------------------------------------------------------ e2e
def e2e_worker(args):
    import multiprocessing as _mp
    if _mp.current_process().name != 'MainProcess':
        appsim.quiet_stderr()
    pages, seed, conc = args[:3]
    opt = args[3] if len(args) > 3 else {}
    import wpull.application.app as wa
    crashes = []
    orig = wa.Application._update_exit_code_from_error

    def upd(self, error):
        if not isinstance(error, self.EXPECTED_EXCEPTIONS):
            crashes.append(classify(error) + (repr(error)[:200],))
        return orig(self, error)
    wa.Application._update_exit_code_from_error = upd
    site = {'a.test': {}}
    links = []
    for i, (raw, close, ctype_hint) in enumerate(pages):
        path = '/h%d%s' % (i, ctype_hint)
        links.append(path)
        site['a.test'][path] = Page(raw=raw, close=close)
    site['a.test']['/'] = Page(200, html(links))
    site['a.test']['/robots.txt'] = Page(404, b'')
    extra = ['-r', '-l', '2', '--tries', '1', '--timeout', '5', '--max-redirect', '3',
             '--page-requisites', '--link-extractors', 'html,css,javascript', '--sitemaps']
    if opt.get('robots_raw') is not None:
        # robots checking ON and the robots.txt answer itself is hostile (the processor's own robots path)
        site['a.test']['/robots.txt'] = Page(raw=opt['robots_raw'], close=opt.get('robots_close', False))
    else:
        extra.append('--no-robots')
    extra += opt.get('extra', [])
    workdir = None
    if opt.get('warc'):
        extra += ['--warc-file', 'rec', '--warc-max-size', '2000'] + (['--no-warc-compression'] if opt['warc'] == 'plain' else [])
    try:
        res = appsim.run_crawl(['http://a.test/'], site, seed=seed, concurrent=conc, extra=extra, max_steps=400000,
                               verbose_tty=bool(opt.get('tty')))
    finally:
        wa.Application._update_exit_code_from_error = orig
    return {'crashes': crashes, 'hung': res.hung, 'error': res.error, 'exit_code': res.exit_code,
            'rows': [(r['url'], r['status']) for r in res.rows], 'requests': len(res.requests)}


def gen_pages(rng, n):
    pages = []
    for _ in range(n):
        kind = rng.choice(['html', 'html', 'css', 'js', 'xml', 'any'])
        body = {'html': lambda: hostile.html_doc(rng, ['/leaf']), 'css': lambda: hostile.css_doc(rng), 'js': lambda: hostile.js_doc(rng),
                'xml': lambda: hostile.sitemap_doc(rng), 'any': lambda: hostile.rbytes(rng, rng.randint(0, 60))}[kind]()
        ctype = {'html': 'text/html', 'css': 'text/css', 'js': 'application/javascript', 'xml': 'application/xml', 'any': None}[kind]
        if rng.random() < 0.3:
            ctype = None
        raw, close = hostile.http_response(rng, body=body, ctype=ctype)
        hint = {'html': '.html', 'css': '.css', 'js': '.js', 'xml': '.xml', 'any': ''}[kind]
        pages.append((raw, close, hint))
    return pages


def stream_e2e(ctx, n, pages_per=6):
    import concurrent.futures as cf
    import multiprocessing as mp
    rng = ctx.rng
    args = []
    for _ in range(n):
        opt = {}
        r = rng.random()
        if r < 0.3:
            opt['robots_raw'], opt['robots_close'] = hostile.http_response(rng, body=hostile.robots_doc(rng), ctype='text/plain')
        if rng.random() < 0.25:
            opt['warc'] = rng.choice(['gz', 'plain'])
        if rng.random() < 0.3:
            opt['tty'] = True      # an interactive run: -v with stderr on a terminal (progress bar drawn from server-sent sizes)
        if rng.random() < 0.3:
            opt['extra'] = rng.choice([['--content-disposition'], ['--adjust-extension'], ['--convert-links'], ['--session-timeout', '30'],
                                       ['--strip-session-id', '--escaped-fragment'], ['--save-headers'], ['--ignore-length'], ['--no-strong-crypto'],
                                       ['--http-compression'], ['--restrict-file-names', 'windows,lower'], ['--server-response'], ['--progress', 'dot'],
                                       ['--progress', 'bar'], ['--ascii-print'],
                                       # requests that carry a body (a 307 / 308 answer asks for the same request again)
                                       ['--post-data', 'a=1&b=2'], ['--post-data', 'a=1&b=2'], ['--post-data', 'x=' + 'y' * 5000], ['--post-data', '']])
        args.append((gen_pages(rng, pages_per), rng.randrange(1 << 30), rng.choice([1, 2]), opt))
    with cf.ProcessPoolExecutor(max_workers=min(ctx.jobs, max(1, len(args))), mp_context=mp.get_context('fork')) as ex:
        results = list(ex.map(e2e_worker, args, chunksize=2))
    for (pages, seed, conc, opt), r in zip(args, results):
        case = {'stream': 'e2e', 'pages': [(p[0], p[1], p[2]) for p in pages], 'seed': seed, 'conc': conc, 'opt': opt}
        ctx.case(('e2e', tuple(p[0] for p in pages)), tags=['e2e:requests=%d' % min(r['requests'], 9)])
        judge_e2e(ctx, r, case)
    if args:
        ctx.sample({'stream': 'e2e', 'first_page': args[0][0][0][0][:300]})


def judge_e2e(ctx, r, case):
    for cls, where, text in r['crashes']:
        ctx.fail(cls, where, case, 'exception left the pipeline and stopped the crawl: %s' % text)
    if r['hung']:
        ctx.fail('hang', 'crawl', case, 'event loop ran dry')
    elif r['error']:
        ctx.fail('app-error', 'crawl', case, r['error'])
    elif not r['crashes']:
        bad = [x for x in r['rows'] if x[1] not in ('done', 'skipped', 'error')]
        if bad:
            ctx.fail('not-final', 'table', case, 'rows left: %s' % bad[:3])


# ------------------------------------------------------------------ scrape
def make_scraper():
    from wpull.document.htmlparse.html5lib_ import HTMLParser
    from wpull.scraper.base import DemuxDocumentScraper
    from wpull.scraper.css import CSSScraper
    from wpull.scraper.html import HTMLScraper, ElementWalker
    from wpull.scraper.javascript import JavaScriptScraper
    from wpull.scraper.sitemap import SitemapScraper
    parser = HTMLParser()
    css = CSSScraper()
    js = JavaScriptScraper()
    walker = ElementWalker(css_scraper=css, javascript_scraper=js)
    return DemuxDocumentScraper([HTMLScraper(parser, walker, robots=True), css, js, SitemapScraper(parser)])


def scrape_once(scraper, url, ctype, data, extra_fields=()):
    from wpull.protocol.http.request import Request, Response
    from wpull.body import Body
    request = Request(url)
    response = Response(200, 'OK')
    if ctype is not None:
        response.fields['Content-Type'] = ctype
    for k, v in extra_fields:
        response.fields[k] = v
    response.body = Body()
    response.body.write(data)
    response.body.seek(0)        # Session.download rewinds the body before anything reads it
    response.request = request
    try:
        info = scraper.scrape_info(request, response)
        store_links(url, info)
        return None
    except Exception as e:   # noqa
        return e
    finally:
        response.body.close()


_STORE = {'table': None, 'n': 0}


def store_links(parent_url, info):
    """What the processing rule does next with a scrape result: every link that parses is stored in the URL table with
    the link type the scraper gave it (ItemSession.add_child_url -> add_many).  A value the table cannot hold raises
    there, outside any per-URL handler."""
    from wpull.database.sqltable import SQLiteURLTable
    from wpull.database.base import AddURLInfo
    from wpull.pipeline.item import URLProperties, URLData
    from wpull.url import parse_url_or_log
    if _STORE['table'] is None or _STORE['n'] > 400:
        if _STORE['table'] is not None:
            _STORE['table'].close()
        _STORE['table'], _STORE['n'] = SQLiteURLTable(':memory:'), 0
    _STORE['n'] += 1
    batch = []
    for result in (info or {}).values():
        if not result:
            continue
        for lc in result.link_contexts:
            if not parse_url_or_log(lc.link):
                continue
            props = URLProperties()
            props.level, props.parent_url, props.root_url, props.link_type = 1, parent_url, parent_url, lc.link_type
            props.inline_level = 1 if lc.inline else None
            batch.append(AddURLInfo(lc.link, props, URLData()))
    if batch:
        _STORE['table'].add_many(batch)
        for a in batch:
            _STORE['table'].get_one(a.url)      # what check_out does later: the stored record is read back


def stream_scrape(ctx, n):
    rng = ctx.rng
    scraper = make_scraper()
    first = None
    for _ in range(n):
        kind = rng.choice(['html', 'html', 'html', 'css', 'js', 'xml', 'robots'])
        data = {'html': lambda: hostile.html_doc(rng, ['/x']), 'css': lambda: hostile.css_doc(rng), 'js': lambda: hostile.js_doc(rng),
                'xml': lambda: hostile.sitemap_doc(rng), 'robots': lambda: hostile.robots_doc(rng)}[kind]()
        ctype = rng.choice([{'html': 'text/html', 'css': 'text/css', 'js': 'application/javascript', 'xml': 'text/xml', 'robots': 'text/plain'}[kind],
                            'text/html; charset=bogus', 'text/html; charset=utf-16', None, 'application/xhtml+xml', 'text/css; charset=\x00',
                            'text/html; charset=' + hostile.charset(rng), 'text/css; charset=' + hostile.charset(rng),
                            'application/javascript; charset=' + hostile.charset(rng), 'text/xml; charset=' + hostile.charset(rng)])
        url = rng.choice(['http://a.test/d.html', 'http://a.test/s.css', 'http://a.test/x.js', 'http://a.test/sitemap.xml', 'http://a.test/robots.txt',
                          'http://a.test/sitemap.xml.gz', 'http://a.test/'])
        extra = [('Refresh', rng.choice(['0; url=/r', 'x', '0;url=http://[']))] if rng.random() < 0.2 else []
        first = first or {'stream': 'scrape', 'url': url, 'ctype': ctype, 'data': data}
        ctx.case(('scrape', url, ctype, data), tags=['scrape:' + kind])
        e = scrape_once(scraper, url, ctype, data, extra)
        if e is not None:
            cls, where = classify(e)
            ctx.fail(cls, where, {'stream': 'scrape', 'url': url, 'ctype': ctype, 'data': data, 'extra': extra},
                     'scrape_info raised %r (link extraction runs outside the per-URL handler)' % e)
    if first:
        ctx.sample(first)


# ------------------------------------------------------------------ http session / robots
class RawHandler:
    """`raw`: the bytes answered to every request, or a list: the i-th request (over all connections, whatever
    host it is addressed to) gets the i-th entry, the last one repeating — a server that behaves in steps."""

    def __init__(self, raw, close, segs_rng, state=None):
        self.raws = raw if isinstance(raw, list) else [raw]
        self.close_after, self.rng = close, segs_rng
        self.state = state if state is not None else {'i': 0}
        self.buf = b''

    def on_write(self, conn, data):
        self.buf += data
        if b'\r\n\r\n' in self.buf:
            self.buf = b''
            i = min(self.state['i'], len(self.raws) - 1)
            self.state['i'] += 1
            raw = self.raws[i]
            last = i == len(self.raws) - 1
            cuts = fakenet.random_cuts(self.rng, len(raw))
            asyncio.ensure_future(conn.send_segments(fakenet.segment(raw, cuts), eof=self.close_after if last else False))


def redirect_raw(rng, location):
    code = rng.choice([301, 302, 303, 307, 308])
    body = rng.choice([b'', b'moved'])
    return ('HTTP/1.1 %d Moved\r\nLocation: %s\r\nContent-Length: %d\r\n\r\n' % (code, location, len(body))).encode('latin-1') + body


ROBOTS_HOPS = ['/r2.txt', 'http://a.test/other.txt', 'http://b.test/robots.txt', 'https://a.test/robots.txt', 'http://a.test:81/robots.txt',
               'http://www.a.test/robots.txt', '//b.test/r', 'https://b.test:8443/x', 'http://a.test./robots.txt', 'HTTP://A.TEST/robots.txt']


def http_once(raw, close, seed, robots=False, writer=None):
    from wpull.network.pool import ConnectionPool
    from wpull.protocol.http.client import Client
    from wpull.protocol.http.request import Request
    from wpull.protocol.http.web import WebClient
    from wpull.protocol.http.robots import RobotsTxtChecker

    async def go():
        net = fakenet.FakeNet()
        rng = random.Random(seed)
        state = {'i': 0}
        net.default = lambda: RawHandler(raw, close, rng, state)
        with net:
            pool = ConnectionPool(resolver=fakenet.FakeResolver())
            client = Client(connection_pool=pool)
            if robots:
                checker = RobotsTxtChecker(web_client=WebClient(http_client=client))
                import tempfile
                tmp = tempfile.NamedTemporaryFile(prefix='wpull-verif-robots-')
                coro = checker.can_fetch(Request('http://a.test/page'), file=tmp)

                async def run_it():
                    return await compat._ensure(coro)
            else:
                async def run_it():
                    wsession = None
                    request = Request('http://a.test/dir/x')
                    if writer is not None:
                        # the file writer of a saving crawl, called as WebProcessorSession does: before the request, when
                        # the response head is in, after the download (all of it outside the per-URL handler)
                        import wpull.writer as ww
                        from wpull.path import PathNamer
                        cls = {'overwrite': ww.OverwriteFileWriter, 'anticlobber': ww.AntiClobberFileWriter, 'timestamping': ww.TimestampingFileWriter}[writer['kind']]
                        wsession = cls(PathNamer(writer['dir'], use_dir=True), headers_included=writer['headers'], local_timestamping=True,
                                       adjust_extension=writer['adjust'], content_disposition=writer['cd'], file_continuing=writer['cont']).session()
                        request = wsession.process_request(request) or request
                    with client.session() as session:
                        response = await compat._ensure(session.start(request))
                        if wsession is not None:
                            wsession.process_response(response)
                        await compat._ensure(session.download(file=None if (wsession is not None and response.body) else io.BytesIO(), duration_timeout=30))
                        if wsession is not None:
                            if response.status_code in (200, 206):
                                wsession.save_document(response)
                            else:
                                wsession.discard_document(response)
                        # what the option features do with the parsed response afterwards, outside the per-URL
                        # handler: --save-headers / --server-response serialise it, the WARC/CDX and database
                        # paths take its dictionary form and single fields
                        response.to_bytes()
                        response.to_dict()
                        str(response)
                        list(response.fields.get_all())
            task = asyncio.ensure_future(run_it())
            done = await fakenet.settle(task, [], extra=300)
            if not done:
                task.cancel()
                try:
                    await task
                except BaseException:
                    pass
                return 'stalled'
            try:
                task.result()
                return None
            except Exception as e:  # noqa
                return e
    return compat.run(go())


def http_with_writer(raw, close, seed, writer):
    import shutil
    import tempfile
    tmp = tempfile.mkdtemp(prefix='wpull-verif-c09w-')
    cwd = os.getcwd()
    try:
        os.chdir(tmp)
        if writer.get('cont') or writer['kind'] == 'timestamping':
            os.makedirs(os.path.join(tmp, 'a.test', 'dir'), exist_ok=True)
            with open(os.path.join(tmp, 'a.test', 'dir', 'x'), 'wb') as f:
                f.write(b'earlier part')
        return http_once(raw, close, seed, writer=dict(writer, dir=tmp))
    finally:
        os.chdir(cwd)
        shutil.rmtree(tmp, ignore_errors=True)


def stream_http(ctx, n, robots=False):
    rng = ctx.rng
    name = 'robots' if robots else 'http'
    first = None
    for _ in range(n):
        if robots:
            body = hostile.robots_doc(rng)
            raw, close = hostile.http_response(rng, body=body, ctype='text/plain')
            r = rng.random()
            if r < 0.45:
                # robots.txt moved: 1-3 redirects (same origin, other scheme / port / host), then the answer
                final = raw if rng.random() < 0.5 else (b'HTTP/1.1 200 OK\r\nContent-Type: text/plain\r\nContent-Length: %d\r\n\r\n' % len(body)) + body
                raw = [redirect_raw(rng, rng.choice(ROBOTS_HOPS)) for _ in range(rng.choice([1, 1, 2, 3]))] + [final]
        else:
            raw, close = hostile.http_response(rng)
        seed = rng.randrange(1 << 30)
        writer = None
        if not robots and rng.random() < 0.5:
            writer = {'kind': rng.choice(['overwrite', 'overwrite', 'anticlobber', 'timestamping']), 'headers': rng.random() < 0.3, 'adjust': rng.random() < 0.3,
                      'cd': rng.random() < 0.5, 'cont': rng.random() < 0.2}
        first = first or {'stream': name, 'raw': raw, 'close': close, 'seed': seed}
        r = http_with_writer(raw, close, seed, writer) if writer else http_once(raw, close, seed, robots=robots)
        tag = 'ok' if r is None else r if isinstance(r, str) else type(r).__name__
        ctx.case((name, tuple(raw) if isinstance(raw, list) else raw, close),
                 tags=['%s:%s' % (name, tag)] + (['%s:moved-%d' % (name, len(raw) - 1)] if isinstance(raw, list) else []))
        if isinstance(r, Exception) and not isinstance(r, remote_errors()):
            cls, where = classify(r)
            ctx.fail(cls, where, {'stream': name, 'raw': raw, 'close': close, 'seed': seed, 'writer': writer},
                     '%s raised %r, which is not one of the per-URL error kinds' % ('can_fetch' if robots else 'Session.start/download' + (' / file writer' if writer else ''), r))
    if first:
        ctx.sample(first)


# ------------------------------------------------------------------ web session with the cookie jar the application builds
def cookies_once(raws, urls, seed):
    """Fetch `urls` one after the other through the real WebClient with the application's cookie jar and policy
    (http.cookiejar.CookieJar + DeFactoCookiePolicy + CookieJarWrapper); the i-th request gets raws[i]."""
    import http.cookiejar
    from wpull.cookie import DeFactoCookiePolicy
    from wpull.cookiewrapper import CookieJarWrapper
    from wpull.network.pool import ConnectionPool
    from wpull.protocol.http.client import Client
    from wpull.protocol.http.request import Request
    from wpull.protocol.http.web import WebClient

    async def go():
        net = fakenet.FakeNet()
        rng = random.Random(seed)
        state = {'i': 0}
        net.default = lambda: RawHandler(list(raws), False, rng, state)
        with net:
            jar = http.cookiejar.CookieJar()
            jar.set_policy(DeFactoCookiePolicy(cookie_jar=jar))
            web = WebClient(http_client=Client(connection_pool=ConnectionPool(resolver=fakenet.FakeResolver())),
                            cookie_jar=CookieJarWrapper(jar))

            async def run_it():
                for u in urls:
                    session = web.session(Request(u))
                    with session:
                        while not session.done():
                            await compat._ensure(session.start())
                            await compat._ensure(session.download(file=io.BytesIO(), duration_timeout=30))
            task = asyncio.ensure_future(run_it())
            done = await fakenet.settle(task, [], extra=20000)
            if not done:
                task.cancel()
                try:
                    await task
                except BaseException:
                    pass
                return 'stalled'
            try:
                task.result()
                return None
            except Exception as e:  # noqa
                return e
    return compat.run(go())


def gen_set_cookie(rng, i):
    name = 'c%d' % i if rng.random() < 0.85 else rng.choice(['sid', '', 'a b', 'x=y', '$Version', 'é'])   # mostly distinct: the jar fills up
    val = rng.choice(['v', '', '"q"', 'a;b', 'x' * 300, '\udcff'.encode('utf-8', 'surrogateescape').decode('latin-1')])
    attrs = []
    if rng.random() < 0.5:
        attrs.append('Path=' + rng.choice(['/', '/shop', '/shop/cart', '/a/b/c/', '', 'nopath', '/%zz', '/x' * 100]))
    if rng.random() < 0.15:
        attrs.append('Domain=' + rng.choice(['a.test', '.a.test', 'test', '.test', 'b.test', 'a.test.', '', '.', 'sub.a.test', '[::1]', 'a.test:80']))
    if rng.random() < 0.3:
        attrs.append(rng.choice(['Expires=Wed, 09 Jun 2021 10:18:14 GMT', 'Expires=garbage', 'Max-Age=0', 'Max-Age=-1', 'Max-Age=x', 'Max-Age=' + '9' * 40,
                                 'Expires=Thu, 01 Jan 1970 00:00:00 GMT', 'Expires=Fri, 31 Dec 9999 23:59:59 GMT']))
    if rng.random() < 0.2:
        attrs.append(rng.choice(['Secure', 'HttpOnly', 'Version=1', 'Version=x', 'Port="80,x"', 'Comment=\x00', 'Discard']))
    return '%s=%s%s' % (name, val, ''.join('; ' + a for a in attrs))


def stream_cookies(ctx, n):
    rng = ctx.subrng('cookies')
    first = None
    for _ in range(n):
        k = rng.randint(2, 5)
        urls, raws = [], []
        for j in range(k):
            urls.append('http://a.test' + rng.choice(['/', '/index.html', '/shop/cart.html', '/a/b/c/d.html', '/shop/', '/x?y=1', '/robots.txt']))
            ncookies = rng.choice([0, 1, 3, 40, 90, 130]) if j < k - 1 else rng.choice([0, 1, 2])
            hdr = ['HTTP/1.1 200 OK', 'Content-Length: 2', 'Content-Type: text/html']
            hdr += ['%s: %s' % (rng.choice(['Set-Cookie', 'Set-Cookie', 'set-cookie', 'Set-Cookie2']), gen_set_cookie(rng, i + 100 * j)) for i in range(ncookies)]
            raws.append(('\r\n'.join(hdr) + '\r\n\r\n').encode('latin-1', 'replace') + b'ok')
        seed = rng.randrange(1 << 30)
        case = {'stream': 'cookies', 'raws': raws, 'urls': urls, 'seed': seed}
        first = first or case
        r = cookies_once(raws, urls, seed)
        tag = 'ok' if r is None else r if isinstance(r, str) else type(r).__name__
        ctx.case(('cookies', tuple(raws), tuple(urls)), tags=['cookies:' + tag, 'cookies:max-per-response=%d' % max(x.count(b'ookie') for x in raws)])
        if isinstance(r, Exception) and not isinstance(r, remote_errors()):
            cls, where = classify(r)
            ctx.fail(cls, where, case, 'a web session with the cookie jar raised %r, which is not one of the per-URL error kinds' % r)
    if first:
        ctx.sample({'stream': 'cookies', 'urls': first['urls']})


# ------------------------------------------------------------------ ftp
class HostileFtp:
    def __init__(self, rng, plan):
        self.rng, self.plan = rng, plan
        self.buf = b''

    async def serve(self, conn):
        conn.send(self.plan.get('greet', b'220 ready\r\n'))

    def on_write(self, conn, data):
        self.buf += data
        while b'\n' in self.buf:
            line, _, self.buf = self.buf.partition(b'\n')
            verb = line.split(b' ', 1)[0].upper().strip()
            rep = self.plan.get(verb.decode('latin-1'))
            if rep is None:
                rep = b'500 unknown\r\n'
            segs = fakenet.segment(rep, fakenet.random_cuts(self.rng, len(rep)))
            for s in segs:
                conn.send(s)
            if verb in (b'RETR', b'LIST', b'MLSD') and rep[:1] == b'1':
                after = self.plan.get('after', b'226 done\r\n')
                loop = asyncio.get_event_loop()
                # a few loop iterations later (no real time passes in `settle`)
                def later(n=5):
                    if n:
                        loop.call_soon(later, n - 1)
                    else:
                        conn.send(after)
                        if self.plan.get('close_ctrl'):
                            conn.close()
                loop.call_soon(later)


class HostileData:
    def __init__(self, data, close=True):
        self.data, self.close_after = data, close

    async def serve(self, conn):
        if self.data:
            conn.send(self.data)
        if self.close_after:
            conn.close()


def gen_ftp_plan(rng, listing):
    h = hostile
    plan = {'greet': h.ftp_reply(rng, 220, 'ready'), 'USER': h.ftp_reply(rng, 331, 'pw'), 'PASS': h.ftp_reply(rng, 230, 'in'),
            'TYPE': h.ftp_reply(rng, 200, 'ok'), 'PASV': h.ftp_reply(rng, 227, h.ftp_pasv(rng)),
            'SIZE': h.ftp_reply(rng, 213, rng.choice(['3', 'x', '', '９', '-1', '1' * 40])), 'REST': h.ftp_reply(rng, 350, 'ok'),
            'RETR': h.ftp_reply(rng, 150, 'here'), 'after': h.ftp_reply(rng, 226, 'done')}
    mlsd = rng.random() < 0.5
    plan['MLSD'] = h.ftp_reply(rng, 150, 'here') if mlsd else rng.choice([b'500 no\r\n', b'502 no\r\n', b'550 no\r\n'])
    plan['LIST'] = h.ftp_reply(rng, 150, 'here')
    data = h.ftp_listing(rng, mlsd) if listing else h.rbytes(rng, rng.choice([0, 3, 100]))
    return plan, data, mlsd


GOOD_FTP = {'greet': b'220 ready\r\n', 'USER': b'331 pw\r\n', 'PASS': b'230 in\r\n', 'TYPE': b'200 ok\r\n',
            'PASV': b'227 Entering Passive Mode (10,0,0,1,7,228)\r\n', 'SIZE': b'213 3\r\n', 'REST': b'350 ok\r\n', 'RETR': b'150 here\r\n',
            'after': b'226 done\r\n', 'MLSD': b'150 here\r\n', 'LIST': b'150 here\r\n', 'CWD': b'250 ok\r\n'}


def gen_ftp_plan_polite(rng):
    """A server whose replies are all in order, so that what it LISTS is what gets processed: hostile entry
    names, symlinks (duplicate names, names with separators / NUL / dots, odd targets), odd sizes and dates."""
    plan = dict(GOOD_FTP)
    mlsd = rng.random() < 0.4
    if not mlsd:
        plan['MLSD'] = rng.choice([b'500 no\r\n', b'502 no\r\n'])
    lines = []
    for _ in range(rng.randint(1, 5)):
        name = rng.choice(hostile.ODD_NAMES + ['l', 'l', 'a.txt', 'd'])
        if mlsd:
            lines.append(rng.choice(['type=file;size=3;modify=20200101000000; %s', 'type=dir; %s', 'type=OS.unix=slink:/etc/passwd; %s',
                                     'type=OS.unix=symlink; %s', 'type=symlink;size=3; %s', 'type=symlink; %s', 'Type=SymLink;unix.mode=0777; %s', 'type=file;size=3;unix.mode=0644; %s', 'type=file;perm=r;unix.mode=9999; %s']) % name)
        else:
            lines.append(rng.choice(['lrwxrwxrwx 1 u g 1 Jan 1 2020 %s -> t', 'lrwxrwxrwx 1 u g 1 Jan 1 2020 %s -> /etc/passwd',
                                     'lrwxrwxrwx 1 u g 1 Jan 1 2020 %s -> ../../x', 'lrwxrwxrwx 1 u g 1 Jan 1 2020 %s', 'lrwxrwxrwx 1 u g 1 Jan 1 2020 %s -> ',
                                     '-rw-r--r-- 1 u g 3 Jan 01 2020 %s', 'drwxr-xr-x 2 u g 4096 Jan 01 00:00 %s', '-rwsr-sr-t 1 u g 3 Jan 01 2020 %s',
                                     '---------- 1 u g 3 Jan 01 2020 %s']) % name)
    data = ('\r\n'.join(lines) + '\r\n').encode('utf-8', 'surrogateescape')
    return plan, data, mlsd


def ftp_once(plan, data, listing, seed):
    from wpull.network.pool import ConnectionPool
    from wpull.protocol.ftp.client import Client
    from wpull.protocol.ftp.request import Request

    async def go():
        net = fakenet.FakeNet()
        rng = random.Random(seed)
        net.listen('10.0.0.1', 21, lambda: HostileFtp(rng, plan))
        net.default = lambda: HostileData(data)
        with net:
            pool = ConnectionPool(resolver=fakenet.FakeResolver())
            client = Client(connection_pool=pool)

            async def run_it():
                with client.session() as session:
                    request = Request('ftp://a.test/dir/f.txt' if not listing else 'ftp://a.test/dir/')
                    if listing:
                        await compat._ensure(session.start_listing(request))
                        await compat._ensure(session.download_listing(io.BytesIO(), duration_timeout=30))
                    else:
                        await compat._ensure(session.start(request))
                        await compat._ensure(session.download(io.BytesIO(), duration_timeout=30))
            task = asyncio.ensure_future(run_it())
            done = await fakenet.settle(task, [], extra=300)
            if not done:
                task.cancel()
                try:
                    await task
                except BaseException:
                    pass
                return 'stalled'
            try:
                task.result()
                return None
            except Exception as e:  # noqa
                return e
    return compat.run(go())


def stream_ftp(ctx, n):
    rng = ctx.rng
    first = None
    for _ in range(n):
        listing = rng.random() < 0.6
        plan, data, mlsd = gen_ftp_plan(rng, listing)
        seed = rng.randrange(1 << 30)
        case = {'stream': 'ftp', 'plan': plan, 'data': data, 'listing': listing, 'seed': seed}
        first = first or case
        r = ftp_once(plan, data, listing, seed)
        tag = 'ok' if r is None else r if isinstance(r, str) else type(r).__name__
        ctx.case(('ftp', json.dumps({k: v.hex() for k, v in plan.items()}, sort_keys=True), data, listing),
                 tags=['ftp:%s:%s' % ('listing' if listing else 'file', tag)])
        if isinstance(r, Exception) and not isinstance(r, remote_errors()):
            cls, where = classify(r)
            ctx.fail(cls, where, case, 'ftp session raised %r, which is not one of the per-URL error kinds' % r)
    if first:
        ctx.sample(first)


# ------------------------------------------------------------------ ftp processor (per-URL handler level)
class _StubTable:
    def __init__(self):
        self.calls = []

    def get_hostnames(self):
        return ['a.test']

    def check_in(self, url, status, **kw):
        self.calls.append(('check_in', url, status.value))

    def add_many(self, *a, **k):
        self.calls.append(('add_many', [getattr(x, 'url', None) for x in (a[0] if a else [])]))

    def update_one(self, *a, **k):
        pass

    def remove_many(self, *a, **k):
        pass


def ftp_proc_once(plan, data, url, glob_on, preserve, seed, opts=None):
    """The REAL FTPProcessor.process(item) (file-vs-directory probe of the parent, glob listing, fetch,
    permission probe) against a hostile FTP server.  Nothing may leave process(): it runs directly under
    the pipeline worker."""
    import os
    import shutil
    import tempfile
    import types
    from wpull.network.pool import ConnectionPool
    from wpull.pipeline.item import URLRecord
    from wpull.pipeline.session import ItemSession
    from wpull.processor.ftp import FTPProcessor, FTPProcessorFetchParams
    from wpull.processor.rule import FetchRule, ResultRule
    from wpull.protocol.ftp.client import Client
    from wpull.stats import Statistics
    from wpull.waiter import LinearWaiter
    from wpull.writer import NullWriter

    async def go(tmp):
        net = fakenet.FakeNet()
        rng = random.Random(seed)
        net.listen('10.0.0.1', 21, lambda: HostileFtp(rng, plan))
        net.default = lambda: HostileData(data)
        with net:
            pool = ConnectionPool(resolver=fakenet.FakeResolver())
            client = Client(connection_pool=pool)
            table = (opts or {}).get('table') or _StubTable()
            from wpull.urlfilter import DemuxURLFilter
            o = opts or {}
            writer = NullWriter()
            if o.get('file_writer'):
                # files really saved below tmp (what --retr-symlinks off and the permission code need)
                from wpull.path import PathNamer
                import wpull.writer as ww
                kind = o.get('writer_kind', 'overwrite')
                cls = {'overwrite': ww.OverwriteFileWriter, 'timestamping': ww.TimestampingFileWriter, 'anticlobber': ww.AntiClobberFileWriter,
                       'ignore': ww.IgnoreFileWriter}[kind]
                writer = cls(PathNamer(os.path.join(tmp, 'out'), use_dir=True, hostname=True))
                if o.get('existing'):
                    # a file left by an earlier run where this URL is to be saved (what -N / -nc / the numbered names look at)
                    from wpull.url import URLInfo
                    try:
                        ui = URLInfo.parse(url)
                        target = os.path.join(tmp, 'out', ui.hostname, *[p for p in ui.path.split('/') if p]) if ui.path.strip('/') else None
                        if target and not ui.path.endswith('/'):
                            os.makedirs(os.path.dirname(target), exist_ok=True)
                            with open(target, 'wb') as f:
                                f.write(b'old')
                    except (ValueError, OSError):
                        pass
            if o.get('warc'):
                # --warc-file: the recorder listens to every FTP session (control conversation, data)
                from wpull.warc.recorder import WARCRecorder, WARCRecorderParams
                recorder = WARCRecorder(os.path.join(tmp, 'rec'), params=WARCRecorderParams(compress=False, temp_dir=tmp, log=False))
                recorder.listen_to_ftp_client(client)
            factory = {'FileWriter': writer, 'FetchRule': FetchRule(url_filter=DemuxURLFilter([])),
                       'ResultRule': ResultRule(waiter=LinearWaiter(wait=0, max_wait=0), statistics=Statistics()),
                       'URLTable': table}
            r = URLRecord()
            r.url, r.parent_url, r.root_url, r.level, r.inline_level, r.try_count = url, None, None, 0, None, 0
            r.post_data = r.status_code = r.filename = None
            r.priority = 0
            r.link_type = None
            item = ItemSession(types.SimpleNamespace(factory=factory, root_path=tmp), r)
            proc = FTPProcessor(client, FTPProcessorFetchParams(glob=glob_on, preserve_permissions=preserve,
                                                                retr_symlinks=o.get('retr_symlinks', True),
                                                                remove_listing=o.get('remove_listing', True)))
            task = asyncio.ensure_future(compat._ensure(proc.process(item)))
            done = await fakenet.settle(task, [], extra=400)
            if not done:
                task.cancel()
                try:
                    await task
                except BaseException:
                    pass
                return 'stalled'
            try:
                task.result()
                return None
            except Exception as e:  # noqa
                return e
    tmp = tempfile.mkdtemp(prefix='wpull-verif-c09-')
    cwd = os.getcwd()
    os.chdir(tmp)
    try:
        return compat.run(go(tmp))
    finally:
        os.chdir(cwd)
        shutil.rmtree(tmp, ignore_errors=True)


def stream_ftp_proc(ctx, n):
    rng = ctx.rng
    first = None
    for _ in range(n):
        url = rng.choice(['ftp://a.test/dir/f.txt', 'ftp://a.test/dir/f.txt', 'ftp://a.test/dir/', 'ftp://a.test/dir/*.txt',
                          'ftp://a.test/f', 'ftp://u:p@a.test/dir/sub/f.bin'])
        if rng.random() < 0.35:
            plan, data, mlsd = gen_ftp_plan_polite(rng)
            url = rng.choice(['ftp://a.test/dir/', 'ftp://a.test/dir/*', 'ftp://a.test/dir/l', 'ftp://a.test/dir/a.txt'])
        else:
            plan, data, mlsd = gen_ftp_plan(rng, True)
        glob_on, preserve = rng.random() < 0.7, rng.random() < 0.5
        seed = rng.randrange(1 << 30)
        opts = {'file_writer': rng.random() < 0.5, 'warc': rng.random() < 0.4, 'retr_symlinks': rng.random() < 0.6,
                'writer_kind': rng.choice(['overwrite', 'overwrite', 'timestamping', 'anticlobber', 'ignore']), 'existing': rng.random() < 0.5}
        case = {'stream': 'ftp-proc', 'plan': plan, 'data': data, 'url': url, 'glob': glob_on, 'preserve': preserve, 'seed': seed, 'opts': opts}
        first = first or case
        r = ftp_proc_once(plan, data, url, glob_on, preserve, seed, opts)
        tag = 'ok' if r is None else r if isinstance(r, str) else type(r).__name__
        ctx.case(('ftp-proc', json.dumps({k: v.hex() for k, v in plan.items()}, sort_keys=True), data, url), tags=['ftp-proc:' + tag])
        if isinstance(r, Exception):
            cls, where = classify(r)
            ctx.fail(cls, where, case, 'FTPProcessor.process raised %r: nothing above it turns that into a per-URL failure' % r)
    if first:
        ctx.sample(first)


# ------------------------------------------------------------------ entry points
def replay(ctx, case, kind=None, where=None):
    s = case.get('stream')
    if s == 'status':
        return stream_status(ctx, 1, [case['line']])
    if s == 'e2e':
        r = e2e_worker(([tuple(p) for p in case['pages']], case['seed'], case['conc'], case.get('opt') or {}))
        ctx.case(('e2e', case['seed']))
        judge_e2e(ctx, r, case)
    elif s == 'scrape':
        ctx.case(('scrape', case['data']))
        e = scrape_once(make_scraper(), case['url'], case['ctype'], case['data'], [tuple(x) for x in case.get('extra', [])])
        if e is not None:
            cls, w = classify(e)
            ctx.fail(cls, w, case, 'scrape_info raised %r' % e)
    elif s in ('http', 'robots'):
        ctx.case((s, repr(case['raw'])))
        if case.get('writer'):
            r = http_with_writer(case['raw'], case['close'], case['seed'], case['writer'])
        else:
            r = http_once(case['raw'], case['close'], case['seed'], robots=(s == 'robots'))
        if isinstance(r, Exception) and not isinstance(r, remote_errors()):
            cls, w = classify(r)
            ctx.fail(cls, w, case, 'raised %r' % r)
    elif s == 'cookies':
        ctx.case(('cookies', case['seed']))
        r = cookies_once(case['raws'], case['urls'], case['seed'])
        if isinstance(r, Exception) and not isinstance(r, remote_errors()):
            cls, w = classify(r)
            ctx.fail(cls, w, case, 'raised %r' % r)
    elif s == 'ftp':
        ctx.case(('ftp', case['seed']))
        r = ftp_once(case['plan'], case['data'], case['listing'], case['seed'])
        if isinstance(r, Exception) and not isinstance(r, remote_errors()):
            cls, w = classify(r)
            ctx.fail(cls, w, case, 'ftp session raised %r' % r)
    elif s == 'ftp-proc':
        ctx.case(('ftp-proc', case['seed']))
        r = ftp_proc_once(case['plan'], case['data'], case['url'], case['glob'], case['preserve'], case['seed'], case.get('opts'))
        if isinstance(r, Exception):
            cls, w = classify(r)
            ctx.fail(cls, w, case, 'FTPProcessor.process raised %r' % r)
    elif s == 'static':
        run_static(ctx)


def stream_pasv(ctx, n):
    """parse_address on replies holding any six numbers of one to three digits (and fewer / more): the real
    function against the model `Wpull.Ftp.parseAddress`; an accepted address always names a port connect() accepts."""
    from wpull.protocol.ftp.util import parse_address
    rng = ctx.rng
    reqs, meta = [], []
    for i in range(n):
        k = 6 if rng.random() < 0.9 else rng.choice([0, 1, 5])
        nums = [rng.choice([0, 1, 7, 10, 127, 228, 255, 256, 257, 300, 511, 512, 999, rng.randint(0, 999)]) for _ in range(k)]
        text = rng.choice(['Entering Passive Mode (%s)', '(%s)', '=(%s).', 'ok (%s) bye']) % rng.choice([',', ', ', ' ,']).join(str(x) for x in nums)
        try:
            host, port = parse_address(text)
            real = 'ok %s %d' % (host, port)
        except ValueError:
            real = 'exc ValueError'
        except Exception as e:   # noqa
            real = 'exc ' + type(e).__name__
        reqs.append('ftp pasv ' + (','.join(str(x) for x in nums) if nums else '0'))
        meta.append((text, real, len(nums)))
    replies = ctx.model.ask(reqs)
    for (text, real, k), rep in zip(meta, replies):
        ctx.case(('pasv', text), tags=['pasv:' + real.split(' ')[0]])
        if k == 6 and rep != real:
            ctx.disagree('pasv', {'stream': 'pasv', 'text': text}, rep, real)
        if real.startswith('ok') and int(real.split(' ')[2]) > 65535:
            ctx.fail('OverflowError', 'parse_address', {'stream': 'pasv', 'text': text}, 'accepted address %s: connect() raises OverflowError for this port' % real)
    if meta:
        ctx.sample({'stream': 'pasv', 'text': meta[0][0]})


def stream_cache(ctx, n):
    """wpull.cache (the FTP processor's listing cache, the DNS cache) over long runs: random histories with a clock that
    jumps past the time to live.  The way the callers use it — `if key in cache: value = cache[key]` — must never raise,
    whatever time passed between two uses (a KeyError there leaves FTPProcessor.process: no per-URL error kind)."""
    import wpull.cache as wc
    rng = ctx.rng
    real_time = wc.time
    clock = {'t': 1000.0}

    class _Time:
        @staticmethod
        def time():
            return clock['t']
    wc.time = _Time
    first = None
    try:
        for _ in range(n):
            cls = rng.choice([wc.FIFOCache, wc.LRUCache])
            ttl = rng.choice([None, 5, 60, 3600])
            cache = cls(max_items=rng.choice([None, 1, 2, 10]), time_to_live=ttl)
            ops = []
            bad = None
            for _ in range(rng.randint(3, 30)):
                op = rng.choice(['set', 'set', 'use', 'use', 'use', 'wait', 'len', 'iter'])
                key = rng.choice(['ftp://h/a/', 'ftp://h/b/', 'ftp://h/c/', 'k'])
                ops.append((op, key))
                try:
                    if op == 'set':
                        cache[key] = len(ops)
                    elif op == 'use':
                        if key in cache:
                            cache[key]
                    elif op == 'wait':
                        clock['t'] += rng.choice([1, 10, 61, 3599, 3601, 7200])
                    elif op == 'len':
                        len(cache)
                    else:
                        list(cache)
                except Exception as e:   # noqa
                    bad = e
                    break
            case = {'stream': 'cache', 'cls': cls.__name__, 'ops': ops}
            first = first or case
            ctx.case(('cache', cls.__name__, repr(ops)), tags=['cache:' + cls.__name__, 'cache:ttl=%s' % ttl])
            if bad is not None:
                c2, where = classify(bad)
                ctx.fail(c2, 'cache', case, 'after %d operations `%s %s` raised %r' % (len(ops), ops[-1][0], ops[-1][1], bad))
    finally:
        wc.time = real_time
    if first:
        ctx.sample(first)


def load_corpus(ctx):
    out = []
    for p in sorted(glob.glob(os.path.join(ctx.verif, 'harness', 'corpus', 'C09', '*.json'))):
        with open(p) as f:
            out.append(unjson(json.load(f)))
    return out


def run_static(ctx):
    try:
        import skeleton
    except ImportError:
        ctx.note('static', 'skeleton translator not present')
        return
    skeleton.check(ctx)


def stream_status(ctx, n, lines=None):
    """The status line: whatever the server writes, what is accepted carries a code below 1000 (model-tied:
    `status_code_below_1000` is a theorem about the model's parseStatusLine; the table column, the log lines and the
    archive writers take the code as a small number)."""
    from wpull.protocol.http.request import Response
    rng = ctx.subrng('status')
    if lines is None:
        lines = []
        for _ in range(n):
            ver = rng.choice([b'HTTP/1.1', b'HTTP/1.0', b'HTTP/2.0', b'HTTP/11.22', b'HTTP/1.', b'http/1.1', b'ICY', b'HTTP/1.1\t'])
            code = rng.choice([b'200', b'404', b'999', b'1000', b'0200', b'7', b'42', b'', b'2147483648', b'9223372036854775807',
                               b'9223372036854775808', b'1' + b'0' * rng.randint(3, 40), b'-1', b'+200', b'2 00', b'20x', b'\xb2\xb3', b'0x1f'])
            sep = rng.choice([b' ', b' ', b'\t', b'  ', b'', b' \t '])
            reason = rng.choice([b'OK', b'', b'Not Found', b'12345', b'\xe9', b'a\rb', b'x' * 50])
            line = ver + sep + code + rng.choice([b' ', b'', b'\t']) + reason + rng.choice([b'', b'\r\n', b'\n', b'\r'])
            if rng.random() < 0.25:
                line = hostile.mutate(rng, line)
            lines.append(line)
    replies = ctx.model.ask(['http py status ' + enc(l) for l in lines])
    for line, rep in zip(lines, replies):
        case = {'stream': 'status', 'line': line}
        try:
            ver, code, reason = Response.parse_status_line(line)
            real = '%s %d %s' % (enc(ver), code, enc(reason))
        except ValueError:
            code, real = None, 'none'
        except Exception as e:  # noqa
            cls, where = classify(e)
            ctx.case(('status', line), tags=['status:raised'])
            ctx.fail(cls, where, case, 'parse_status_line raised %r' % e)
            continue
        ctx.case(('status', line), nontrivial=code is not None, tags=['status:' + ('accepted' if code is not None else 'refused')])
        if code is not None and not 0 <= code < 1000:
            ctx.fail('status-code-out-of-range', 'Response.parse_status_line', case,
                     'the status line %r is accepted with the code %d: the URL table, the log and the archive writers take a code below 1000' % (line[:60], code))
        if rep != real:
            ctx.disagree('status', case, rep, real)
    if lines:
        ctx.sample({'stream': 'status', 'line': lines[0]})


def run(ctx):
    run_static(ctx)
    for case in load_corpus(ctx):
        replay(ctx, case)
    stream_scrape(ctx, ctx.scale(4000, 60000))
    stream_http(ctx, ctx.scale(1200, 15000))
    stream_http(ctx, ctx.scale(400, 5000), robots=True)
    stream_cookies(ctx, ctx.scale(120, 2500))
    stream_ftp(ctx, ctx.scale(1200, 15000))
    stream_pasv(ctx, ctx.scale(1500, 30000))
    stream_cache(ctx, ctx.scale(1500, 30000))
    stream_ftp_proc(ctx, ctx.scale(500, 8000))
    stream_status(ctx, ctx.scale(1500, 30000))
    stream_e2e(ctx, ctx.scale(100, 1200))


def search(ctx):
    stream_scrape(ctx, ctx.scale(500, 2000))
    stream_ftp(ctx, ctx.scale(100, 500))
    stream_e2e(ctx, ctx.scale(10, 40))
