"""C12, session-level front ends: the pool's real callers on the deterministic loop.

  stream 'session'  real WebClient / WebSession / http Client / Session / Stream / Connection over the real
                    ConnectionPool (per-host limit 1-2), 2-3 workers, keep-alive server; a worker lingers inside
                    `with web_session:` after download() (the processor works there) so that its
                    __exit__ -> abort() / recycle() runs after another worker may have checked the same connection out.
  stream 'proxy'    the same workers over the real HTTPProxyConnectionPool (CONNECT tunnel + start_tls over the
                    in-memory network), https and http URLs, tunnels reused through keep-alive.

Oracle (no model involved): a connection object is handed to one worker at a time; only the worker that currently
holds a connection closes it or writes to it (Connection.close / Connection.write are wrapped and the acting task is
compared with the holder recorded at acquire / release); against this well-behaved server every fetch succeeds and no
foreign exception comes out of acquire(); no release task fails; when the loop is dry every worker has finished,
nothing is checked out and the proxy pool's wrapper map is empty.
"""
import asyncio
import functools
import io
import os
import ssl

import compat  # noqa: F401
import fakenet
import sched


class World:
    def __init__(self):
        self.requests = []
        self.failures = []      # (kind, where, detail)
        self.owner = {}         # id(handed object) -> worker name
        self.handed = {}        # id(handed object) -> object
        self.rel_tasks = []
        self.fetch_errors = []
        self.fetches = 0
        self.in_acquire = {}    # worker name -> nesting depth inside acquire(_proxy) of the SUPPLIED pool
        self.checkouts = 0      # connections handed out by the supplied pool
        self.idle_closed = 0    # keep-alive connections the server closed while they sat idle in the pool
        self.idle_allowed = True
        self.unstarted = 0

    def fail(self, kind, where, detail):
        if len(self.failures) < 20:
            self.failures.append((kind, where, detail))


class Server:
    """One accepted connection of the origin / the proxy / the TLS layer of a tunnel: CONNECT -> 200,
    anything else -> 200 with a 2-byte body, keep-alive unless the target ends in 'close'."""

    def __init__(self, world):
        self.world = world
        self.buf = b''
        self.seq = 0

    def idle_close(self, conn, seq, turns):
        """Keep-alive timeout: `turns` loop turns after the response, if no further request came on this connection
        and no client has it checked out at that moment, the server closes it (it then sits dead in the pool)."""
        loop = asyncio.get_event_loop()
        if self.seq != seq or conn.server_closed or conn.client_closed:
            return
        if turns > 0:
            loop.call_soon(self.idle_close, conn, seq, turns - 1)
            return
        for oid, obj in self.world.handed.items():
            inner = getattr(obj, '_active_connection', None)
            if inner is not None and inner.reader is conn.reader:
                if self.world.owner.get(oid) is not None:
                    return          # checked out right now: the timer is considered reset
        self.world.idle_closed += 1
        conn.close()

    def on_write(self, conn, data):
        self.buf += data
        self.seq += 1
        loop = asyncio.get_event_loop()
        while b'\r\n\r\n' in self.buf:
            head, self.buf = self.buf.split(b'\r\n\r\n', 1)
            line = head.split(b'\r\n')[0]
            if line.startswith(b'CONNECT'):
                if b'badtunnel' in line:
                    loop.call_soon(conn.send, b'HTTP/1.1 502 Bad Gateway\r\nContent-Length: 0\r\n\r\n')
                elif b'garbled' in line:
                    loop.call_soon(conn.send, b'\x16\x03\x01 garbage, not HTTP\r\n\r\n')
                else:
                    loop.call_soon(conn.send, b'HTTP/1.1 200 Connection established\r\n\r\n')
                continue
            parts = line.split(b' ')
            target = parts[1] if len(parts) > 1 else b''
            self.world.requests.append(target)
            path = target
            if path.startswith(b'http://') or path.startswith(b'https://'):
                path = b'/' + path.split(b'/', 3)[3] if path.count(b'/') >= 3 else b'/'
            close = target.endswith(b'close')
            robots = None
            if path == b'/robots.txt':
                hostline = [l for l in head.split(b'\r\n')[1:] if l.lower().startswith(b'host:')]
                hostname = hostline[0].split(b':', 1)[1].strip().split(b':')[0] if hostline else b''
                robots = hostname
            if robots is not None and robots.startswith(b'r') and robots.endswith(b'.test') and not robots.startswith(b'rx'):
                kind = robots[1:-5]
                if kind == b'reset':
                    loop.call_soon(conn.close)          # no answer at all
                    continue
                if kind in (b'404', b'500'):
                    body = b'no'
                    msg = b'HTTP/1.1 %s X\r\nContent-Length: 2\r\n\r\n' % kind + body
                else:
                    # redirects: 'redir' same host (keep-alive), 'redirc' same host (closing), 'redirx' to another host,
                    # 'redir2' a chain of two
                    loc = {b'redir': b'/robots-final.txt', b'redirc': b'/robots-final.txt',
                           b'redirx': b'http://origin1.test/robots.txt', b'redir2': b'/hop1k/robots-final.txt'}.get(kind, b'/robots-final.txt')
                    close = kind == b'redirc'
                    msg = (b'HTTP/1.1 301 Moved\r\nLocation: ' + loc + b'\r\nContent-Length: 5\r\n'
                           + (b'Connection: close\r\n' if close else b'') + b'\r\nmoved')

                def deliver_r(conn=conn, msg=msg, close=(kind == b'redirc')):
                    conn.send(msg)
                    if close:
                        conn.close()
                loop.call_soon(deliver_r)
                continue
            hop = None
            if path.startswith(b'/hop') and len(path) > 5 and path[4:5].isdigit():
                hop = (int(path[4:5]), path[5:6], path[6:])
            if hop and hop[0] > 0:
                # a non-final hop of a chain: redirect to the next one; 'c' = this response closes the connection
                n, flag, rest = hop
                close = flag == b'c'
                msg = (b'HTTP/1.1 302 Found\r\nLocation: /hop%d%s%s\r\nContent-Length: 0\r\n' % (n - 1, flag, rest)
                       + (b'Connection: close\r\n' if close else b'') + b'\r\n')
            else:
                msg = (b'HTTP/1.1 200 OK\r\nContent-Length: 2\r\n' + (b'Connection: close\r\n' if close else b'')
                       + b'\r\nok')
            idle = None
            if not close and not (hop and hop[0] > 0) and b'idle' in path:
                k = path.index(b'idle') + 4
                idle = int(path[k:k + 1]) if path[k:k + 1].isdigit() else 0

            def deliver(conn=conn, msg=msg, close=close, idle=idle, seq=self.seq):
                conn.send(msg)
                if close:
                    conn.close()
                elif idle is not None and self.world.idle_allowed:
                    loop.call_soon(self.idle_close, conn, seq, idle)
            loop.call_soon(deliver)


class TrackSet(set):
    def __init__(self, world):
        super().__init__()
        self.world = world

    def add(self, task):
        if asyncio.isfuture(task):
            self.world.rel_tasks.append(task)
        else:
            self.world.unstarted += 1       # a check-in that was not started as a task
        super().add(task)


def worker_name():
    t = asyncio.current_task()
    n = t.get_name() if t is not None else ''
    return n if n.startswith('w') else None


def instrument_pool(world, pool):
    """Record the holder of every handed-out connection (instance-level wrappers around the pool's entry points)."""
    pool._release_tasks = TrackSet(world)

    def wrap_acquire(orig):
        @asyncio.coroutine
        def acquire(*a, **kw):
            me0 = worker_name()
            world.in_acquire[me0] = world.in_acquire.get(me0, 0) + 1
            try:
                conn = yield from orig(*a, **kw)
            finally:
                world.in_acquire[me0] -= 1
            world.checkouts += 1
            me = worker_name()
            prev = world.owner.get(id(conn))
            if prev is not None and prev != me:
                world.fail('shared', 'acquire', 'connection handed to %s while %s still holds it' % (me, prev))
            world.owner[id(conn)] = me
            world.handed[id(conn)] = conn
            return conn
        return acquire

    if hasattr(pool, 'acquire_proxy'):
        pool.acquire_proxy = wrap_acquire(pool.acquire_proxy)
    else:
        pool.acquire = wrap_acquire(pool.acquire)
    orig_nwr = pool.no_wait_release

    def no_wait_release(conn):
        world.owner.pop(id(conn), None)
        return orig_nwr(conn)
    pool.no_wait_release = no_wait_release


class ConnHooks:
    """Wrap Connection.close / Connection.write for the duration of one run."""

    def __init__(self, world):
        self.world = world

    def holder_of(self, conn):
        for oid, obj in self.world.handed.items():
            if obj is conn or getattr(obj, '_active_connection', None) is conn \
                    or getattr(getattr(obj, '_active_connection', None), 'wrapped_connection', None) is conn:
                return True, self.world.owner.get(oid)
        return False, None

    def check(self, conn, op):
        me = worker_name()
        if me is None:
            return      # pool-internal task (release / clean)
        if op == 'close' and conn.closed():
            return      # closing what is closed already has no effect on anybody
        known, holder = self.holder_of(conn)
        if not known:
            return      # not handed out by the pool yet (being set up inside acquire)
        if holder != me:
            self.world.fail('shared', 'non-holder-%s-%s' % (op, 'held' if holder else 'idle'),
                            '%s %ss a connection it does not hold (holder: %s)' % (me, op, holder or 'nobody, idle in the pool'))

    def __enter__(self):
        from wpull.network.connection import Connection
        self.cls = Connection
        self.orig_close = Connection.close
        self.orig_write = Connection.write
        hooks = self

        def close(conn):
            hooks.check(conn, 'close')
            return hooks.orig_close(conn)

        def write(conn, *a, **kw):
            hooks.check(conn, 'write')
            return hooks.orig_write(conn, *a, **kw)
        Connection.close = close
        Connection.write = write
        return self

    def __exit__(self, *a):
        self.cls.close = self.orig_close
        self.cls.write = self.orig_write


@asyncio.coroutine
def _yield_once():
    yield


class InjectedOSError(OSError):
    """What a full disk does to the WARC recorder's listener."""


class InjectedError(Exception):
    """A plugin bug."""


SESSION_EVENTS = ('begin_session', 'end_session')
HTTP_EVENTS = ('begin_request', 'request_data', 'end_request', 'begin_response', 'response_data', 'end_response')


class FaultNet(fakenet.FakeNet):
    """FakeNet with scripted failures of connection attempts: `refuse_attempts` (n-th attempt refused),
    `netfaults` {n-th attempt: kind}, `tlsfaults` {n-th TLS attempt (open_connection(..., ssl=...)): kind}."""

    def __init__(self, refuse_attempts=(), netfaults=None, tlsfaults=None):
        super().__init__()
        self.refuse_attempts = set(refuse_attempts)
        self.netfaults = dict(netfaults or {})
        self.tlsfaults = dict(tlsfaults or {})
        self.attempts = 0
        self.tls_attempts = 0

    def clear_faults(self):
        self.refuse_attempts = set()
        self.netfaults = {}
        self.tlsfaults = {}

    @staticmethod
    def raise_kind(kind):
        if kind == 'refused':
            raise ConnectionRefusedError(111, 'Connection refused')
        if kind == 'sslcert':       # -> SSLVerificationError (an OSError, not a NetworkError)
            raise ssl.SSLError(1, '[SSL: CERTIFICATE_VERIFY_FAILED] certificate verify failed: self signed certificate')
        if kind == 'certerr':       # hostname mismatch -> SSLVerificationError
            raise ssl.CertificateError("hostname 'origin.test' doesn't match 'other.test'")
        if kind == 'sslother':      # -> NetworkError
            raise ssl.SSLError(1, '[SSL: SSLV3_ALERT_HANDSHAKE_FAILURE] handshake failure')
        if kind == 'oserror':       # -> NetworkError
            raise OSError(5, 'Input/output error')
        if kind == 'timeout':       # -> NetworkTimedOut
            raise asyncio.TimeoutError()
        raise ValueError('unknown fault kind %r' % kind)

    world = None
    limit = None            # per-host limit of the supplied pool, enforced at the network (plain pool stream only)

    def observe(self, host, port):
        world = self.world
        if world is None:
            return
        me = worker_name()
        if me is not None and not world.in_acquire.get(me) and me not in world.owner.values():
            world.fail('bypass', 'connection-outside-supplied-pool',
                       '%s opens a connection to %s:%s without having checked one out of the pool the client was given '
                       '(check-outs of that pool so far: %d, connections opened: %d)' % (me, host, port, world.checkouts, self.attempts))
        if self.limit is not None:
            open_now = sum(1 for c in self.conns if c.address == (host, port) and not c.client_closed and not c.server_closed)
            if open_now + 1 > self.limit:
                world.fail('over-allocated', 'network',
                           '%d connections open to %s:%s at once, the pool given to the client allows %d per host'
                           % (open_now + 1, host, port, self.limit))

    async def open_connection(self, host=None, port=None, **kwargs):
        n = self.attempts
        self.attempts += 1
        self.observe(host, port)
        if n in self.refuse_attempts:
            self.raise_kind('refused')
        if n in self.netfaults:
            self.raise_kind(self.netfaults[n])
        if kwargs.get('ssl') is not None:
            t = self.tls_attempts
            self.tls_attempts += 1
            if t in self.tlsfaults:
                self.raise_kind(self.tlsfaults[t])
        return await super().open_connection(host, port, **kwargs)


def run_case(case):
    """Run one scenario on the real code.  Returns the World (failures filled in)."""
    from wpull.protocol.http.client import Client, Session
    from wpull.protocol.http.web import WebClient
    from wpull.protocol.http.request import Request
    from wpull.protocol.http.stream import Stream
    from wpull.network.pool import ConnectionPool
    from wpull.errors import NetworkError, ProtocolError, ServerError

    world = World()
    loop = sched.new_det_loop(case['seed'])
    net = FaultNet(case.get('refuse', ()), case.get('netfaults'), case.get('tlsfaults'))
    net.default = lambda: Server(world)
    net.world = world
    if case['stream'] == 'session':
        net.limit = case['M']
    table = {'origin%d.test' % k: '10.0.1.%d' % (10 + k) for k in range(4)}
    table.update({h: '10.0.2.%d' % (10 + k) for k, h in enumerate(ROBOTS_HOSTS)})
    table[DOWN] = '10.0.3.1'
    net.refuse.add(('10.0.3.1', 80))        # this host refuses every connection
    net.refuse.add(('10.0.3.1', 443))
    # stdlib entry points of this loop only: no thread pool, no system resolver (a client that silently builds its own
    # default pool gets wpull's default Resolver)
    compat.disable_dns_python()

    def run_in_executor(executor, func, *args):
        fut = loop.create_future()
        try:
            fut.set_result(func(*args))
        except Exception as e:      # noqa
            fut.set_exception(e)
        return fut

    async def getaddrinfo(host, port, *, family=0, type=0, proto=0, flags=0):
        import socket
        ip = table.get(host, '10.0.0.1')
        if family == socket.AF_INET6:
            raise socket.gaierror(socket.EAI_NONAME, 'no AAAA')
        return [(socket.AF_INET, socket.SOCK_STREAM, proto, '', (ip, port))]
    loop.run_in_executor = run_in_executor
    loop.getaddrinfo = getaddrinfo
    faulty = bool(case.get('refuse') or case.get('netfaults') or case.get('tlsfaults') or case.get('cancels')) or \
        any('badtunnel' in j[0] or 'garbled' in j[0] for jobs in case['workers'] for j in jobs)
    try:
        with net, ConnHooks(world):
            if case['stream'] == 'proxy':
                from wpull.proxy.client import HTTPProxyConnectionPool
                ctx = ssl.SSLContext(ssl.PROTOCOL_TLS_CLIENT)
                ctx.check_hostname = False
                ctx.verify_mode = ssl.CERT_NONE
                pool = HTTPProxyConnectionPool(('proxy.test', 8080), max_host_count=case['M'],
                                               resolver=fakenet.FakeResolver(table), ssl_context=ctx)
            else:
                pool = ConnectionPool(max_host_count=case['M'], resolver=fakenet.FakeResolver(table))
            instrument_pool(world, pool)
            # several clients are given the same (still empty) pool, as the application does
            clients = [Client(connection_pool=pool, stream_factory=functools.partial(Stream, keep_alive=True))
                       for _ in range(2)]
            web_clients = [WebClient(c) for c in clients]
            workers = []
            pending_fault = {}      # worker name -> (event, kind) for the next http session it creates

            def on_new_session(session):
                faults = pending_fault.pop(worker_name(), None)
                for (event, kind) in (faults or ()):
                    name = (Session.SessionEvent[event] if event in SESSION_EVENTS else Session.Event[event])

                    def listener(*a, fired=[], kind=kind, **kw):
                        if not fired:
                            fired.append(1)
                            raise (InjectedOSError(28, 'injected: No space left on device') if kind == 'os'
                                   else InjectedError('injected: listener bug'))
                    session.event_dispatcher.add_listener(name, listener)
            for c in clients:
                c.event_dispatcher.add_listener(Client.ClientEvent.new_session, on_new_session)

            async def fetch(i, url, linger, mode, fault):
                if fault:
                    pending_fault['w%s' % i] = tuple(fault)     # pairs (event, kind)
                which = (i if isinstance(i, int) else 0) % 2
                client, web_client = clients[which], web_clients[which]
                if mode == 'robots':
                    import tempfile
                    from wpull.protocol.http.robots import RobotsTxtChecker
                    checker = RobotsTxtChecker(web_client=web_client)
                    f = tempfile.NamedTemporaryFile(prefix='c12robots', dir=os.environ.get('TMPDIR') or None)
                    try:
                        await compat._ensure(checker.can_fetch(Request(url), file=f))
                    finally:
                        try:
                            f.close()
                        except Exception:
                            pass
                    for _ in range(linger):
                        await compat._ensure(_yield_once())
                    return
                if mode == 'poolsession':
                    # ConnectionPool.session(): `with (yield from pool.session(host, port)) as connection:`
                    info = Request(url).url_info
                    cm = await compat._ensure(pool.session(info.hostname, info.port))
                    with cm as connection:
                        if connection.closed():
                            connection.reset()
                            await compat._ensure(connection.connect())
                        for _ in range(linger):
                            await compat._ensure(_yield_once())
                        if 'boom' in url:
                            raise NetworkError('injected: the with-body fails')
                    return
                if mode == 'client-catch':
                    # errors of start()/download() are handled INSIDE the block, which is then left normally
                    with client.session() as session:
                        try:
                            await compat._ensure(session.start(Request(url)))
                            await compat._ensure(session.download(io.BytesIO()))
                        except (NetworkError, ProtocolError, OSError) as e:
                            world.fetch_errors.append((i, url, repr(e)))
                        for _ in range(linger):
                            await compat._ensure(_yield_once())
                    return
                if mode in ('client', 'client-abandon'):
                    with client.session() as session:
                        await compat._ensure(session.start(Request(url)))
                        if mode == 'client':
                            await compat._ensure(session.download(io.BytesIO()))
                        for _ in range(linger):
                            await compat._ensure(_yield_once())
                    return
                ws = web_client.session(Request(url))
                with ws:
                    while not ws.done():
                        await compat._ensure(ws.start())
                        if mode == 'abandon':
                            break           # the caller leaves the block without download()
                        await compat._ensure(ws.download(io.BytesIO()))
                    for _ in range(linger):
                        await compat._ensure(_yield_once())

            async def worker(i, jobs):
                for (url, linger, mode, fault) in jobs:
                    world.fetches += 1
                    try:
                        await fetch(i, url, linger, mode, fault)
                    except (InjectedOSError, InjectedError):
                        pass                # the injected listener failure reaches the caller: fine
                    except (NetworkError, ProtocolError, OSError, ServerError) as e:
                        world.fetch_errors.append((i, url, repr(e)))
                        scripted = (mode == 'robots' and ('//r500.' in url or '//rreset.' in url)) or '//down.test' in url \
                            or 'boom' in url
                        if not faulty and not fault and not scripted:
                            world.fail('error', 'fetch-failed', 'worker %s: %s failed with %r although the server behaved' % (i, url, e))
                    except asyncio.CancelledError:
                        raise
                    except Exception as e:
                        world.fail('error', 'foreign-exception', 'worker %s: %s raised %r' % (i, url, e))
                    pending_fault.pop('w%s' % i, None)

            async def canceller(i, delay):
                for _ in range(delay):
                    await compat._ensure(_yield_once())
                if i < len(workers) and not workers[i].done():
                    workers[i].cancel()

            async def main():
                for i, jobs in enumerate(case['workers']):
                    workers.append(loop.create_task(worker(i, jobs), name='w%d' % i))
                cs = [loop.create_task(canceller(i, d), name='x%d' % n) for n, (i, d) in enumerate(case.get('cancels', ()))]
                await asyncio.gather(*workers, *cs, return_exceptions=True)

            done, task = loop.run_until_quiescent(main(), max_steps=200000)
            loop.drain(20000)
            unfinished = [i for i, w in enumerate(workers) if not w.done()]
            if unfinished or not done:
                busy = {str(k): len(p.busy) for k, p in pool.host_pools.items()}
                world.fail('deadlock', 'session-' + case['stream'],
                           'loop is dry, workers %s never finish; checked out: %s' % (unfinished, busy))

            def end_state(when):
                for t in world.rel_tasks:
                    if t.done() and (t.cancelled() or t.exception() is not None):
                        world.fail('leak', 'release-task-failed', 'a release task ended with %r'
                                   % ('cancelled' if t.cancelled() else t.exception(),))
                    elif not t.done():
                        world.fail('deadlock', 'release-task', 'a release task never finishes')
                for key, p in pool.host_pools.items():
                    if p.busy:
                        world.fail('leak', 'busy-after-finish', '%d connection(s) still checked out for %s %s'
                                   % (len(p.busy), key, when))
                    elif not p.ready and not pool._host_pool_waiters.get(key):
                        world.fail('leak', 'idle-host-kept', 'host pool %s kept with no connection and no waiter %s' % (key, when))
                    if pool._host_pool_waiters.get(key):
                        world.fail('leak', 'waiter-count', 'waiter count %s for %s %s' % (pool._host_pool_waiters.get(key), key, when))
                if getattr(pool, '_connection_map', None):
                    world.fail('leak', 'proxy-wrapper-map', '%d TLS wrapper(s) still mapped %s' % (len(pool._connection_map), when))

            if not unfinished:
                end_state('after every worker finished')
                # "the next client gets a connection": one more plain fetch per origin used, no faults any more
                net.clear_faults()
                world.idle_allowed = False
                origins = sorted({j[0].split('/')[0] + '//' + j[0].split('/')[2] for jobs in case['workers'] for j in jobs
                                  if 'badtunnel' not in j[0] and 'garbled' not in j[0] and DOWN not in j[0]})
                # origins whose tunnel can never be set up: the probe must still get its turn (and fail), not hang
                bad = sorted({j[0].split('/')[0] + '//' + j[0].split('/')[2] for jobs in case['workers'] for j in jobs
                              if 'badtunnel' in j[0] or 'garbled' in j[0] or DOWN in j[0]})
                probe_errors = []

                async def probe():
                    for o in origins:
                        try:
                            await fetch('P', o + '/probe', 0, 'web', None)
                        except Exception as e:
                            probe_errors.append((o, repr(e)))
                    for o in bad:
                        for _ in range(case['M'] + 1):
                            try:
                                await fetch('P', o + '/probe', 0, 'web', None)
                            except Exception:
                                pass
                pt = loop.create_task(probe(), name='wP')
                workers.append(pt)
                loop.run_until_quiescent(_wait(pt), max_steps=200000)
                loop.drain(20000)
                if not pt.done():
                    busy = {str(k): len(p.busy) for k, p in pool.host_pools.items()}
                    world.fail('deadlock', 'next-client', 'a client arriving after all others finished never gets a connection; checked out: %s' % busy)
                elif probe_errors and not world.failures:
                    world.fail('error', 'next-client', 'a client arriving after all others finished fails: %s' % probe_errors[:2])
                if pt.done() and case['stream'] == 'session':
                    # network truth after the last check-in (the probe's): whatever the peer closed has been swept
                    def net_of(obj):
                        inner = getattr(obj, '_active_connection', None)
                        if inner is None or inner.reader is None:
                            return None
                        for fc in net.conns:
                            if fc.reader is inner.reader:
                                return fc
                        return None
                    for key, p in pool.host_pools.items():
                        dead = [c for c in p.ready if net_of(c) is not None and net_of(c).server_closed]
                        if dead:
                            world.fail('leak', 'dead-idle-kept', '%d pooled connection(s) of %s whose peer closed long ago survive the '
                                       'check-in sweeps (closed() says %s)' % (len(dead), key, [c.closed() for c in dead]))
                    unclosed = [fc for fc in net.conns if fc.server_closed and not fc.client_closed]
                    if unclosed:
                        world.fail('leak', 'peer-closed-never-closed', '%d connection(s) closed by the peer were never close()d by the '
                                   'client side although every client finished and check-ins followed' % len(unclosed))
            for w in workers:
                if not w.done():
                    w.cancel()
            loop.drain(20000)
    finally:
        sched.close_loop(loop)
    return world


async def _wait(task):
    await asyncio.wait([task])


DOWN = 'down.test'
ROBOTS_HOSTS = ('r404.test', 'r500.test', 'rredir.test', 'rredirc.test', 'rredirx.test', 'rredir2.test', 'rreset.test')
BAD_TUNNEL = 'badtunnel.test'
GARBLED = 'garbled.test'
NET_KINDS = ('refused', 'oserror', 'timeout', 'sslcert')
TLS_KINDS = ('sslcert', 'certerr', 'sslother', 'oserror', 'timeout')


def gen_case(rng, stream, faults=False):
    m = rng.choice([1, 1, 2])
    nworkers = rng.choice([1, 2, 2, 3]) if stream == 'proxy' else rng.choice([2, 2, 3])
    hosts = ['origin0.test'] if rng.random() < 0.6 else ['origin0.test', 'origin1.test']
    workers = []
    for w in range(nworkers):
        jobs = []
        for j in range(rng.choice([1, 2, 3, 4])):
            if stream == 'proxy':
                scheme = 'https' if rng.random() < 0.75 else 'http'
            else:
                scheme = 'http'
            path = '/w%dj%d%s' % (w, j, 'close' if rng.random() < 0.15 else '')
            if stream == 'session' and not path.endswith('close') and rng.random() < 0.3:
                path += 'idle%d' % rng.choice([0, 0, 1, 2, 3, 5, 8])      # keep-alive timeout of the server
            if rng.random() < 0.3:
                # a redirect chain: n non-final hops, each closing ('c') or keeping ('k') the connection
                path = '/hop%d%s%s' % (rng.choice([1, 1, 2, 3]), rng.choice('cck'), path)
            host = rng.choice(hosts)
            mode, fault = 'web', None
            if faults:
                mode = rng.choice(['web', 'web', 'client', 'client', 'abandon', 'client-abandon'])
                if rng.random() < 0.5:
                    events = SESSION_EVENTS + HTTP_EVENTS + ('end_session',) * 4
                    fault = [(rng.choice(events), rng.choice(['os', 'bug']))]
                    if rng.random() < 0.4:
                        fault.append((rng.choice(events), rng.choice(['os', 'bug'])))
                    fault = tuple(sorted(set(fault)))
                if stream == 'proxy' and scheme == 'https' and rng.random() < 0.2:
                    host = rng.choice([BAD_TUNNEL, GARBLED])
            if stream == 'session' and rng.random() < 0.22:
                r = rng.random()
                if r < 0.5:
                    # the pool's own context manager; 'boom' = the with-body ends with an exception
                    mode = 'poolsession'
                    path = '/ps%d%s' % (j, 'boom' if rng.random() < 0.5 else '')
                else:
                    # start() fails (the host refuses connections) and the caller handles it inside the block
                    mode = 'client-catch'
                    if rng.random() < 0.7:
                        host = DOWN
            elif stream == 'session' and rng.random() < 0.25:
                # robots.txt fetch through RobotsTxtChecker; the host decides how /robots.txt is answered
                mode = 'robots'
                host = rng.choice(ROBOTS_HOSTS + ('rredir.test', 'rredirc.test', 'origin0.test'))
                path = '/page%d' % j
            jobs.append(('%s://%s%s' % (scheme, host, path), rng.choice([0, 0, 1, 2, 4, 8]), mode, fault))
        workers.append(jobs)
    case = {'stream': stream, 'seed': rng.randrange(1 << 30), 'M': m, 'workers': workers}
    if faults and rng.random() < 0.4:
        case['refuse'] = sorted({rng.randrange(0, 8) for _ in range(rng.choice([1, 1, 2]))})
    if faults and rng.random() < 0.3:
        case['netfaults'] = {rng.randrange(0, 8): rng.choice(NET_KINDS) for _ in range(rng.choice([1, 1, 2]))}
    if faults and stream == 'proxy' and rng.random() < 0.5:
        case['tlsfaults'] = {rng.randrange(0, 5): rng.choice(TLS_KINDS) for _ in range(rng.choice([1, 2, 3]))}
    if faults and rng.random() < 0.35:
        case['cancels'] = [(rng.randrange(nworkers), rng.choice([0, 1, 2, 3, 4, 5, 6, 8, 10, 13, 17, 25, 40]))
                           for _ in range(rng.choice([1, 1, 2]))]
    return case


def norm_job(j):
    j = list(j)
    url, linger = str(j[0]), int(j[1])
    mode = str(j[2]) if len(j) > 2 and j[2] else 'web'
    fault = None
    if len(j) > 3 and j[3]:
        f = j[3]
        if isinstance(f[0], str):          # one (event, kind) pair
            f = [f]
        fault = tuple((str(e), str(k)) for (e, k) in f)
    return (url, linger, mode, fault)


def norm_case(case):
    c = {'stream': case['stream'], 'seed': int(case['seed']), 'M': int(case['M']),
         'workers': [[norm_job(j) for j in jobs] for jobs in case['workers']]}
    if case.get('refuse'):
        c['refuse'] = [int(x) for x in case['refuse']]
    for k in ('netfaults', 'tlsfaults'):
        if case.get(k):
            c[k] = {int(a): str(b) for a, b in dict(case[k]).items()}
    if case.get('cancels'):
        c['cancels'] = [(int(i), int(d)) for (i, d) in case['cancels']]
    return c


def check(ctx, case):
    case = norm_case(case)
    world = run_case(case)
    tags = ['front:' + case['stream'], 'front:%s:workers=%d' % (case['stream'], len(case['workers']))]
    if any(j[0].startswith('https') for jobs in case['workers'] for j in jobs):
        tags.append('front:https-tunnel')
    for jobs in case['workers']:
        for j in jobs:
            for (e, k) in (j[3] or ()):
                tags.append('front:listener-raises:' + e)
            if j[2] != 'web':
                tags.append('front:mode=' + j[2])
    if case.get('refuse'):
        tags.append('front:connect-refused')
    if any('/hop' in j[0] for jobs in case['workers'] for j in jobs):
        tags.append('front:redirect-chain')
    if world.idle_closed:
        tags.append('front:server-closed-idle-connection')
    for jobs in case['workers']:
        for j in jobs:
            if j[2] == 'robots':
                tags.append('front:robots:' + j[0].split('/')[2])
    for k in ('netfaults', 'tlsfaults'):
        for kind in (case.get(k) or {}).values():
            tags.append('front:%s:%s' % (k, kind))
    if case.get('cancels'):
        tags.append('front:cancel')
    if any('garbled' in j[0] for jobs in case['workers'] for j in jobs):
        tags.append('front:garbled-connect-reply')
    ctx.case(('front', case['stream'], case['seed'], case['M'], tuple(tuple(j) for j in case['workers']), tuple(case.get('refuse', ())),
              tuple(sorted((case.get('netfaults') or {}).items())), tuple(sorted((case.get('tlsfaults') or {}).items())),
              tuple(case.get('cancels', ()))),
             nontrivial=world.fetches > 1, tags=tags)
    for (kind, where, detail) in world.failures:
        ctx.fail(kind, where, case, detail)
    return world
