"""C12, session-level front ends: the pool's real callers on the deterministic loop.

  stream 'session'  real WebClient / WebSession / http Client / Session / Stream / Connection over the real
                    ConnectionPool (per-host limit 1-2), 2-3 workers, keep-alive server; a worker lingers inside
                    `with web_session:` after download() (the processor works there) so that its
                    __exit__ -> abort() / recycle() runs after another worker may have checked the same connection out.
  stream 'proxy'    the same workers over the real HTTPProxyConnectionPool (CONNECT tunnel + start_tls over the
                    in-memory network), https and http URLs, tunnels reused through keep-alive.

Oracle (no model involved): a connection object is handed to one worker at a time; only the worker that currently
holds a connection closes it or writes to it (Connection.close / Connection.write are wrapped and the acting task is
compared with the holder recorded at acquire / release); against this well-behaved server every fetch succeeds and no
foreign exception comes out of acquire(); no release task fails; when the loop is dry every worker has finished,
nothing is checked out and the proxy pool's wrapper map is empty.
"""
import asyncio
import functools
import io
import ssl

import compat  # noqa: F401
import fakenet
import sched


class World:
    def __init__(self):
        self.requests = []
        self.failures = []      # (kind, where, detail)
        self.owner = {}         # id(handed object) -> worker name
        self.handed = {}        # id(handed object) -> object
        self.rel_tasks = []
        self.fetch_errors = []
        self.fetches = 0

    def fail(self, kind, where, detail):
        if len(self.failures) < 20:
            self.failures.append((kind, where, detail))


class Server:
    """One accepted connection of the origin / the proxy / the TLS layer of a tunnel: CONNECT -> 200,
    anything else -> 200 with a 2-byte body, keep-alive unless the target ends in 'close'."""

    def __init__(self, world):
        self.world = world
        self.buf = b''

    def on_write(self, conn, data):
        self.buf += data
        loop = asyncio.get_event_loop()
        while b'\r\n\r\n' in self.buf:
            head, self.buf = self.buf.split(b'\r\n\r\n', 1)
            line = head.split(b'\r\n')[0]
            if line.startswith(b'CONNECT'):
                loop.call_soon(conn.send, b'HTTP/1.1 200 Connection established\r\n\r\n')
                continue
            parts = line.split(b' ')
            target = parts[1] if len(parts) > 1 else b''
            self.world.requests.append(target)
            close = target.endswith(b'close')
            msg = (b'HTTP/1.1 200 OK\r\nContent-Length: 2\r\n' + (b'Connection: close\r\n' if close else b'')
                   + b'\r\nok')
            def deliver(conn=conn, msg=msg, close=close):
                conn.send(msg)
                if close:
                    conn.close()
            loop.call_soon(deliver)


class TrackSet(set):
    def __init__(self, world):
        super().__init__()
        self.world = world

    def add(self, task):
        self.world.rel_tasks.append(task)
        super().add(task)


def worker_name():
    t = asyncio.current_task()
    n = t.get_name() if t is not None else ''
    return n if n.startswith('w') else None


def instrument_pool(world, pool):
    """Record the holder of every handed-out connection (instance-level wrappers around the pool's entry points)."""
    pool._release_tasks = TrackSet(world)

    def wrap_acquire(orig):
        @asyncio.coroutine
        def acquire(*a, **kw):
            conn = yield from orig(*a, **kw)
            me = worker_name()
            prev = world.owner.get(id(conn))
            if prev is not None and prev != me:
                world.fail('shared', 'acquire', 'connection handed to %s while %s still holds it' % (me, prev))
            world.owner[id(conn)] = me
            world.handed[id(conn)] = conn
            return conn
        return acquire

    if hasattr(pool, 'acquire_proxy'):
        pool.acquire_proxy = wrap_acquire(pool.acquire_proxy)
    else:
        pool.acquire = wrap_acquire(pool.acquire)
    orig_nwr = pool.no_wait_release

    def no_wait_release(conn):
        world.owner.pop(id(conn), None)
        return orig_nwr(conn)
    pool.no_wait_release = no_wait_release


class ConnHooks:
    """Wrap Connection.close / Connection.write for the duration of one run."""

    def __init__(self, world):
        self.world = world

    def holder_of(self, conn):
        for oid, obj in self.world.handed.items():
            if obj is conn or getattr(obj, '_active_connection', None) is conn \
                    or getattr(getattr(obj, '_active_connection', None), 'wrapped_connection', None) is conn:
                return True, self.world.owner.get(oid)
        return False, None

    def check(self, conn, op):
        me = worker_name()
        if me is None:
            return      # pool-internal task (release / clean)
        if op == 'close' and conn.closed():
            return      # closing what is closed already has no effect on anybody
        known, holder = self.holder_of(conn)
        if not known:
            return      # not handed out by the pool yet (being set up inside acquire)
        if holder != me:
            self.world.fail('shared', 'non-holder-%s-%s' % (op, 'held' if holder else 'idle'),
                            '%s %ss a connection it does not hold (holder: %s)' % (me, op, holder or 'nobody, idle in the pool'))

    def __enter__(self):
        from wpull.network.connection import Connection
        self.cls = Connection
        self.orig_close = Connection.close
        self.orig_write = Connection.write
        hooks = self

        def close(conn):
            hooks.check(conn, 'close')
            return hooks.orig_close(conn)

        def write(conn, *a, **kw):
            hooks.check(conn, 'write')
            return hooks.orig_write(conn, *a, **kw)
        Connection.close = close
        Connection.write = write
        return self

    def __exit__(self, *a):
        self.cls.close = self.orig_close
        self.cls.write = self.orig_write


@asyncio.coroutine
def _yield_once():
    yield


def run_case(case):
    """Run one scenario on the real code.  Returns the World (failures filled in)."""
    from wpull.protocol.http.client import Client
    from wpull.protocol.http.web import WebClient
    from wpull.protocol.http.request import Request
    from wpull.protocol.http.stream import Stream
    from wpull.network.pool import ConnectionPool
    from wpull.errors import NetworkError, ProtocolError

    world = World()
    loop = sched.new_det_loop(case['seed'])
    net = fakenet.FakeNet()
    net.default = lambda: Server(world)
    try:
        with net, ConnHooks(world):
            if case['stream'] == 'proxy':
                from wpull.proxy.client import HTTPProxyConnectionPool
                ctx = ssl.SSLContext(ssl.PROTOCOL_TLS_CLIENT)
                ctx.check_hostname = False
                ctx.verify_mode = ssl.CERT_NONE
                pool = HTTPProxyConnectionPool(('proxy.test', 8080), max_host_count=case['M'],
                                               resolver=fakenet.FakeResolver(), ssl_context=ctx)
            else:
                pool = ConnectionPool(max_host_count=case['M'], resolver=fakenet.FakeResolver())
            instrument_pool(world, pool)
            client = Client(connection_pool=pool, stream_factory=functools.partial(Stream, keep_alive=True))
            web_client = WebClient(client)
            workers = []

            async def worker(i, jobs):
                for (url, linger) in jobs:
                    world.fetches += 1
                    try:
                        ws = web_client.session(Request(url))
                        with ws:
                            while not ws.done():
                                await compat._ensure(ws.start())
                                await compat._ensure(ws.download(io.BytesIO()))
                            for _ in range(linger):
                                await compat._ensure(_yield_once())
                    except (NetworkError, ProtocolError) as e:
                        world.fetch_errors.append((i, url, repr(e)))
                        world.fail('error', 'fetch-failed', 'worker %d: %s failed with %r although the server behaved' % (i, url, e))
                    except asyncio.CancelledError:
                        raise
                    except Exception as e:
                        world.fail('error', 'foreign-exception', 'worker %d: %s raised %r' % (i, url, e))

            async def main():
                for i, jobs in enumerate(case['workers']):
                    workers.append(loop.create_task(worker(i, jobs), name='w%d' % i))
                await asyncio.gather(*workers)

            done, task = loop.run_until_quiescent(main(), max_steps=200000)
            loop.drain(20000)
            unfinished = [i for i, w in enumerate(workers) if not w.done()]
            if unfinished or not done:
                busy = {str(k): len(p.busy) for k, p in pool.host_pools.items()}
                world.fail('deadlock', 'session-' + case['stream'],
                           'loop is dry, workers %s never finish; checked out: %s' % (unfinished, busy))
            for t in world.rel_tasks:
                if t.done() and (t.cancelled() or t.exception() is not None):
                    world.fail('leak', 'release-task-failed', 'a release task ended with %r'
                               % ('cancelled' if t.cancelled() else t.exception(),))
                elif not t.done():
                    world.fail('deadlock', 'release-task', 'a release task never finishes')
            if not unfinished:
                for key, p in pool.host_pools.items():
                    if p.busy:
                        world.fail('leak', 'busy-after-finish', '%d connection(s) still checked out for %s after every worker finished'
                                   % (len(p.busy), key))
                if getattr(pool, '_connection_map', None):
                    world.fail('leak', 'proxy-wrapper-map', '%d TLS wrapper(s) still mapped after every worker finished'
                               % len(pool._connection_map))
            for w in workers:
                if not w.done():
                    w.cancel()
            loop.drain(20000)
    finally:
        sched.close_loop(loop)
    return world


def gen_case(rng, stream):
    m = rng.choice([1, 1, 2])
    nworkers = rng.choice([1, 2, 2, 3]) if stream == 'proxy' else rng.choice([2, 2, 3])
    hosts = ['origin0.test'] if rng.random() < 0.6 else ['origin0.test', 'origin1.test']
    workers = []
    for w in range(nworkers):
        jobs = []
        for j in range(rng.choice([1, 2, 3, 4])):
            if stream == 'proxy':
                scheme = 'https' if rng.random() < 0.75 else 'http'
            else:
                scheme = 'http'
            path = '/w%dj%d%s' % (w, j, 'close' if rng.random() < 0.15 else '')
            jobs.append(('%s://%s%s' % (scheme, rng.choice(hosts), path), rng.choice([0, 0, 1, 2, 4, 8])))
        workers.append(jobs)
    return {'stream': stream, 'seed': rng.randrange(1 << 30), 'M': m, 'workers': workers}


def norm_case(case):
    return {'stream': case['stream'], 'seed': int(case['seed']), 'M': int(case['M']),
            'workers': [[(str(u), int(l)) for (u, l) in jobs] for jobs in case['workers']]}


def check(ctx, case):
    case = norm_case(case)
    world = run_case(case)
    tags = ['front:' + case['stream'], 'front:%s:workers=%d' % (case['stream'], len(case['workers']))]
    if any(u.startswith('https') for jobs in case['workers'] for (u, _) in jobs):
        tags.append('front:https-tunnel')
    ctx.case(('front', case['stream'], case['seed'], case['M'], tuple(tuple(j) for j in case['workers'])),
             nontrivial=world.fetches > 1, tags=tags)
    for (kind, where, detail) in world.failures:
        ctx.fail(kind, where, case, detail)
    return world
