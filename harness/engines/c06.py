"""C06 — A failed or interrupted WARC append never damages earlier records.

Streams (model `Wpull.WarcWrite` vs the real code in the wpull checkout):
  append   the REAL `WARCRecorder.write_record` with `open`, `os.remove`,
           `os.path.getsize` (module namespace of wpull.warc.recorder) and
           `builtins.open` as seen by `gzip` replaced by counting wrappers over
           real files: every raw primitive (open / write / truncate / close /
           unlink / getsize) is logged and may be made to FAIL with OSError
           (writes: after a prefix went out) -- for EVERY primitive index of the
           fault-free run, and for every index of every single-fault run again
           (double faults).  Compared with the model: the ordered primitive
           trace (kinds, modes, truncate length, journal text), the final
           archive bytes, the journal file and whether OSError came out.
  kill     the same in a forked child that is killed (`os._exit`) at the k-th
           primitive (before it, or after a prefix of a write); the parent reads
           archive + journal from disk, compares with the model, and starts a
           new WARCRecorder on the directory, which must refuse.
  startup  `_check_journals_and_maybe_raise` on directories with / without
           journal files, prefixes with glob metacharacters.
Oracles on the real code alone: after an injected OSError whose rollback and
unlink primitives worked, archive == bytes before the attempt and no journal;
after a kill: archive valid (old or old + complete record) or the journal names
the old length and cutting there restores the old bytes; earlier bytes are a
prefix of the archive in EVERY run; a new recorder refuses while a journal exists.
"""
import compat  # noqa: F401
import builtins
import glob as _glob
import io
import json
import os
import shutil
import tempfile
import types

from runner import enc, Infra

RULE = ('append/kill: configurations {gzip, plain} x buffer {the real default, 64 bytes} x earlier state {archive absent, '
        'empty, 1, 2, 3 records} x record bodies (0 .. 20000 bytes, so the append is 1..n raw writes) x EVERY primitive '
        'index of the fault-free run x {OSError, kill} x partial-write amounts {0, 1, half, all-1, all}; OSError from the '
        'record source at 4 positions; every single-fault run is extended by a second fault/kill at every later primitive '
        '(thorough: all of them for bodies <= 200 bytes with no / 2 earlier records, 800 sampled per other configuration; '
        'quick: 100 sampled per small configuration) and a sample of third faults. Single kills are real child processes '
        '(os._exit at the primitive); in quick the kills of multi-fault schedules are simulated in-process and the '
        'simulation is compared with the real kill on every single-kill case. startup: prefixes (plain, glob '
        'metacharacters, empty, non-ASCII) x journal present/absent x unrelated and near-miss names. '
        'non-trivial = at least one fault or kill is scheduled (startup: at least one file); '
        'distinct by (stream, kill mode, configuration, body, schedule)')
TRUSTED = ['the raw file layer: io.FileIO/BufferedWriter/TextIOWrapper/gzip.GzipFile of the running Python are the '
           'REAL ones; only FileIO is subclassed to count/inject at the system-call boundary',
           'the gzip / buffering layer is a parameter of the model: the list of raw writes it emits (and re-emits '
           'after a fault) is taken from the real run',
           'POSIX: write appends atomically per call, ftruncate/unlink/open(O_CREAT|O_TRUNC) are atomic, no power loss']
ASSUMPTIONS = ['a killed process leaves exactly the bytes its completed write calls (or a prefix of the one in flight) '
               'put out; data still in user-space buffers is lost',
               'faults are injected at the raw-primitive level only (no fault in os.path.exists)',
               'single writer per archive']
UNPROVED = []


# ------------------------------------------------------------------ injection
class Die(BaseException):
    pass


class Injector:
    """Counts raw primitives; `schedule[i]` = ('fail', k) | ('die', k)."""

    def __init__(self, warc_path, schedule=None, die_hook=None, src_fail=None):
        self.warc = warc_path
        self.journal = warc_path + '-wpullinc'
        self.schedule = dict(schedule or {})
        self.trace = []
        self.n = 0
        self.active = True
        self.die_hook = die_hook
        self.src_fail = src_fail
        self.dead = False       # simulated kill: every later primitive is suppressed
        self.after_unlink = False

    def role(self, path):
        path = os.fspath(path)
        if path == self.journal:
            return 'j'
        if path == self.warc:
            return 'a'
        return None

    def step(self, kind, role, arg=None):
        """Register primitive; return (index, action or None)."""
        i = self.n
        self.n += 1
        act = self.schedule.get(i)
        self.trace.append([kind, role, arg, 'ok'])
        return i, act

    def outcome(self, i, out):
        self.trace[i][3] = out

    def die(self):
        if self.die_hook is None:
            # simulated kill (in-process): nothing the dying code still tries has any effect
            self.dead = True
            raise Die()
        self.die_hook(self)
        os._exit(77)


class FaultyFileIO(io.FileIO):
    """The real raw file object with counting / fault injection at the syscall boundary."""

    def __init__(self, inj, role, path, mode):
        self._inj = inj
        self._role = role
        i, act = inj.step('open', role, mode)
        if act:
            if act[0] == 'die':
                inj.outcome(i, 'die')
                inj.die()
            inj.outcome(i, 'fail')
            raise OSError(5, 'injected open failure', path)
        try:
            super().__init__(path, mode)
        except OSError as e:
            inj.outcome(i, 'enoent' if isinstance(e, FileNotFoundError) else 'fail')
            raise

    def write(self, b):
        b = bytes(b)
        inj = self._inj
        if inj.dead:
            return len(b)
        if not inj.active:
            return super().write(b)
        i, act = inj.step('write', self._role, b)
        if act:
            k = min(act[1], len(b))
            done = 0
            while done < k:
                done += super().write(b[done:k])
            if act[0] == 'die':
                inj.outcome(i, 'die %d' % k)
                inj.die()
            inj.outcome(i, 'fail %d' % k)
            raise OSError(28, 'injected write failure')
        done = 0
        while done < len(b):
            done += super().write(b[done:])
        return len(b)

    def truncate(self, size=None):
        inj = self._inj
        if inj.dead:
            return size
        if not inj.active:
            return super().truncate(size)
        i, act = inj.step('truncate', self._role, size)
        if act:
            if act[0] == 'die':
                inj.outcome(i, 'die')
                inj.die()
            inj.outcome(i, 'fail')
            raise OSError(5, 'injected truncate failure')
        return super().truncate(size)

    def close(self):
        if self.closed:
            return super().close()
        inj = self._inj
        if inj.dead or not inj.active:
            return super().close()
        i, act = inj.step('close', self._role)
        if act:
            if act[0] == 'die':
                inj.outcome(i, 'die')
                inj.die()
            inj.outcome(i, 'fail')
            super().close()          # the descriptor is released even when close(2) reports an error
            raise OSError(5, 'injected close failure')
        return super().close()


def make_open(inj, real_open=builtins.open):
    def fopen(file, mode='r', buffering=-1, encoding=None, errors=None, newline=None, closefd=True, opener=None):
        role = inj.role(file) if isinstance(file, (str, bytes, os.PathLike)) else None
        if inj.dead:
            raise Die()
        if role is None or not inj.active:
            return real_open(file, mode, buffering, encoding, errors, newline, closefd, opener)
        text = 'b' not in mode
        rawmode = mode.replace('b', '').replace('t', '')
        raw = FaultyFileIO(inj, role, file, rawmode)
        bs = getattr(inj, 'bufsize', None) or getattr(raw, '_blksize', 0)
        if bs <= 1:
            bs = io.DEFAULT_BUFFER_SIZE
        if '+' in rawmode:
            buf = io.BufferedRandom(raw, bs)
        elif 'r' in rawmode:
            buf = io.BufferedReader(raw, bs)
        else:
            buf = io.BufferedWriter(raw, bs)
        if not text:
            return buf
        t = io.TextIOWrapper(buf, encoding, errors, newline, False)
        t.mode = mode
        return t
    return fopen


class _PathProxy:
    def __init__(self, inj):
        self._inj = inj

    def __getattr__(self, name):
        return getattr(os.path, name)

    def getsize(self, path):
        inj = self._inj
        role = inj.role(path)
        if inj.dead:
            raise Die()
        if role is None or not inj.active or inj.after_unlink:
            return os.path.getsize(path)
        i, act = inj.step('getsize', role)
        if act:
            if act[0] == 'die':
                inj.outcome(i, 'die')
                inj.die()
            inj.outcome(i, 'fail')
            raise OSError(5, 'injected stat failure')
        return os.path.getsize(path)


class _OsProxy:
    def __init__(self, inj):
        self._inj = inj
        self.path = _PathProxy(inj)

    def __getattr__(self, name):
        return getattr(os, name)

    def remove(self, path):
        inj = self._inj
        role = inj.role(path)
        if inj.dead:
            return None
        if role is None or not inj.active:
            return os.remove(path)
        i, act = inj.step('unlink', role)
        if act:
            if act[0] == 'die':
                inj.outcome(i, 'die')
                inj.die()
            inj.outcome(i, 'fail')
            inj.after_unlink = True
            raise OSError(5, 'injected unlink failure')
        try:
            return os.remove(path)
        except FileNotFoundError:
            inj.outcome(i, 'enoent')
            raise
        finally:
            inj.after_unlink = True     # the getsize that follows is CDX bookkeeping (C07)

    unlink = remove


class patched:
    """Install the wrappers in the namespace of wpull.warc.recorder (and gzip's view of builtins)."""

    def __init__(self, inj):
        self.inj = inj

    def __enter__(self):
        import gzip
        import wpull.warc.recorder as rec
        self.rec, self.gzip = rec, gzip
        self.saved = (rec.__dict__.get('open', None), rec.os, gzip.builtins)
        fopen = make_open(self.inj)
        rec.open = fopen
        rec.os = _OsProxy(self.inj)
        gzip.builtins = types.SimpleNamespace(open=fopen)
        return self.inj

    def __exit__(self, *exc):
        rec, gzip = self.rec, self.gzip
        if self.saved[0] is None:
            rec.__dict__.pop('open', None)
        else:
            rec.open = self.saved[0]
        rec.os = self.saved[1]
        gzip.builtins = self.saved[2]
        self.inj.active = False
        return False


# ------------------------------------------------------------------ the real side
def _mods():
    from wpull.warc.recorder import WARCRecorder, WARCRecorderParams
    from wpull.warc.format import WARCRecord
    return WARCRecorder, WARCRecorderParams, WARCRecord


def make_body(n, seed):
    import random
    rng = random.Random('body/%d/%d' % (n, seed))
    if seed % 2:
        return bytes(rng.choice(b'abc def\r\n<>/') for _ in range(n))      # compressible
    return rng.randbytes(n)


def make_record(body, uri='urn:x-c06:record'):
    _, _, WARCRecord = _mods()
    r = WARCRecord()
    r.set_common_fields('resource', 'application/octet-stream')
    r.fields['WARC-Target-URI'] = uri
    # deterministic record (same bytes in every run of the same case)
    r.fields['WARC-Date'] = '2026-01-01T00:00:00Z'
    r.fields['WARC-Record-ID'] = '<urn:uuid:00000000-0000-4000-8000-%012d>' % (len(body) % 10 ** 12)
    r.block_file = io.BytesIO(body)
    r.set_content_length()
    return r


class SourceFails:
    """A record whose byte source raises OSError after `n` pieces (like the temp file going away)."""

    def __init__(self, record, n):
        self._record = record
        self._n = n
        self.fields = record.fields
        self.block_file = record.block_file

    def __iter__(self):
        for i, piece in enumerate(self._record):
            if i == self._n:
                raise OSError(5, 'injected read failure of the record source')
            yield piece
        raise OSError(5, 'injected read failure of the record source')


class Env:
    """One archive configuration in a scratch directory with a real WARCRecorder."""

    def __init__(self, compress, bufsize):
        WARCRecorder, WARCRecorderParams, _ = _mods()
        self.compress, self.bufsize = compress, bufsize
        self.dir = tempfile.mkdtemp(prefix='c06-', dir=os.environ.get('TMPDIR'))
        self.prefix = os.path.join(self.dir, 'w')
        self.rec = WARCRecorder(self.prefix, params=WARCRecorderParams(compress=compress, log=False))
        self.warc = self.rec._warc_filename
        self.journal = self.warc + '-wpullinc'
        self.priors = {None: None, 0: b''}
        with open(self.warc, 'rb') as f:
            self.priors[1] = f.read()
        for k in (2, 3):
            self.rec.write_record(make_record(make_body(40 + k, k), 'urn:x-c06:prior%d' % k))
            with open(self.warc, 'rb') as f:
                self.priors[k] = f.read()

    def reset(self, prior):
        data = self.priors[prior]
        for p in (self.warc, self.journal):
            if os.path.exists(p):
                os.remove(p)
        if data is not None:
            with open(self.warc, 'wb') as f:
                f.write(data)
        return data

    def state(self):
        out = []
        for p in (self.warc, self.journal):
            if os.path.exists(p):
                with open(p, 'rb') as f:
                    out.append(f.read())
            else:
                out.append(None)
        return out

    def close(self):
        shutil.rmtree(self.dir, ignore_errors=True)


_ENVS = {}


def get_env(compress, bufsize):
    key = (bool(compress), bufsize)
    if key not in _ENVS:
        _ENVS[key] = Env(*key)
    return _ENVS[key]


def close_envs():
    for e in _ENVS.values():
        e.close()
    _ENVS.clear()


def sched_of(case):
    return {int(k): tuple(v) for k, v in (case.get('schedule') or {}).items()}


def _run_inproc(env, record, schedule):
    inj = Injector(env.warc, schedule)
    inj.bufsize = env.bufsize
    status = 'done'
    try:
        with patched(inj):
            try:
                env.rec.write_record(record)
            except OSError:
                status = 'raised'
    except Die:
        status = 'died'
    return status, inj.trace


def _dump(path, status, trace):
    with builtins.open(path, 'w') as f:
        json.dump({'status': status,
                   'trace': [[k, r, (a.hex() if isinstance(a, bytes) else a), isinstance(a, bytes), o]
                             for k, r, a, o in trace]}, f)


def _load(path):
    with builtins.open(path) as f:
        d = json.load(f)
    return d['status'], [[k, r, (bytes.fromhex(a) if isb else a), o] for k, r, a, isb, o in d['trace']]


def _run_child(env, record, schedule):
    """Run write_record in a forked child that is killed (os._exit) at the scheduled primitive."""
    out = os.path.join(env.dir, 'child-trace.json')
    if os.path.exists(out):
        os.remove(out)
    pid = os.fork()
    if pid == 0:
        code = 3
        try:
            inj = Injector(env.warc, schedule, die_hook=lambda i: _dump(out, 'died', i.trace))
            inj.bufsize = env.bufsize
            status = 'done'
            with patched(inj):
                try:
                    env.rec.write_record(record)
                except OSError:
                    status = 'raised'
            _dump(out, status, inj.trace)
            code = 0
        except BaseException:
            import traceback
            traceback.print_exc()
        finally:
            os._exit(code)
    _, st = os.waitpid(pid, 0)
    rc = os.waitstatus_to_exitcode(st)
    if rc not in (0, 77) or not os.path.exists(out):
        raise Infra('C06 child process failed (rc=%s)' % rc)
    status, trace = _load(out)
    os.remove(out)
    return status, trace


def run_real(case):
    """Returns dict(before, record_bytes, status, trace, archive, journal)."""
    env = get_env(case['compress'], case.get('bufsize'))
    prior = case.get('prior')
    before = env.reset(prior)
    body = make_body(case['body_len'], case.get('body_seed', 0))
    record = make_record(body)
    # what a complete append must add (independent of the injected run)
    record.fields['WARC-Warcinfo-ID'] = env.rec._warcinfo_record.fields['WARC-Record-ID']
    record_bytes = b''.join(record)
    if case.get('src_fail') is not None:
        record = SourceFails(record, case['src_fail'])
    schedule = sched_of(case)
    if any(a[0] == 'die' for a in schedule.values()) and case.get('kill_mode', 'fork') == 'fork':
        status, trace = _run_child(env, record, schedule)
    else:
        status, trace = _run_inproc(env, record, schedule)
    archive, journal = env.state()
    restart_refused = None
    if status == 'died' and journal is not None:
        # a new run on this directory must refuse to start (the constructor raises before it writes anything)
        WARCRecorder, WARCRecorderParams, _ = _mods()
        try:
            WARCRecorder(env.prefix, params=WARCRecorderParams(compress=env.compress, log=False, appending=True))
            restart_refused = False
        except OSError:
            restart_refused = True
    return {'restart_refused': restart_refused, 'before': before, 'record_bytes': record_bytes, 'status': status, 'trace': trace,
            'archive': archive, 'journal': journal, 'env': env}


# ------------------------------------------------------------------ trace -> schedule / canonical text
def enc_out(out):
    if out == 'ok' or out == 'enoent':
        return 'ok'
    kind, _, k = out.partition(' ')
    return ('f' if kind == 'fail' else 'd') + (k or '0')


def enc_tag(out):
    if out in ('ok', 'enoent'):
        return out
    return enc_out(out)


def analyse(trace):
    """Map the observed raw-primitive log onto the model's schedule fields and a canonical trace text."""
    s = dict(getsize='ok', jopen='ok', jwrites=[], jwrite='ok', jretry='ok', jclose='ok', junlink='ok', aopen='ok', adata=[], aouts=[],
             aclose='ok', ropen='ok', rtrunc='ok', rclose='ok', unlink='ok')
    text = []
    phase = 'pre'
    for kind, role, arg, out in trace:
        o, t = enc_out(out), enc_tag(out)
        name = None
        if kind == 'getsize' and role == 'a' and phase == 'pre':
            s['getsize'] = o
            name = 'getsize'
        elif kind == 'open' and role == 'j' and phase == 'pre':
            s['jopen'] = o
            phase = 'j'
            name = 'jopen' if arg == 'w' else 'jopen-' + str(arg)
        elif kind == 'write' and role == 'j' and phase == 'j':
            s['jwrites'].append(o)
            s['jwrite' if len(s['jwrites']) == 1 else 'jretry'] = o
            name = ('jwrite=' if len(s['jwrites']) <= 2 else 'jwrite-again=') + enc(arg)
        elif kind == 'close' and role == 'j' and phase == 'j':
            s['jclose'] = o
            name = 'jclose'
        elif kind == 'unlink' and role == 'j' and phase == 'j':
            s['junlink'] = o
            name = 'junlink'
        elif kind == 'open' and role == 'a' and phase == 'j':
            s['aopen'] = o
            phase = 'a'
            name = 'aopen' if arg == 'a' else 'aopen-' + str(arg)
        elif kind == 'write' and role == 'a' and phase == 'a':
            s['adata'].append(arg)
            s['aouts'].append(o)
            name = 'awrite#%d' % len(arg)
        elif kind == 'close' and role == 'a' and phase == 'a':
            s['aclose'] = o
            phase = 'ac'
            name = 'aclose'
        elif kind == 'open' and role == 'a' and phase in ('a', 'ac'):
            s['ropen'] = o
            phase = 'r'
            name = 'ropen' if arg == 'r+' else 'ropen-' + str(arg)
        elif kind == 'truncate' and role == 'a' and phase == 'r':
            s['rtrunc'] = o
            name = 'rtrunc=%s' % arg
        elif kind == 'close' and role == 'a' and phase == 'r':
            s['rclose'] = o
            phase = 'rc'
            name = 'rclose'
        elif kind == 'unlink' and role == 'j':
            s['unlink'] = o
            name = 'unlink'
        else:
            name = 'unexpected-%s-%s-%s@%s' % (kind, role, len(arg) if isinstance(arg, bytes) else arg, phase)
        text.append('%s:%s' % (name, t))
    return s, (','.join(text) or '~')


def enc_optb(b):
    return 'None' if b is None else '=' + enc(b)


def model_line(before, journal0, s, src_fail):
    return ' '.join(['warcwrite run', enc_optb(before), enc_optb(journal0), s['getsize'], s['jopen'],
                     s['jwrite'], s['jretry'], s['jclose'], s['junlink'], s['aopen'],
                     '/'.join(enc(d) for d in s['adata']) or '~', ','.join(s['aouts']) or '~',
                     'T' if src_fail else 'F', s['aclose'], s['ropen'], s['rtrunc'], s['rclose'], s['unlink']])


# ------------------------------------------------------------------ oracles on the real code alone
import re
_JOURNAL_RE = re.compile(rb'wpull-journal-version:1\noffset:(\d+)\n')


def appended_is_record(env, tail, record_bytes):
    if env.compress:
        import gzip
        try:
            return gzip.decompress(tail) == record_bytes
        except Exception:
            return False
    return tail == record_bytes


def public_case(case):
    return {k: v for k, v in case.items() if k != 'env'}


def check_oracles(ctx, case, r):
    before = r['before']
    b0 = before or b''
    archive, journal = r['archive'], r['journal']
    a = archive or b''
    pc = public_case(case)
    # never, under any schedule, may earlier bytes change
    if a[:len(b0)] != b0:
        ctx.fail('earlier-records-damaged', 'write_record', pc,
                 'the first %d bytes of the archive differ from what it held before the append (status %s)'
                 % (len(b0), r['status']))
        return
    complete = a[:len(b0)] == b0 and appended_is_record(r['env'], a[len(b0):], r['record_bytes'])
    if r['status'] == 'done':
        if not complete or journal is not None:
            ctx.fail('append-incomplete', 'write_record', pc,
                     'write_record returned normally but the archive is not old bytes + the complete record '
                     '(journal %s)' % ('left' if journal is not None else 'removed'))
    elif r['status'] == 'raised':
        # faults in the roll-back itself / in a journal removal cannot be undone by any code
        second_phase = [1 for (kind, role, arg, out), ph in zip(r['trace'], phases(r['trace']))
                        if ph in ('r', 'u') and out.startswith('fail')]
        if second_phase:
            ctx.tag('excluded:fault-in-rollback-or-unlink')
            return
        if a != b0:
            ctx.fail('not-restored', 'write_record', pc,
                     'OSError came out of write_record and the archive (%d bytes) is not the %d bytes it held before'
                     % (len(a), len(b0)))
        elif journal is not None:
            ctx.fail('journal-left', 'write_record', pc,
                     'OSError came out of write_record, the archive is unchanged, but the journal file remains')
    else:   # died
        ok = (a == b0) or complete
        if not ok and journal is not None:
            m = _JOURNAL_RE.fullmatch(journal)
            ok = bool(m) and int(m.group(1)) == len(b0) and a[:len(b0)] == b0
        if not ok:
            ctx.fail('kill-unrecoverable', 'write_record', pc,
                     'after the kill the archive is neither valid nor covered by a journal naming the old length '
                     '(archive %d bytes, old %d, journal %r)' % (len(a), len(b0), journal))
        if journal is not None and not r['restart_refused']:
            ctx.fail('startup-not-refused', '_check_journals_and_maybe_raise', pc,
                     'a new WARCRecorder started although the journal of the killed append exists')


def phases(trace):
    """phase label per trace entry: 'r' for primitives of the roll-back (second open of the archive onwards)."""
    out, opens, ph = [], 0, ''
    for kind, role, arg, o in trace:
        if kind == 'open' and role == 'a':
            opens += 1
            if opens >= 2:
                ph = 'r'
        if kind == 'unlink':
            ph = 'u'
        out.append(ph)
    return out


# ------------------------------------------------------------------ one batch: real runs, model, compare
def case_key(case):
    return (case['stream'], case.get('kill_mode', 'fork'), case['compress'], case.get('bufsize'), case.get('prior'), case['body_len'],
            case.get('body_seed', 0), tuple(sorted(sched_of(case).items())), case.get('src_fail'))


def run_cases(ctx, cases):
    """Execute the cases on the real code, ask the model, compare, evaluate oracles.
    Returns the list of observed results (for schedule extension)."""
    results, lines = [], []
    for case in cases:
        r = run_real(case)
        s, text = analyse(r['trace'])
        r['text'] = text
        lines.append(model_line(r['before'], None, s, case.get('src_fail') is not None))
        results.append(r)
    replies = ctx.model.ask(lines)
    for case, r, rep in zip(cases, results, replies):
        real = '%s %s %s %s' % (r['status'], r['text'], enc_optb(r['archive']), enc_optb(r['journal']))
        sch = sched_of(case)
        nfault = len(sch) + (1 if case.get('src_fail') is not None else 0)
        tags = ['%s:%s' % (case['stream'], r['status']), 'faults=%d' % nfault,
                'gzip' if case['compress'] else 'plain', 'prior=%s' % case.get('prior')]
        for mark, tag in (('junlink:', 'path:journal-creation-failed'), (':enoent', 'path:rollback-on-absent-archive'),
                          ('rtrunc=', 'path:rollback'), ('jwrite=', None)):
            if tag and mark in r['text']:
                tags.append(tag)
        if r['text'].count('jwrite=') == 2:
            tags.append('path:journal-write-retried')
        if case.get('kill_mode') == 'sim' and case['stream'] == 'kill':
            tags.append('kill:simulated')
        ctx.case(case_key(case), nontrivial=nfault > 0, tags=tags)
        if real != rep:
            ctx.disagree(case['stream'], public_case(case), rep[:600], real[:600])
        check_oracles(ctx, case, r)
    return results


# ------------------------------------------------------------------ schedules
def variants(entry, kinds=('fail', 'die'), rich=True):
    """All actions to try at one logged primitive."""
    kind, role, arg, out = entry
    if kind == 'write':
        n = len(arg)
        ks = sorted({0, 1, n // 2, max(n - 1, 0), n} if rich else {0, n // 2})
        ks = [k for k in ks if k <= n]
    else:
        ks = [0]
    return [(a, k) for a in kinds for k in ks]


def base_case(stream, compress, bufsize, prior, body_len, body_seed=0, schedule=None, src_fail=None, kill_mode='fork'):
    return {'kill_mode': kill_mode, 'stream': stream, 'compress': compress, 'bufsize': bufsize, 'prior': prior, 'body_len': body_len,
            'body_seed': body_seed, 'schedule': {str(k): list(v) for k, v in (schedule or {}).items()},
            'src_fail': src_fail}


def stream_of(schedule):
    return 'kill' if any(a[0] == 'die' for a in schedule.values()) else 'append'


def sweep(ctx, compress, bufsize, prior, body_len, body_seed, doubles, rng, multi_kill='fork'):
    """Fault-free run, then a fault / kill at EVERY primitive, then second faults after every single fault.
    Single kills are always real (forked child, os._exit); `multi_kill='sim'` runs the kills of the
    multi-fault schedules in-process (Die + every later primitive suppressed) -- the quick tier."""
    def mk(sch, src=None):
        km = 'fork' if len(sch) <= 1 else multi_kill
        return base_case(stream_of(sch), compress, bufsize, prior, body_len, body_seed, sch, src, km)
    base = run_cases(ctx, [mk({})])[0]
    n = len(base['trace'])
    singles = []
    for i, entry in enumerate(base['trace']):
        for act in variants(entry):
            singles.append(mk({i: act}))
    npieces = 5 + (body_len + 4095) // 4096
    for p in sorted({0, 2, npieces - 1, 10 ** 6}):
        singles.append(mk({}, p))
    res1 = run_cases(ctx, singles)
    if multi_kill == 'sim':
        # the in-process kill simulation must leave exactly what the real kill leaves
        sims = [dict(c, kill_mode='sim') for c in singles if c['stream'] == 'kill']
        reals = [r for c, r in zip(singles, res1) if c['stream'] == 'kill']
        for c, rs, rr in zip(sims, run_cases(ctx, sims), reals):
            # (record id and date differ between two runs: compare everything but the new bytes themselves)
            shape = lambda r: (r['status'], r['text'], r['journal'], None if r['archive'] is None else len(r['archive']),
                               (r['archive'] or b'')[:len(r['before'] or b'')])
            if shape(rs) != shape(rr):
                raise Infra('C06: simulated kill differs from the real kill for %r' % public_case(c))
    ctx.tag('sweep:configs')
    ctx.tag('sweep:primitives', n)
    if not doubles:
        return
    second = []
    for case, r in zip(singles, res1):
        if r['status'] == 'died':
            continue
        sch = sched_of(case)
        first = max(sch) if sch else -1
        for j in range(first + 1, len(r['trace'])):
            for act in variants(r['trace'][j], rich=False):
                sch2 = dict(sch)
                sch2[j] = act
                second.append(mk(sch2, case.get('src_fail')))
    if doubles != 'all' and len(second) > doubles:
        second = rng.sample(second, doubles)
    res2 = run_cases(ctx, second)
    # third level (a fault in the append, one in the roll-back, then one more): sampled
    third = []
    for case, r in zip(second, res2):
        if r['status'] == 'died':
            continue
        sch = sched_of(case)
        first = max(sch)
        for j in range(first + 1, len(r['trace'])):
            for act in variants(r['trace'][j], rich=False):
                sch3 = dict(sch)
                sch3[j] = act
                third.append(mk(sch3, case.get('src_fail')))
    k = min(len(third), (doubles if doubles != 'all' else 400) // 4)
    if k:
        run_cases(ctx, rng.sample(third, k))


# ------------------------------------------------------------------ start-up check
PREFIXES = ['w', 'site', 'site[1]', 'a*b', 'q?x', 'x-y', '', 'w.warc', '[', ']', 'a[!b]c', 'ü']
SEQS = ['', '-00000', '-00012', '-meta']


def real_startup(directory, name_prefix):
    WARCRecorder, _, _ = _mods()
    obj = WARCRecorder.__new__(WARCRecorder)
    obj._prefix_filename = os.path.join(directory, name_prefix)
    try:
        obj._check_journals_and_maybe_raise()
        return False
    except OSError:
        return True


def run_startup(ctx, cases):
    """case: {'stream': 'startup', 'prefix': str, 'files': [str]}"""
    lines, reals = [], []
    for case in cases:
        d = tempfile.mkdtemp(prefix='c06s-', dir=os.environ.get('TMPDIR'))
        try:
            for name in case['files']:
                with open(os.path.join(d, name), 'wb') as f:
                    f.write(b'wpull-journal-version:1\noffset:0\n')
            listing = sorted(os.listdir(d))
            reals.append(real_startup(d, case['prefix']))
        finally:
            shutil.rmtree(d, ignore_errors=True)
        lines.append('warcwrite startup %s %s' % (enc(case['prefix']), '/'.join(enc(n) for n in listing) or '~'))
    replies = ctx.model.ask(lines)
    for case, real, rep in zip(cases, reals, replies):
        own = [n for n in case['files'] for s in SEQS for e in ('.warc', '.warc.gz')
               if n == case['prefix'] + s + e + '-wpullinc']
        ctx.case(('startup', case['prefix'], tuple(case['files'])), nontrivial=bool(case['files']),
                 tags=['startup:%s' % ('refused' if real else 'started'), 'startup:own-journal=%d' % bool(own)])
        if ('T' if real else 'F') != rep:
            ctx.disagree('startup', case, rep, 'T' if real else 'F')
        if own and not real:
            ctx.fail('startup-not-refused', '_check_journals_and_maybe_raise', case,
                     'journal %r of prefix %r exists but the start-up check did not raise' % (own[0], case['prefix']))


def gen_startup(rng, n):
    cases = []
    for p in PREFIXES:
        for s in SEQS:
            for e in ('.warc', '.warc.gz'):
                cases.append({'stream': 'startup', 'prefix': p, 'files': [p + s + e + '-wpullinc']})
                cases.append({'stream': 'startup', 'prefix': p, 'files': [p + s + e]})
    for _ in range(n):
        p = rng.choice(PREFIXES)
        files = set()
        for _ in range(rng.randrange(0, 4)):
            q = rng.choice(PREFIXES + [p, p])
            name = q + rng.choice(SEQS) + rng.choice(['.warc', '.warc.gz', '.cdx', ''])
            name += rng.choice(['-wpullinc', '-wpullinc', '', '-wpullinc.bak', '-wpullin'])
            if name and '/' not in name:
                files.add(name)
        cases.append({'stream': 'startup', 'prefix': p, 'files': sorted(files)})
    return cases


# ------------------------------------------------------------------ entry points
def load_corpus(ctx):
    from runner import unjson
    out = []
    for p in sorted(_glob.glob(os.path.join(ctx.verif, 'harness', 'corpus', 'C06', '*.json'))):
        with open(p) as f:
            out.append(unjson(json.load(f)))
    return out


def replay(ctx, case, kind=None, where=None):
    try:
        if case.get('stream') == 'startup':
            run_startup(ctx, [case])
        elif case.get('stream') in ('append', 'kill'):
            run_cases(ctx, [case])
        else:
            raise Infra('unknown replay stream %r' % case.get('stream'))
    finally:
        close_envs()


def configs(thorough):
    out = []
    for compress in (False, True):
        for bufsize, bodies in ((64, [0, 200, 1500]), (None, [200, 9000] if not thorough else [0, 200, 9000, 20000])):
            for prior in (None, 0, 1, 2, 3):
                for body_len in bodies:
                    out.append((compress, bufsize, prior, body_len))
    return out


def run(ctx):
    thorough = ctx.tier == 'thorough'
    try:
        for item in load_corpus(ctx):
            case = item['case'] if 'case' in item else item
            if case.get('stream') == 'startup':
                run_startup(ctx, [case])
            else:
                run_cases(ctx, [case])
        rng = ctx.rng
        for (compress, bufsize, prior, body_len) in configs(thorough):
            small = body_len <= 1500
            if thorough:
                doubles = 'all' if (body_len <= 200 and prior in (None, 2)) else 800
            else:
                doubles = ctx.scale(100, 100) if small else 0
            sweep(ctx, compress, bufsize, prior, body_len, rng.randrange(1000), doubles, rng,
                  multi_kill='fork' if thorough else 'sim')
        run_startup(ctx, gen_startup(rng, ctx.scale(150, 3000)))
        ctx.sample({'stream': 'append', 'example': base_case('append', True, 64, 2, 200, 1, {7: ('fail', 3)})})
        ctx.sample({'stream': 'kill', 'example': base_case('kill', False, None, 3, 9000, 0, {6: ('die', 100)})})
        ctx.note('fault_positions', 'every raw primitive of the fault-free run of every configuration gets OSError and a '
                 'kill (writes: 5 partial amounts); second faults at every later primitive: %s'
                 % ('exhaustive for bodies <= 200 bytes with no / 2 earlier records, 800 per other configuration; all kills real'
                    if thorough else 'sampled (100 per configuration), kills of multi-fault schedules simulated in-process'))
        ctx.exhaustive = False
    finally:
        close_envs()


def search(ctx):
    """Correspondence or proof broke: all double faults on the small configurations."""
    rng = ctx.subrng('search')
    try:
        for compress in (False, True):
            for prior in (None, 0, 2):
                for body_len in (0, 200, 1500):
                    sweep(ctx, compress, 64, prior, body_len, rng.randrange(1000), 'all', rng)
    finally:
        close_envs()
