"""C06 — A failed or interrupted WARC append never damages earlier records.

Streams (model `Wpull.WarcWrite` vs the real code in the wpull checkout):
  append   the REAL `WARCRecorder.write_record` with `open`, `os.remove`,
           `os.path.getsize` (module namespace of wpull.warc.recorder) and
           `builtins.open` as seen by `gzip` replaced by counting wrappers over
           real files: every raw primitive (open / write / truncate / close /
           unlink / getsize) is logged and may be made to FAIL with OSError
           (writes: after a prefix went out) -- for EVERY primitive index of the
           fault-free run, and for every index of every single-fault run again
           (double faults).  Compared with the model: the ordered primitive
           trace (kinds, modes, truncate length, journal text), the final
           archive bytes, the journal file and whether OSError came out.
  kill     the same in a forked child that is killed (`os._exit`) at the k-th
           primitive (before it, or after a prefix of a write); the parent reads
           archive + journal from disk, compares with the model, and starts a
           new WARCRecorder on the directory, which must refuse.
  startup  `_check_journals_and_maybe_raise` on directories with / without
           journal files, prefixes with glob metacharacters.
  life     whole recorder lives -- `WARCRecorder(...)` (its `_start_new_warc_file`:
           truncation of a non-appending run + the warcinfo append), records with
           `flush_session` roll-over at max_size, `close()` with the `-meta`
           archive and the log record -- over directories holding LEFT-OVER files
           of every archive name (plain, -NNNNN, -meta; with and without stale
           journals); OSError and a real kill at EVERY primitive of the life,
           including the constructor's first append and the appends inside
           close().  Model: `startLife` / `runLife` over a directory map; compared:
           the trace WITH FILE NAMES, every file of the directory, the status.
           Oracle per archive: valid, or its OWN journal names its pre-append
           length and cutting there restores it; every journal sits next to the
           archive in flight; every other file byte-identical; the bytes-before of
           a non-appending start are the EMPTY file after truncation.
Oracles on the real code alone: after an injected OSError whose rollback and
unlink primitives worked, archive == bytes before the attempt and no journal;
after a kill: archive valid (old or old + complete record) or the journal names
the old length and cutting there restores the old bytes; earlier bytes are a
prefix of the archive in EVERY run; a new recorder refuses while a journal exists.
"""
import compat  # noqa: F401
import builtins
import glob as _glob
import io
import json
import os
import shutil
import tempfile
import types

from runner import enc, Infra

RULE = ('the archive NAME is a regular file or (own sweeps: 4 configurations + 2 lives in quick, 16 + 4 in thorough) a '
        'symbolic link to a file in another directory / a dangling link whose target the first append creates. '
        'append/kill: configurations {gzip, plain} x buffer {the real default, 64 bytes} x earlier state {archive absent, '
        'empty, 1, 2, 3 records} x record bodies (0 .. 20000 bytes, so the append is 1..n raw writes) x EVERY primitive '
        'index of the fault-free run x {OSError, kill} x partial-write amounts {0, 1, half, all-1, all}; OSError from the '
        'record source at 4 positions; the CLASS of the injected error is a dimension: OSError(ENOSPC), OSError(EIO), '
        'PermissionError(EACCES), PermissionError(EPERM), FileNotFoundError(ENOENT), ENAMETOOLONG, ENOTDIR, EROFS, ELOOP, InterruptedError (not on raw writes: '
        'PEP 475, the io layer retries those itself), BlockingIOError, TimeoutError, bare IOError, and five kinds that are '
        'NOT I/O errors: KeyboardInterrupt, asyncio.CancelledError, SystemExit, MemoryError, ValueError -- quick: the class '
        'rotates with the primitive index and the variant, so every class meets open, write, close, truncate, unlink; '
        'thorough: every class at every primitive; every single-fault run is extended by a second fault/kill at every later primitive '
        '(thorough: all of them for empty bodies with no / 2 earlier records, 1200 sampled for 200-byte bodies there, 300 per other configuration; '
        'quick: 100 sampled per small configuration) and a sample of third faults. Single kills are real child processes '
        '(os._exit at the primitive); in quick the kills of multi-fault schedules are simulated in-process and the '
        'simulation is compared with the real kill on every single-kill case. Logging: every single fault (and the '
        'kills at prefix 0) runs under BOTH configurations -- root logger at DEBUG with a handler that formats every '
        'record (as with --warc-file / log=True) and root at WARNING; multi-fault schedules under one of them chosen per '
        'configuration. life: {gzip, plain} x {appending, not} x '
        '{(no max_size, no log), (no max_size, log), (max_size 900, log), (max_size 900, no log)} x 5 sets of left-over '
        'archives (none; same name; plain + numbered + -meta; numbered + -meta; empty) -- 6 fixed lives (first append over '
        'a left-over file, roll-over + -meta over left-overs, appending with used numbers) + 4 sampled per quick run, the '
        'whole grid in thorough; plus lives under prefixes that carry the extension already / end in letters of ".warcgz" / '
        'contain dots (3 fixed + 1 drawn in quick, 7 in thorough), and 8 lives whose archive name is 246/247/250/255 bytes (NAME_MAX edge of the real file system) -- x EVERY primitive of the life (constructor .. close()) x {OSError, real kill} (writes: '
        'prefix 0 and half), 30/60 second faults per life; 72 lives that start next to a crash journal (0/1/3 complete records + torn fragment, journal naming the cut; plain, numbered, -meta) which must be refused and be the identity on the directory; after every kill that leaves a journal: restarts in the default and the appending mode, directory compared byte for byte. startup: prefixes (plain, glob '
        'metacharacters, empty, non-ASCII) x journal present/absent x unrelated and near-miss names. '
        'non-trivial = at least one fault or kill is scheduled (startup: at least one file); '
        'distinct by (stream, kill mode, configuration, body, schedule)')
TRUSTED = ['the raw file layer: io.FileIO/BufferedWriter/TextIOWrapper/gzip.GzipFile of the running Python are the '
           'REAL ones; only FileIO is subclassed to count/inject at the system-call boundary',
           'the gzip / buffering layer is a parameter of the model: the list of raw writes it emits (and re-emits '
           'after a fault) is taken from the real run',
           'POSIX: write appends atomically per call, ftruncate/unlink/open(O_CREAT|O_TRUNC) are atomic, no power loss']
ASSUMPTIONS = ['observation point: the files are read after the exception object of a failed append has been dropped and '
               'gc.collect() has run (and at the end of every life), not at the moment the error is raised',
               'the model treats the logging calls inside write_record (debug "Writing WARC record", info "Rolling back '
               'file ...") as non-raising no-ops; the harness runs every single fault under both logging configurations '
               '(root logger at DEBUG with a formatting handler / at WARNING) and lives with log=True, and requires that what '
               'comes out is an OSError (oracle fault-changed-exception)',
               'a killed process leaves exactly the bytes its completed write calls (or a prefix of the one in flight) '
               'put out; data still in user-space buffers is lost',
               'faults are injected at the raw-primitive level only (no fault in os.path.exists)',
               'single writer per archive']
UNPROVED = []


# ------------------------------------------------------------------ injection
class Die(BaseException):
    pass


import errno as _errno

# the class of the injected I/O error is a dimension of its own: `except (OSError, IOError)` must treat them alike
ERR_CLASSES = ['enospc', 'eio', 'eacces', 'eperm', 'enoent', 'eintr', 'eagain', 'etimedout', 'ioerror',
               'enametoolong', 'enotdir', 'erofs', 'eloop']
_ERRNO = {'enospc': _errno.ENOSPC, 'eio': _errno.EIO, 'eacces': _errno.EACCES, 'eperm': _errno.EPERM,
          'enoent': _errno.ENOENT, 'eintr': _errno.EINTR, 'eagain': _errno.EAGAIN, 'etimedout': _errno.ETIMEDOUT,
          'enametoolong': _errno.ENAMETOOLONG, 'enotdir': _errno.ENOTDIR, 'erofs': _errno.EROFS, 'eloop': _errno.ELOOP}


# exceptions that are NOT I/O errors but can surface inside an append just as well (second Ctrl+C with Python's
# default SIGINT handler, task cancellation, sys.exit in a callback, out of memory, a bug in the record source)
NON_OS_CLASSES = ['kbint', 'cancelled', 'sysexit', 'memory', 'exception']


def is_os_class(cls):
    return cls not in NON_OS_CLASSES


def make_error(cls, msg, path=None):
    """OSError(ENOSPC) / OSError(EIO) / PermissionError(EACCES|EPERM) / FileNotFoundError / InterruptedError /
    BlockingIOError / TimeoutError (OSError's constructor picks the subclass from errno) / bare IOError."""
    if cls == 'ioerror':
        return IOError('injected ' + msg)
    if cls == 'kbint':
        return KeyboardInterrupt()
    if cls == 'cancelled':
        import asyncio
        return asyncio.CancelledError()
    if cls == 'sysexit':
        return SystemExit(1)
    if cls == 'memory':
        return MemoryError()
    if cls == 'exception':
        return ValueError('injected ' + msg + ' (not an I/O error)')
    no = _ERRNO[cls or 'eio']
    return OSError(no, 'injected ' + msg, path) if path is not None else OSError(no, 'injected ' + msg)


def act_class(act, default='eio'):
    return act[2] if act is not None and len(act) > 2 and act[2] else default


class Injector:
    """Counts raw primitives; `schedule[i]` = ('fail', k) | ('die', k)."""

    def __init__(self, warc_path, schedule=None, die_hook=None, src_fail=None):
        self.warc = warc_path
        self.journal = warc_path + '-wpullinc'
        self.schedule = dict(schedule or {})
        self.trace = []
        self.n = 0
        self.active = True
        self.die_hook = die_hook
        self.src_fail = src_fail
        self.dead = False       # simulated kill: every later primitive is suppressed
        self.dir = None         # life mode: the scratch directory
        self.names = []         # file name per trace entry
        self.snapshot = None    # life mode: callable -> {name: bytes}
        self.snaps = {}
        self.after_unlink = False

    def role(self, path):
        path = os.fspath(path)
        if self.dir is not None:
            # life mode: every archive / journal of the scratch directory
            d, base = os.path.split(path)
            if d != self.dir or base.startswith('child-'):
                return None
            return 'j' if base.endswith('-wpullinc') else 'a'
        if path == self.journal:
            return 'j'
        if path == self.warc:
            return 'a'
        return None

    def mark(self, kind, arg):
        """A call boundary (not a primitive): which method starts, aimed at which archive."""
        if not self.active or self.dead:
            return
        self.n += 1
        self.trace.append(['mark', kind, arg, 'ok'])
        self.after_unlink = False
        self.names.append(None)
        if self.snapshot is not None:
            self.snaps[kind] = self.snapshot()

    def step(self, kind, role, arg=None, name=None):
        """Register primitive; return (index, action or None)."""
        i = self.n
        self.n += 1
        self.names.append(os.path.basename(os.fspath(name)) if name is not None else None)
        act = self.schedule.get(i)
        self.trace.append([kind, role, arg, 'ok'])
        return i, act

    def outcome(self, i, out):
        self.trace[i][3] = out

    def die(self):
        if self.die_hook is None:
            # simulated kill (in-process): nothing the dying code still tries has any effect
            self.dead = True
            raise Die()
        self.die_hook(self)
        os._exit(77)


class FaultyFileIO(io.FileIO):
    """The real raw file object with counting / fault injection at the syscall boundary."""

    def __init__(self, inj, role, path, mode):
        self._inj = inj
        self._role = role
        self._path = path
        i, act = inj.step('open', role, mode, path)
        if act:
            if act[0] == 'die':
                inj.outcome(i, 'die')
                inj.die()
            inj.outcome(i, 'fail')
            raise make_error(act_class(act), 'open failure', path)
        try:
            super().__init__(path, mode)
        except OSError as e:
            inj.outcome(i, 'enoent' if isinstance(e, FileNotFoundError) else 'fail')
            raise

    def write(self, b):
        b = bytes(b)
        inj = self._inj
        if inj.dead:
            return len(b)
        if not inj.active:
            return super().write(b)
        i, act = inj.step('write', self._role, b, self._path)
        if act:
            k = min(act[1], len(b))
            done = 0
            while done < k:
                done += super().write(b[done:k])
            if act[0] == 'die':
                inj.outcome(i, 'die %d' % k)
                inj.die()
            inj.outcome(i, 'fail %d' % k)
            raise make_error(act_class(act, 'enospc'), 'write failure')
        done = 0
        while done < len(b):
            done += super().write(b[done:])
        return len(b)

    def truncate(self, size=None):
        inj = self._inj
        if inj.dead:
            return size
        if not inj.active:
            return super().truncate(size)
        i, act = inj.step('truncate', self._role, size, self._path)
        if act:
            if act[0] == 'die':
                inj.outcome(i, 'die')
                inj.die()
            inj.outcome(i, 'fail')
            raise make_error(act_class(act), 'truncate failure')
        return super().truncate(size)

    def close(self):
        if self.closed:
            return super().close()
        inj = self._inj
        if inj.dead or not inj.active:
            return super().close()
        i, act = inj.step('close', self._role, None, self._path)
        if act:
            if act[0] == 'die':
                inj.outcome(i, 'die')
                inj.die()
            inj.outcome(i, 'fail')
            super().close()          # the descriptor is released even when close(2) reports an error
            raise make_error(act_class(act), 'close failure')
        return super().close()


def make_open(inj, real_open=builtins.open):
    def fopen(file, mode='r', buffering=-1, encoding=None, errors=None, newline=None, closefd=True, opener=None):
        role = inj.role(file) if isinstance(file, (str, bytes, os.PathLike)) else None
        if inj.dead:
            raise Die()
        if role is None or not inj.active:
            return real_open(file, mode, buffering, encoding, errors, newline, closefd, opener)
        text = 'b' not in mode
        rawmode = mode.replace('b', '').replace('t', '')
        raw = FaultyFileIO(inj, role, file, rawmode)
        bs = getattr(inj, 'bufsize', None) or getattr(raw, '_blksize', 0)
        if bs <= 1:
            bs = io.DEFAULT_BUFFER_SIZE
        if '+' in rawmode:
            buf = io.BufferedRandom(raw, bs)
        elif 'r' in rawmode:
            buf = io.BufferedReader(raw, bs)
        else:
            buf = io.BufferedWriter(raw, bs)
        if not text:
            return buf
        t = io.TextIOWrapper(buf, encoding, errors, newline, False)
        t.mode = mode
        return t
    return fopen


class _PathProxy:
    def __init__(self, inj):
        self._inj = inj

    def __getattr__(self, name):
        return getattr(os.path, name)

    def getsize(self, path):
        inj = self._inj
        role = inj.role(path)
        if inj.dead:
            raise Die()
        if role is None or not inj.active or inj.after_unlink:
            return os.path.getsize(path)
        i, act = inj.step('getsize', role, None, path)
        if act:
            if act[0] == 'die':
                inj.outcome(i, 'die')
                inj.die()
            inj.outcome(i, 'fail')
            raise make_error(act_class(act), 'stat failure')
        return os.path.getsize(path)


class _OsProxy:
    def __init__(self, inj):
        self._inj = inj
        self.path = _PathProxy(inj)

    def __getattr__(self, name):
        return getattr(os, name)

    def remove(self, path):
        inj = self._inj
        role = inj.role(path)
        if inj.dead:
            return None
        if role is None or not inj.active:
            return os.remove(path)
        i, act = inj.step('unlink', role, None, path)
        if act:
            if act[0] == 'die':
                inj.outcome(i, 'die')
                inj.die()
            inj.outcome(i, 'fail')
            inj.after_unlink = True
            raise make_error(act_class(act), 'unlink failure')
        try:
            return os.remove(path)
        except FileNotFoundError:
            inj.outcome(i, 'enoent')
            raise
        finally:
            inj.after_unlink = True     # the getsize that follows is CDX bookkeeping (C07)

    unlink = remove


class patched:
    """Install the wrappers in the namespace of wpull.warc.recorder (and gzip's view of builtins)."""

    def __init__(self, inj):
        self.inj = inj

    def __enter__(self):
        import gzip
        import wpull.warc.recorder as rec
        self.rec, self.gzip = rec, gzip
        import wpull.util as wutil
        self.wutil = wutil
        self.saved = (rec.__dict__.get('open', None), rec.os, gzip.builtins, wutil.__dict__.get('open', None),
                      rec.WARCRecorder.write_record, rec.WARCRecorder._start_new_warc_file)
        fopen = make_open(self.inj)
        rec.open = fopen
        rec.os = _OsProxy(self.inj)
        gzip.builtins = types.SimpleNamespace(open=fopen)
        wutil.open = fopen              # wpull.util.truncate_file
        inj = self.inj
        if inj.dir is not None:
            orig_wr, orig_st = self.saved[4], self.saved[5]

            def write_record(recorder, *a, **k):
                inj.mark('write_record', os.path.basename(recorder._warc_filename))
                return orig_wr(recorder, *a, **k)

            def _start_new_warc_file(recorder, *a, **k):
                inj.mark('start', None)
                return orig_st(recorder, *a, **k)
            rec.WARCRecorder.write_record = write_record
            rec.WARCRecorder._start_new_warc_file = _start_new_warc_file
        return self.inj

    def __exit__(self, *exc):
        rec, gzip = self.rec, self.gzip
        if self.saved[0] is None:
            rec.__dict__.pop('open', None)
        else:
            rec.open = self.saved[0]
        rec.os = self.saved[1]
        gzip.builtins = self.saved[2]
        if self.saved[3] is None:
            self.wutil.__dict__.pop('open', None)
        else:
            self.wutil.open = self.saved[3]
        rec.WARCRecorder.write_record = self.saved[4]
        rec.WARCRecorder._start_new_warc_file = self.saved[5]
        self.inj.active = False
        return False


# ------------------------------------------------------------------ logging configuration of the run
class log_config:
    """'debug': what the application has with --warc-file / what log=True sets up: root logger at DEBUG and a
    handler that formats EVERY record (so every log call inside write_record really builds its LogRecord and
    its text).  'warning': the library default (root at WARNING, nothing below is built)."""

    def __init__(self, mode):
        self.mode = mode or 'warning'

    def __enter__(self):
        import logging
        root = logging.getLogger()
        self.saved = (root.level, list(root.handlers))
        self.handler = None
        if self.mode == 'debug':
            root.setLevel(logging.DEBUG)
            self.handler = logging.StreamHandler(io.StringIO())
            self.handler.setLevel(logging.DEBUG)
            self.handler.setFormatter(logging.Formatter('%(asctime)s - %(name)s - %(levelname)s - %(message)s'))
            root.addHandler(self.handler)
        else:
            root.setLevel(logging.WARNING)
        return self

    def __exit__(self, *exc):
        import logging
        root = logging.getLogger()
        if self.handler is not None:
            root.removeHandler(self.handler)
        root.setLevel(self.saved[0])
        return False


def exc_name(e):
    return None if e is None else type(e).__name__


_LAST_EARLY = {}


def refused_restarts(directory, prefix_path, compress, max_size=None):
    """Start a new run next to the left-over journal(s), first WITHOUT and then with appending (the default mode
    first: it is the one that truncates).  Each start must be refused AND must be the identity on the directory.
    -> (all refused?, [(mode, name, bytes before, bytes after)] of files that differ)"""
    WARCRecorder, WARCRecorderParams, _ = _mods()
    refused, changed = True, []
    for appending in (False, True):
        before = dir_snapshot(directory)
        try:
            WARCRecorder(prefix_path, params=WARCRecorderParams(compress=compress, log=False, appending=appending,
                                                                max_size=max_size))
            refused = False
        except OSError:
            pass
        late_collect()
        after = dir_snapshot(directory)
        for n in sorted(set(before) | set(after)):
            if before.get(n) != after.get(n):
                changed.append(('appending' if appending else 'non-appending', n, before.get(n), after.get(n)))
        if changed or not refused:
            break
    return refused, changed


def recipe_ok(archive, journal, compress, expect=None):
    """The journal's recovery recipe: cut the archive at the journalled offset -> a valid record sequence
    (and, when known, exactly `expect`)."""
    m = _JOURNAL_RE.fullmatch(journal or b'')
    if not m:
        return None
    n = int(m.group(1))
    if archive is None or n > len(archive):
        return False
    cut = archive[:n]
    return valid_sequence(cut, compress) and (expect is None or cut == expect)


def late_collect():
    import gc
    gc.collect()
    gc.freeze()     # survivors (results kept by the sweep) need not be scanned again by the next call


# ------------------------------------------------------------------ the real side
def _mods():
    from wpull.warc.recorder import WARCRecorder, WARCRecorderParams
    from wpull.warc.format import WARCRecord
    return WARCRecorder, WARCRecorderParams, WARCRecord


def make_body(n, seed):
    import random
    rng = random.Random('body/%d/%d' % (n, seed))
    if seed % 2:
        return bytes(rng.choice(b'abc def\r\n<>/') for _ in range(n))      # compressible
    return rng.randbytes(n)


def make_record(body, uri='urn:x-c06:record'):
    _, _, WARCRecord = _mods()
    r = WARCRecord()
    r.set_common_fields('resource', 'application/octet-stream')
    r.fields['WARC-Target-URI'] = uri
    # deterministic record (same bytes in every run of the same case)
    r.fields['WARC-Date'] = '2026-01-01T00:00:00Z'
    r.fields['WARC-Record-ID'] = '<urn:uuid:00000000-0000-4000-8000-%012d>' % (len(body) % 10 ** 12)
    r.block_file = io.BytesIO(body)
    r.set_content_length()
    return r


class SourceFails:
    """A record whose byte source raises OSError after `n` pieces (like the temp file going away)."""

    def __init__(self, record, n, cls='eio'):
        self._record = record
        self._n = n
        self._cls = cls
        self.fields = record.fields
        self.block_file = record.block_file

    def __iter__(self):
        for i, piece in enumerate(self._record):
            if i == self._n:
                raise make_error(self._cls, 'read failure of the record source')
            yield piece
        raise make_error(self._cls, 'read failure of the record source')


class Env:
    """One archive configuration in a scratch directory with a real WARCRecorder."""

    def __init__(self, compress, bufsize, link=False):
        WARCRecorder, WARCRecorderParams, _ = _mods()
        self.compress, self.bufsize, self.link = compress, bufsize, link
        self.dir = tempfile.mkdtemp(prefix='c06-', dir=os.environ.get('TMPDIR'))
        # link: the archive NAME is a symbolic link to a file in another directory (dangling when the archive
        # does not exist yet: the first append creates the target)
        self.side = tempfile.mkdtemp(prefix='c06k-', dir=os.environ.get('TMPDIR')) if link else None
        self.target = os.path.join(self.side, 'the-real-archive-file') if link else None
        self.prefix = os.path.join(self.dir, 'w')
        self.rec = WARCRecorder(self.prefix, params=WARCRecorderParams(compress=compress, log=False))
        self.warc = self.rec._warc_filename
        self.journal = self.warc + '-wpullinc'
        self.priors = {None: None, 0: b''}
        with open(self.warc, 'rb') as f:
            self.priors[1] = f.read()
        for k in (2, 3):
            self.rec.write_record(make_record(make_body(40 + k, k), 'urn:x-c06:prior%d' % k))
            with open(self.warc, 'rb') as f:
                self.priors[k] = f.read()

    def reset(self, prior):
        data = self.priors[prior]
        for p in (self.warc, self.journal, self.target):
            if p and os.path.lexists(p):
                os.remove(p)
        if self.link:
            os.symlink(self.target, self.warc)
        if data is not None:
            with open(self.warc, 'wb') as f:        # through the link, if it is one
                f.write(data)
        return data

    def state(self):
        out = []
        for p in (self.warc, self.journal):
            if os.path.exists(p):
                with open(p, 'rb') as f:
                    out.append(f.read())
            else:
                out.append(None)
        return out

    def close(self):
        shutil.rmtree(self.dir, ignore_errors=True)
        if self.side:
            shutil.rmtree(self.side, ignore_errors=True)


_ENVS = {}


def get_env(compress, bufsize, link=False):
    key = (bool(compress), bufsize, bool(link))
    if key not in _ENVS:
        _ENVS[key] = Env(*key)
    return _ENVS[key]


def close_envs():
    for e in _ENVS.values():
        e.close()
    _ENVS.clear()


def sched_of(case):
    return {int(k): tuple(v) for k, v in (case.get('schedule') or {}).items()}


def _run_inproc(env, record, schedule):
    inj = Injector(env.warc, schedule)
    inj.bufsize = env.bufsize
    status, exc, early = 'done', None, None
    try:
        with patched(inj):
            try:
                env.rec.write_record(record)
            except Die:
                raise
            except BaseException as e:      # an OSError is expected; anything else is judged by the oracle
                status, exc = 'raised', [exc_name(e), isinstance(e, OSError)]
                early = env.state()     # what is on disk while the exception object is still alive
            # The exception object (traceback, frames, whatever file objects those frames still hold) is
            # dropped here; collect NOW, with the wrappers still recording: the restored state must hold at
            # every LATER observation point, not only at the moment the error is raised.
            late_collect()
    except Die:
        status = 'died'
    _LAST_EARLY['v'] = early
    return status, inj.trace, exc


def _dump(path, status, trace, exc=None):
    with builtins.open(path, 'w') as f:
        json.dump({'status': status, 'exc': exc,
                   'trace': [[k, r, (a.hex() if isinstance(a, bytes) else a), isinstance(a, bytes), o]
                             for k, r, a, o in trace]}, f)


def _load(path):
    with builtins.open(path) as f:
        d = json.load(f)
    return d['status'], [[k, r, (bytes.fromhex(a) if isb else a), o] for k, r, a, isb, o in d['trace']], d.get('exc')


def _run_child(env, record, schedule):
    """Run write_record in a forked child that is killed (os._exit) at the scheduled primitive."""
    out = os.path.join(env.dir, 'child-trace.json')
    if os.path.exists(out):
        os.remove(out)
    pid = os.fork()
    if pid == 0:
        code = 3
        try:
            inj = Injector(env.warc, schedule, die_hook=lambda i: _dump(out, 'died', i.trace))
            inj.bufsize = env.bufsize
            status, exc = 'done', None
            with patched(inj):
                try:
                    env.rec.write_record(record)
                except BaseException as e:
                    status, exc = 'raised', [exc_name(e), isinstance(e, OSError)]
                late_collect()
            _dump(out, status, inj.trace, exc)
            code = 0
        except BaseException:
            import traceback
            traceback.print_exc()
        finally:
            os._exit(code)
    _, st = os.waitpid(pid, 0)
    rc = os.waitstatus_to_exitcode(st)
    if rc not in (0, 77) or not os.path.exists(out):
        raise Infra('C06 child process failed (rc=%s)' % rc)
    status, trace, exc = _load(out)
    os.remove(out)
    return status, trace, exc


def run_real(case):
    """Returns dict(before, record_bytes, status, trace, archive, journal)."""
    env = get_env(case['compress'], case.get('bufsize'), case.get('link', False))
    prior = case.get('prior')
    before = env.reset(prior)
    body = make_body(case['body_len'], case.get('body_seed', 0))
    record = make_record(body)
    # what a complete append must add (independent of the injected run)
    record.fields['WARC-Warcinfo-ID'] = env.rec._warcinfo_record.fields['WARC-Record-ID']
    record_bytes = b''.join(record)
    if case.get('src_fail') is not None:
        record = SourceFails(record, case['src_fail'], case.get('src_cls') or 'eio')
    schedule = sched_of(case)
    with log_config(case.get('logging')):
        if any(a[0] == 'die' for a in schedule.values()) and case.get('kill_mode', 'fork') == 'fork':
            status, trace, exc = _run_child(env, record, schedule)
            early = None
        else:
            status, trace, exc = _run_inproc(env, record, schedule)
            early = _LAST_EARLY.pop('v', None)
    archive, journal = env.state()      # read AFTER the exception was dropped and the collector ran
    restart_refused, restart_changed = None, []
    if status == 'died' and journal is not None:
        # a new run on this directory (default mode and --warc-append) must refuse to start and change nothing
        restart_refused, restart_changed = refused_restarts(env.dir, env.prefix, env.compress)
    return {'restart_changed': restart_changed, 'early': early, 'exc': exc, 'restart_refused': restart_refused, 'before': before, 'record_bytes': record_bytes, 'status': status, 'trace': trace,
            'archive': archive, 'journal': journal, 'env': env}


# ------------------------------------------------------------------ trace -> schedule / canonical text
def enc_out(out):
    if out == 'ok' or out == 'enoent':
        return 'ok'
    kind, _, k = out.partition(' ')
    return ('f' if kind == 'fail' else 'd') + (k or '0')


def enc_tag(out):
    if out in ('ok', 'enoent'):
        return out
    return enc_out(out)


def analyse(trace):
    """Map the observed raw-primitive log onto the model's schedule fields and a canonical trace text."""
    s = dict(getsize='ok', jopen='ok', jwrites=[], jwrite='ok', jretry='ok', jclose='ok', junlink='ok', aopen='ok', adata=[], aouts=[],
             aclose='ok', ropen='ok', rtrunc='ok', rclose='ok', unlink='ok')
    text = []
    phase = 'pre'
    for kind, role, arg, out in trace:
        o, t = enc_out(out), enc_tag(out)
        name = None
        if kind == 'getsize' and role == 'a' and phase == 'pre':
            s['getsize'] = o
            name = 'getsize'
        elif kind == 'open' and role == 'j' and phase == 'pre':
            s['jopen'] = o
            phase = 'j'
            name = 'jopen' if arg == 'w' else 'jopen-' + str(arg)
        elif kind == 'write' and role == 'j' and phase == 'j':
            s['jwrites'].append(o)
            s['jwrite' if len(s['jwrites']) == 1 else 'jretry'] = o
            name = ('jwrite=' if len(s['jwrites']) <= 2 else 'jwrite-again=') + enc(arg)
        elif kind == 'close' and role == 'j' and phase == 'j':
            s['jclose'] = o
            name = 'jclose'
        elif kind == 'unlink' and role == 'j' and phase == 'j':
            s['junlink'] = o
            name = 'junlink'
        elif kind == 'open' and role == 'a' and phase == 'j':
            s['aopen'] = o
            phase = 'a'
            name = 'aopen' if arg == 'a' else 'aopen-' + str(arg)
        elif kind == 'write' and role == 'a' and phase == 'a':
            s['adata'].append(arg)
            s['aouts'].append(o)
            name = 'awrite#%d' % len(arg)
        elif kind == 'close' and role == 'a' and phase == 'a':
            s['aclose'] = o
            phase = 'ac'
            name = 'aclose'
        elif kind == 'open' and role == 'a' and phase in ('a', 'ac'):
            s['ropen'] = o
            phase = 'r'
            name = 'ropen' if arg == 'r+' else 'ropen-' + str(arg)
        elif kind == 'truncate' and role == 'a' and phase == 'r':
            s['rtrunc'] = o
            name = 'rtrunc=%s' % arg
        elif kind == 'close' and role == 'a' and phase == 'r':
            s['rclose'] = o
            phase = 'rc'
            name = 'rclose'
        elif kind == 'unlink' and role == 'j':
            s['unlink'] = o
            name = 'unlink'
        else:
            name = 'unexpected-%s-%s-%s@%s' % (kind, role, len(arg) if isinstance(arg, bytes) else arg, phase)
        text.append('%s:%s' % (name, t))
    return s, (','.join(text) or '~')


def enc_optb(b):
    return 'None' if b is None else '=' + enc(b)


def injected_classes(case):
    out = [act_class(a, 'eio') for a in sched_of(case).values() if a[0] == 'fail']
    if case.get('src_fail') is not None:
        out.append(case.get('src_cls') or 'eio')
    return out


def handler_class(sch, indexed_entries, default='eio'):
    """Class of the exception the handlers of write_record see.  Journal creation and append cannot both fail in
    one call.  Out of the journal's `with` block comes the LAST exception raised in it (a failing close replaces
    the error of the write before it); for the append the class is irrelevant to the handler (any BaseException)."""
    jfails, first = [], None
    seen_archive = False
    for i, entry in indexed_entries:
        if entry[0] == 'mark':
            continue
        kind, role, out = entry[0], entry[1], entry[3]
        if kind == 'open' and role == 'a' and entry[2] != 'w':
            seen_archive = True
        if out.startswith('fail') and i in sch:
            c = act_class(sch[i], 'enospc' if kind == 'write' else 'eio')
            if first is None:
                first = c
            if role == 'j' and not seen_archive and kind in ('open', 'write', 'close'):
                jfails.append(c)
    if jfails:
        return jfails[-1]
    return first or default


def first_error_class(case, trace):
    return handler_class(sched_of(case), list(enumerate(trace)), case.get('src_cls') or 'eio')


def model_line(before, journal0, s, src_fail, cls='eio'):
    return ' '.join(['warcwrite runE', cls, enc_optb(before), enc_optb(journal0), s['getsize'], s['jopen'],
                     s['jwrite'], s['jretry'], s['jclose'], s['junlink'], s['aopen'],
                     '/'.join(enc(d) for d in s['adata']) or '~', ','.join(s['aouts']) or '~',
                     'T' if src_fail else 'F', s['aclose'], s['ropen'], s['rtrunc'], s['rclose'], s['unlink']])


# ------------------------------------------------------------------ oracles on the real code alone
import re
_JOURNAL_RE = re.compile(rb'wpull-journal-version:1\noffset:(\d+)\n')


def appended_is_record(env, tail, record_bytes):
    if env.compress:
        import gzip
        try:
            return gzip.decompress(tail) == record_bytes
        except Exception:
            return False
    return tail == record_bytes


def public_case(case):
    return {k: v for k, v in case.items() if k != 'env'}


def check_oracles(ctx, case, r):
    before = r['before']
    b0 = before or b''
    archive, journal = r['archive'], r['journal']
    a = archive or b''
    pc = public_case(case)
    # never, under any schedule, may earlier bytes change
    if a[:len(b0)] != b0:
        ctx.fail('earlier-records-damaged', 'write_record', pc,
                 'the first %d bytes of the archive differ from what it held before the append (status %s)'
                 % (len(b0), r['status']))
        return
    bad = uncovered_archive_primitive([['mark', 'write_record', None, 'ok']] + list(r['trace']))
    if bad is not None:
        ctx.fail('append-without-journal', 'write_record', pc,
                 'the archive was touched (%s %s) while no completely written journal of this append existed' % (bad[0], bad[2] if not isinstance(bad[2], bytes) else '%d bytes' % len(bad[2])))
    non_os = [c for c in injected_classes(case) if not is_os_class(c)]
    if r['status'] == 'raised' and r.get('exc') and not r['exc'][1] and not non_os:
        ctx.fail('fault-changed-exception', 'write_record', pc,
                 'the injected I/O error came out of write_record as %s, which is not an OSError' % r['exc'][0])
    complete = a[:len(b0)] == b0 and appended_is_record(r['env'], a[len(b0):], r['record_bytes'])
    if r['status'] == 'done':
        if not complete or journal is not None:
            ctx.fail('append-incomplete', 'write_record', pc,
                     'write_record returned normally but the archive is not old bytes + the complete record '
                     '(journal %s)' % ('left' if journal is not None else 'removed'))
    elif r['status'] == 'raised':
        # faults in the roll-back itself / in a journal removal cannot be undone by any code
        second_phase = [1 for (kind, role, arg, out), ph in zip(r['trace'], phases(r['trace']))
                        if ph in ('r', 'u') and out.startswith('fail')]
        if second_phase:
            ctx.tag('excluded:fault-in-rollback-or-unlink')
            return
        early = r.get('early')
        if non_os:
            # an exception that is not an I/O error (KeyboardInterrupt, CancelledError, SystemExit, MemoryError, a bug
            # in the record source) interrupted the append: the archive must be restored, or the journal naming the
            # pre-append length must still be there
            m = _JOURNAL_RE.fullmatch(journal or b'')
            if a != b0 and not (m and int(m.group(1)) == len(b0)):
                ctx.fail('interrupt-unrecoverable', 'write_record', pc,
                         '%s interrupted the append: the archive holds %d bytes (%d before) and %s'
                         % ((r.get('exc') or ['an exception'])[0], len(a), len(b0),
                            'no journal remains' if journal is None else 'the journal does not name the old length'))
        elif a != b0 and early is not None and (early[0] or b'') == b0:
            ctx.fail('not-restored-after-exception-dropped', 'write_record', pc,
                     'the archive was restored (%d bytes) while the %s was alive, but once the exception object had been '
                     'dropped and the collector had run it holds %d bytes: something kept by the failed append wrote later'
                     % (len(b0), (r.get('exc') or ['exception'])[0], len(a)))
        elif a != b0:
            ctx.fail('not-restored', 'write_record', pc,
                     '%s came out of write_record and the archive (%d bytes) is not the %d bytes it held before'
                     % ((r.get('exc') or ['an exception'])[0], len(a), len(b0)))
        elif journal is not None:
            ctx.fail('journal-left', 'write_record', pc,
                     'OSError came out of write_record, the archive is unchanged, but the journal file remains')
    else:   # died
        ok = (a == b0) or complete
        if not ok and journal is not None:
            m = _JOURNAL_RE.fullmatch(journal)
            ok = bool(m) and int(m.group(1)) == len(b0) and a[:len(b0)] == b0
        if not ok:
            ctx.fail('kill-unrecoverable', 'write_record', pc,
                     'after the kill the archive is neither valid nor covered by a journal naming the old length '
                     '(archive %d bytes, old %d, journal %r)' % (len(a), len(b0), journal))
        if journal is not None and not r['restart_refused']:
            ctx.fail('startup-not-refused', '_check_journals_and_maybe_raise', pc,
                     'a new WARCRecorder started although the journal of the killed append exists')
        elif r.get('restart_changed'):
            mode, n, x, y = r['restart_changed'][0]
            ctx.fail('refused-start-changed-archive', 'restart', pc,
                     'the %s restart next to the journal of the killed append was refused, but file %r went from %s to %s '
                     'bytes: the journal (offset %d) can no longer restore the earlier records'
                     % (mode, n, None if x is None else len(x), None if y is None else len(y), len(b0)))


def uncovered_archive_primitive(trace):
    """Direct reading of 'the journal is written before the archive is opened for append' on the real log: the
    first primitive that opens the archive for writing / writes to it while no journal of THIS write_record has
    been completely created (open, write, close all succeeded) and not yet removed.  -> entry or None"""
    jopen = jwrite = covered = False
    for entry in trace:
        kind, role, arg, out = entry[0], entry[1], entry[2], entry[3]
        if kind == 'mark':
            if role == 'write_record':
                jopen = jwrite = covered = False
            elif role == 'start':
                covered = None          # truncate_file of a non-appending start: no journal expected
            continue
        ok = out == 'ok'
        if role == 'j':
            if kind == 'open':
                jopen, jwrite, covered = ok, False, False
            elif kind == 'write':
                jwrite = jopen and ok
            elif kind == 'close':
                covered = bool(jopen and jwrite and ok)
            elif kind == 'unlink' and ok:
                covered = False
        elif role == 'a' and covered is False and ok:
            if (kind == 'open' and arg in ('a', 'w', 'r+', 'w+', 'a+')) or kind in ('write', 'truncate'):
                return entry
    return None


def phases(trace):
    """phase label per trace entry: 'r' for primitives of the roll-back (second open of the archive onwards)."""
    out, opens, ph = [], 0, ''
    for kind, role, arg, o in trace:
        if kind == 'open' and role == 'a':
            opens += 1
            if opens >= 2:
                ph = 'r'
        if kind == 'unlink':
            ph = 'u'
        out.append(ph)
    return out


# ------------------------------------------------------------------ one batch: real runs, model, compare
def case_key(case):
    return (case['stream'], bool(case.get('link')), case.get('logging', 'warning'), case.get('kill_mode', 'fork'), case['compress'], case.get('bufsize'), case.get('prior'), case['body_len'],
            case.get('body_seed', 0), tuple(sorted(sched_of(case).items())), case.get('src_fail'), case.get('src_cls'))


def run_cases(ctx, cases):
    """Execute the cases on the real code, ask the model, compare, evaluate oracles.
    Returns the list of observed results (for schedule extension)."""
    results, lines = [], []
    for case in cases:
        r = run_real(case)
        s, text = analyse(r['trace'])
        r['text'] = text
        lines.append(model_line(r['before'], None, s, case.get('src_fail') is not None,
                                first_error_class(case, r['trace'])))
        results.append(r)
    replies = ctx.model.ask(lines)
    for case, r, rep in zip(cases, results, replies):
        real = '%s %s %s %s' % (r['status'], r['text'], enc_optb(r['archive']), enc_optb(r['journal']))
        sch = sched_of(case)
        nfault = len(sch) + (1 if case.get('src_fail') is not None else 0)
        tags = ['%s:%s' % (case['stream'], r['status']), 'faults=%d' % nfault,
                'archive-name=%s' % (('dangling-symlink' if case.get('prior') is None else 'symlink') if case.get('link') else 'regular'), 'logging=%s' % case.get('logging', 'warning'),
                'gzip' if case['compress'] else 'plain', 'prior=%s' % case.get('prior')]
        for mark, tag in (('junlink:', 'path:journal-creation-failed'), (':enoent', 'path:rollback-on-absent-archive'),
                          ('rtrunc=', 'path:rollback'), ('jwrite=', None)):
            if tag and mark in r['text']:
                tags.append(tag)
        if r['text'].count('jwrite=') == 2:
            tags.append('path:journal-write-retried')
        if case.get('kill_mode') == 'sim' and case['stream'] == 'kill':
            tags.append('kill:simulated')
        for a in sch.values():
            if a[0] == 'fail':
                tags.append('errclass=%s' % act_class(a, 'default'))
        if case.get('src_cls'):
            tags.append('errclass=%s' % case['src_cls'])
        ctx.case(case_key(case), nontrivial=nfault > 0, tags=tags)
        if real != rep:
            ctx.disagree(case['stream'], public_case(case), rep[:600], real[:600])
        check_oracles(ctx, case, r)
    return results


# ------------------------------------------------------------------ schedules
def classes_for(entry):
    # PEP 475: CPython's BufferedWriter itself re-issues a raw write that raised InterruptedError (EINTR never
    # reaches wpull from a write); everywhere else (open, truncate, close, unlink, stat, record source) it does.
    return [c for c in ERR_CLASSES + NON_OS_CLASSES if not (entry[0] == 'write' and c == 'eintr')]


def variants(entry, kinds=('fail', 'die'), rich=True, rot=0, all_classes=False):
    """All actions to try at one logged primitive.  The class of the OSError rotates with `rot` (primitive
    index) and the variant number, so a sweep meets every class at every kind of primitive within the same
    budget; `all_classes`: additionally every class at this primitive."""
    kind, role, arg, out = entry
    if kind == 'write':
        n = len(arg)
        ks = sorted({0, 1, n // 2, max(n - 1, 0), n} if rich else {0, n // 2})
        ks = [k for k in ks if k <= n]
    else:
        ks = [0]
    cl = classes_for(entry)
    out_, j = [], 0
    for a in kinds:
        for k in ks:
            if a == 'fail':
                out_.append((a, k, cl[(rot + j) % len(cl)]))
                j += 1
            else:
                out_.append((a, k))
    if all_classes and 'fail' in kinds:
        k = ks[len(ks) // 2]
        have = {v for v in out_ if v[0] == 'fail' and v[1] == k}
        for c in cl:
            if ('fail', k, c) not in have:
                out_.append(('fail', k, c))
    return out_


def base_case(stream, compress, bufsize, prior, body_len, body_seed=0, schedule=None, src_fail=None, kill_mode='fork',
              logging='warning', src_cls=None, link=False):
    return {'link': link, 'src_cls': src_cls, 'logging': logging, 'kill_mode': kill_mode, 'stream': stream, 'compress': compress, 'bufsize': bufsize, 'prior': prior, 'body_len': body_len,
            'body_seed': body_seed, 'schedule': {str(k): list(v) for k, v in (schedule or {}).items()},
            'src_fail': src_fail}


def stream_of(schedule):
    return 'kill' if any(a[0] == 'die' for a in schedule.values()) else 'append'


def sweep(ctx, compress, bufsize, prior, body_len, body_seed, doubles, rng, multi_kill='fork', all_classes=False,
          link=False):
    """Fault-free run, then a fault / kill at EVERY primitive, then second faults after every single fault.
    Single kills are always real (forked child, os._exit); `multi_kill='sim'` runs the kills of the
    multi-fault schedules in-process (Die + every later primitive suppressed) -- the quick tier."""
    multi_log = rng.choice(['debug', 'warning'])

    rot0 = rng.randrange(len(ERR_CLASSES))

    def mk(sch, src=None, logging=None, src_cls=None):
        km = 'fork' if len(sch) <= 1 else multi_kill
        return base_case(stream_of(sch), compress, bufsize, prior, body_len, body_seed, sch, src, km,
                         logging or multi_log, src_cls, link)
    base = run_cases(ctx, [mk({})])[0]
    n = len(base['trace'])
    singles = []
    for i, entry in enumerate(base['trace']):
        for act in variants(entry, rot=rot0 + 3 * i, all_classes=all_classes):
            singles.append(mk({i: act}))
    npieces = 5 + (body_len + 4095) // 4096
    for q, p in enumerate(sorted({0, 2, npieces - 1, 10 ** 6})):
        for c in (ERR_CLASSES if all_classes else [ERR_CLASSES[(rot0 + q) % len(ERR_CLASSES)]]):
            singles.append(mk({}, p, src_cls=c))
    # every single fault under the OTHER logging configuration as well (OSErrors: all; kills: prefix 0 / all)
    other = 'warning' if multi_log == 'debug' else 'debug'
    extra = [dict(c, logging=other) for c in singles
             if c['stream'] == 'append' or all(a[1] == 0 for a in sched_of(c).values())]
    run_cases(ctx, [dict(mk({}), logging=other)] + extra)
    res1 = run_cases(ctx, singles)
    if multi_kill == 'sim':
        # the in-process kill simulation must leave exactly what the real kill leaves
        sims = [dict(c, kill_mode='sim') for c in singles if c['stream'] == 'kill']
        reals = [r for c, r in zip(singles, res1) if c['stream'] == 'kill']
        for c, rs, rr in zip(sims, run_cases(ctx, sims), reals):
            # (record id and date differ between two runs: compare everything but the new bytes themselves)
            shape = lambda r: (r['status'], r['text'], r['journal'], None if r['archive'] is None else len(r['archive']),
                               (r['archive'] or b'')[:len(r['before'] or b'')])
            if shape(rs) != shape(rr):
                raise Infra('C06: simulated kill differs from the real kill for %r' % public_case(c))
    ctx.tag('sweep:configs')
    ctx.tag('sweep:primitives', n)
    if not doubles:
        return
    second = []
    for case, r in zip(singles, res1):
        if r['status'] == 'died':
            continue
        sch = sched_of(case)
        first = max(sch) if sch else -1
        for j in range(first + 1, len(r['trace'])):
            for act in variants(r['trace'][j], rich=False, rot=rot0 + j):
                sch2 = dict(sch)
                sch2[j] = act
                second.append(mk(sch2, case.get('src_fail'), src_cls=case.get('src_cls')))
    if doubles != 'all' and len(second) > doubles:
        second = rng.sample(second, doubles)
    res2 = run_cases(ctx, second)
    # third level (a fault in the append, one in the roll-back, then one more): sampled
    third = []
    for case, r in zip(second, res2):
        if r['status'] == 'died':
            continue
        sch = sched_of(case)
        first = max(sch)
        for j in range(first + 1, len(r['trace'])):
            for act in variants(r['trace'][j], rich=False, rot=rot0 + j + 1):
                sch3 = dict(sch)
                sch3[j] = act
                third.append(mk(sch3, case.get('src_fail'), src_cls=case.get('src_cls')))
    k = min(len(third), (doubles if doubles != 'all' else 400) // 4)
    if k:
        run_cases(ctx, rng.sample(third, k))


# ------------------------------------------------------------------ lives: constructor .. close() over a directory
LIFE_PREFIX = 'crawl'


def life_prefix(case):
    return case.get('prefix') or LIFE_PREFIX
_LEFT = {}


def ext_of(compress):
    return '.warc.gz' if compress else '.warc'


def leftover_bytes(compress, k):
    """A valid archive with k records, as an earlier run would have left it."""
    key = (bool(compress), k)
    if key not in _LEFT:
        WARCRecorder, WARCRecorderParams, _ = _mods()
        d = tempfile.mkdtemp(prefix='c06l-', dir=os.environ.get('TMPDIR'))
        try:
            rec = WARCRecorder(os.path.join(d, 'old'), params=WARCRecorderParams(compress=compress, log=False))
            for i in range(k - 1):
                rec.write_record(make_record(make_body(30 + 7 * i, i + 1), 'urn:x-c06:old%d' % i))
            with open(rec._warc_filename, 'rb') as f:
                _LEFT[key] = f.read()
        finally:
            shutil.rmtree(d, ignore_errors=True)
    return _LEFT[key]


def valid_sequence(data, compress):
    """Independent reader: `data` is a sequence of complete WARC records (gzip: of complete members)."""
    if data is None:
        return True
    if compress:
        import zlib
        out, rest = [], data
        while rest:
            dobj = zlib.decompressobj(16 + zlib.MAX_WBITS)
            try:
                out.append(dobj.decompress(rest))
            except zlib.error:
                return False
            if not dobj.eof:
                return False
            rest = dobj.unused_data
        data = b''.join(out)
    pos = 0
    while pos < len(data):
        if not data.startswith(b'WARC/1.0\r\n', pos):
            return False
        end = data.find(b'\r\n\r\n', pos)
        if end < 0:
            return False
        length = None
        for line in data[pos:end].split(b'\r\n'):
            if line.lower().startswith(b'content-length:'):
                try:
                    length = int(line.split(b':', 1)[1])
                except ValueError:
                    return False
        if length is None:
            return False
        block_end = end + 4 + length
        if data[block_end:block_end + 4] != b'\r\n\r\n':
            return False
        pos = block_end + 4
    return True


def dir_snapshot(d):
    out = {}
    for n in os.listdir(d):
        p = os.path.join(d, n)
        if n.startswith('child-') or not os.path.isfile(p):
            continue
        with builtins.open(p, 'rb') as f:
            out[n] = f.read()
    return out


def _life_body(d, tmp, case):
    WARCRecorder, WARCRecorderParams, _ = _mods()
    rec = WARCRecorder(os.path.join(d, life_prefix(case)), params=WARCRecorderParams(
        compress=case['compress'], log=case['log'], appending=case['appending'], max_size=case['max_size'],
        temp_dir=tmp))
    for i, n in enumerate(case['records']):
        rec.write_record(make_record(make_body(n, 2 * i), 'urn:x-c06:life%d' % i))
        rec.flush_session()
    rec.close()


def _life_run(d, tmp, case, die_hook=None):
    import logging
    inj = Injector(os.path.join(d, life_prefix(case)), sched_of(case), die_hook=die_hook)
    inj.dir = d
    inj.snapshot = lambda: dir_snapshot(d)
    root = logging.getLogger()
    handlers, level = list(root.handlers), root.level
    status = 'done'
    inj.exc = None
    inj.early = None
    try:
        with log_config(case.get('logging')), patched(inj):
            try:
                _life_body(d, tmp, case)
            except Die:
                raise
            except BaseException as e:
                status = 'raised'
                inj.exc = [exc_name(e), isinstance(e, OSError)]
                if die_hook is None:
                    inj.early = dir_snapshot(d)     # while the exception object is alive
            late_collect()      # exception dropped / life over: anything still held is finalised before the files are read
    except Die:
        status = 'died'
    finally:
        for h in list(root.handlers):
            if h not in handlers:
                root.removeHandler(h)
                try:
                    h.stream.close()
                except Exception:
                    pass
        root.setLevel(level)
    return inj, status


def _hexsnap(snap):
    return {k: v.hex() for k, v in snap.items()}


def _dump_life(path, status, inj):
    with builtins.open(path, 'w') as f:
        json.dump({'status': status, 'names': inj.names, 'exc': inj.exc,
                   'snaps': {k: _hexsnap(v) for k, v in inj.snaps.items()},
                   'trace': [[k, r, (a.hex() if isinstance(a, bytes) else a), isinstance(a, bytes), o]
                             for k, r, a, o in inj.trace]}, f)


def run_life_real(case):
    d = tempfile.mkdtemp(prefix='c06d-', dir=os.environ.get('TMPDIR'))
    tmp = tempfile.mkdtemp(prefix='c06t-', dir=os.environ.get('TMPDIR'))
    side_box = []
    try:
        ext = ext_of(case['compress'])
        for suffix, k, stale in case['leftovers']:
            name = life_prefix(case) + suffix + ext
            good = (leftover_bytes(case['compress'], k) if k else b'') if k is not None else None
            if k is not None:
                with builtins.open(os.path.join(d, name), 'wb') as f:
                    f.write(good)
                    if stale == 'torn':     # what a killed append leaves: complete records + a fragment, journal names the cut
                        f.write(leftover_bytes(case['compress'], 2)[:37])
            if stale:
                with builtins.open(os.path.join(d, name + '-wpullinc'), 'wb') as f:
                    f.write(b'wpull-journal-version:1\noffset:%d\n' % (len(good) if stale == 'torn' else 0))
        if case.get('link'):
            # every archive NAME of the directory is a symbolic link into another directory; names the run will
            # create are dangling links (the first open creates their target)
            side = tempfile.mkdtemp(prefix='c06k-', dir=os.environ.get('TMPDIR'))
            side_box.append(side)
            want = ([''] if case['max_size'] is None else ['-00000', '-00001', '-00002', '-meta'])
            names = {life_prefix(case) + sfx + ext for sfx in want} | {n for n in os.listdir(d) if not n.endswith('-wpullinc')}
            for i, n in enumerate(sorted(names)):
                tgt = os.path.join(side, 'real-%d' % i)
                if os.path.exists(os.path.join(d, n)):
                    shutil.move(os.path.join(d, n), tgt)
                os.symlink(tgt, os.path.join(d, n))
        init = dir_snapshot(d)
        schedule = sched_of(case)
        if any(a[0] == 'die' for a in schedule.values()) and case.get('kill_mode', 'fork') == 'fork':
            out = os.path.join(d, 'child-trace.json')
            pid = os.fork()
            if pid == 0:
                code = 3
                try:
                    inj, status = _life_run(d, tmp, case, die_hook=lambda i: _dump_life(out, 'died', i))
                    _dump_life(out, status, inj)
                    code = 0
                except BaseException:
                    import traceback
                    traceback.print_exc()
                finally:
                    os._exit(code)
            _, st = os.waitpid(pid, 0)
            rc = os.waitstatus_to_exitcode(st)
            if rc not in (0, 77) or not os.path.exists(out):
                raise Infra('C06 life child process failed (rc=%s)' % rc)
            with builtins.open(out) as f:
                dd = json.load(f)
            status, names, exc = dd['status'], dd['names'], dd.get('exc')
            early = None
            trace = [[k, r, (bytes.fromhex(a) if isb else a), o] for k, r, a, isb, o in dd['trace']]
            snaps = {k: {n: bytes.fromhex(v) for n, v in sn.items()} for k, sn in dd['snaps'].items()}
        else:
            inj, status = _life_run(d, tmp, case)
            trace, names, snaps, exc = inj.trace, inj.names, inj.snaps, inj.exc
            early = inj.early
        final = dir_snapshot(d)
        restart_refused, restart_changed = None, []
        if any(n.endswith('-wpullinc') for n in final):
            restart_refused, restart_changed = refused_restarts(d, os.path.join(d, life_prefix(case)), case['compress'],
                                                                case['max_size'])
        return {'restart_changed': restart_changed, 'status': status, 'trace': trace, 'names': names, 'snaps': snaps, 'init': init, 'final': final,
                'restart_refused': restart_refused, 'exc': exc, 'early': early}
    finally:
        shutil.rmtree(d, ignore_errors=True)
        shutil.rmtree(tmp, ignore_errors=True)
        if side_box:
            shutil.rmtree(side_box[0], ignore_errors=True)


def life_steps(r, appending):
    """Cut the logged life into steps (one per _start_new_warc_file / write_record call)."""
    steps, cur = [], None
    for idx, (entry, name) in enumerate(zip(r['trace'], r['names'])):
        if entry[0] == 'mark':
            if entry[1] == 'start':
                cur = {'kind': 'startKeep' if appending else 'startTrunc', 'target': None, 'pre': [], 'body': [],
                       'in_body': False}
                steps.append(cur)
            elif cur is not None and not cur['in_body']:
                cur['target'] = entry[2]
                cur['in_body'] = True
            else:
                cur = {'kind': 'append', 'target': entry[2], 'pre': [], 'body': [], 'in_body': True}
                steps.append(cur)
            continue
        if cur is None:
            cur = {'kind': 'append', 'target': name or '?', 'pre': [], 'body': [], 'in_body': True}
            steps.append(cur)
        (cur['body'] if cur['in_body'] else cur['pre']).append((entry, name))
        cur.setdefault('idx', []).append((idx, entry))
        if cur['in_body']:
            cur.setdefault('body_from', idx)
    for st in steps:
        if st['target'] is None:
            st['target'] = st['pre'][0][1] if st['pre'] else '?'
    return steps


def life_model_and_text(case, r):
    """-> (model request line, canonical text of the real run)"""
    steps = life_steps(r, case['appending'])
    toks, text = [], []
    for st in steps:
        topen = tclose = 'ok'
        seen = 0
        for (kind, role, arg, out), name in st['pre']:
            if kind == 'open' and role == 'a' and arg == 'w' and seen == 0:
                topen = enc_out(out)
                nm = 'topen'
            elif kind == 'close' and role == 'a' and seen == 1:
                tclose = enc_out(out)
                nm = 'tclose'
            else:
                nm = 'unexpected-%s-%s' % (kind, arg if not isinstance(arg, bytes) else len(arg))
            seen += 1
            text.append('%s|%s:%s' % (enc(name or '?'), nm, enc_tag(out)))
        sch, btext = analyse([e for e, _ in st['body']])
        if st['body']:
            for (e, name), t in zip(st['body'], btext.split(',')):
                text.append('%s|%s' % (enc(name or '?'), t))
        in_body = [(idx, e) for idx, e in st.get('idx', []) if (e, ) and idx >= st.get('body_from', 0)]
        cls = handler_class(sched_of(case), in_body)
        toks.append(' '.join([st['kind'], enc(st['target']), cls, topen, tclose, sch['getsize'], sch['jopen'], sch['jwrite'],
                              sch['jretry'], sch['jclose'], sch['junlink'], sch['aopen'],
                              '/'.join(enc(x) for x in sch['adata']) or '~', ','.join(sch['aouts']) or '~', 'F',
                              sch['aclose'], sch['ropen'], sch['rtrunc'], sch['rclose'], sch['unlink']]))
    universe = set(r['init']) | set(r['final'])
    for st in steps:
        universe |= {st['target'], st['target'] + '-wpullinc'}
    universe = sorted(universe)
    line = 'warcwrite life %s %d %s %d %s' % (
        enc(life_prefix(case)), len(universe), ' '.join('%s %s' % (enc(n), enc_optb(r['init'].get(n))) for n in universe),
        len(steps), ' '.join(toks))
    real = '%s %s %s' % (r['status'], ','.join(text) or '~',
                         ';'.join('%s=%s' % (enc(n), enc_optb(r['final'].get(n))) for n in universe))
    return line.strip(), real, steps


def check_life_oracles(ctx, case, r, steps):
    pc = dict(case)
    compress = case['compress']
    init, final, status = r['init'], r['final'], r['status']
    journals = [n for n in final if n.endswith('-wpullinc')]
    archives = [n for n in final if not n.endswith('-wpullinc')]

    def fail(kind, detail):
        ctx.fail(kind, 'life', pc, detail)

    bad = uncovered_archive_primitive(r['trace'])
    if bad is not None:
        fail('append-without-journal', 'an archive was touched (%s %s) while no completely written journal of that append '
             'existed' % (bad[0], bad[2] if not isinstance(bad[2], bytes) else '%d bytes' % len(bad[2])))
    non_os = [c for c in injected_classes(case) if not is_os_class(c)]
    if status == 'raised' and r.get('exc') and not r['exc'][1] and not non_os:
        fail('fault-changed-exception', 'the life ended with %s, which is not an OSError (injected faults are I/O errors; '
             'a refused start is an OSError)' % r['exc'][0])
    if journals and not r['restart_refused']:
        fail('startup-not-refused', 'a new WARCRecorder started although journal(s) %r exist' % journals)
    elif r.get('restart_changed'):
        mode, n, x, y = r['restart_changed'][0]
        ctx.fail('refused-start-changed-archive', 'restart', pc,
                 'the %s restart next to journal(s) %r was refused, but file %r went from %s to %s bytes'
                 % (mode, journals, n, None if x is None else len(x), None if y is None else len(y)))
    stale = [n for n in init if n.endswith('-wpullinc')]
    if stale:
        # the life itself is a start next to a crash journal: it must be refused and be the identity on the directory
        if status != 'raised':
            fail('startup-not-refused', 'the run started (status %s) although journal(s) %r were in the directory' % (status, stale))
        diff = [n for n in sorted(set(init) | set(final)) if init.get(n) != final.get(n)]
        if diff:
            n = diff[0]
            ctx.fail('refused-start-changed-archive', 'restart', pc,
                     'the start next to journal(s) %r was refused, but file %r went from %s to %s bytes'
                     % (stale, n, None if init.get(n) is None else len(init[n]), None if final.get(n) is None else len(final[n])))
        for j in stale:
            A = j[:-len('-wpullinc')]
            m0 = _JOURNAL_RE.fullmatch(init[j])
            expect = init[A][:int(m0.group(1))] if (m0 and init.get(A) is not None) else None
            ok = recipe_ok(final.get(A), final.get(j), compress, expect)
            if ok is False and A in init:
                ctx.fail('refused-start-changed-archive', 'restart', pc,
                         'after the refused start, cutting %r at the offset its journal names no longer gives the earlier '
                         'records (a valid record sequence)' % A)
        return
    if not steps:
        if final != init:
            fail('other-archive-touched', 'the run ended before any append but the directory changed')
        return
    last = steps[-1]
    T = last['target']
    B = r['snaps'].get('write_record' if last['in_body'] else 'start', init)
    for n in sorted(set(B) | set(final)):
        if n in (T, T + '-wpullinc'):
            continue
        if final.get(n) != B.get(n):
            kind = 'journal-misplaced' if n.endswith('-wpullinc') else 'other-archive-touched'
            fail(kind, 'file %r differs from what it was when the step aimed at %r began (%s -> %s bytes)'
                 % (n, T, None if B.get(n) is None else len(B[n]), None if final.get(n) is None else len(final[n])))
            return
    b0 = B.get(T) or b''
    a = final.get(T) or b''
    jr = final.get(T + '-wpullinc')
    if not last['in_body']:
        # inside truncate_file of a non-appending start: the old file or the empty file
        if a not in (b0, b''):
            fail('earlier-records-damaged', 'truncation step left %d bytes that are neither the old nor the empty file' % len(a))
        return
    if a[:len(b0)] != b0:
        fail('earlier-records-damaged', 'archive %r: its first %d bytes differ from what it held before this append '
             '(status %s)' % (T, len(b0), status))
        return
    if status == 'done':
        bad = [n for n in archives if not valid_sequence(final[n], compress)]
        if bad or journals:
            fail('append-incomplete', 'life completed but archives %r are not valid record sequences / journals %r remain'
                 % (bad, journals))
    elif status == 'raised':
        body = [e for e, _ in last['body']]
        if any(ph in ('r', 'u') and e[3].startswith('fail') for e, ph in zip(body, phases(body))):
            ctx.tag('excluded:fault-in-rollback-or-unlink')
            return
        early = r.get('early')
        if non_os:
            m = _JOURNAL_RE.fullmatch(jr or b'')
            if a != b0 and not (m and int(m.group(1)) == len(b0)):
                fail('interrupt-unrecoverable', '%s interrupted the append to %r: it holds %d bytes (%d before) and %s'
                     % ((r.get('exc') or ['an exception'])[0], T, len(a), len(b0),
                        'no journal remains' if jr is None else 'its journal does not name the old length'))
        elif a != b0 and early is not None and (early.get(T) or b'') == b0:
            fail('not-restored-after-exception-dropped', 'archive %r was restored (%d bytes) while the %s was alive, but once '
                 'the exception object had been dropped and the collector had run it holds %d bytes'
                 % (T, len(b0), (r.get('exc') or ['exception'])[0], len(a)))
        elif a != b0:
            fail('not-restored', '%s came out and archive %r (%d bytes) is not the %d bytes it held before this append'
                 % ((r.get('exc') or ['an exception'])[0], T, len(a), len(b0)))
        elif jr is not None:
            fail('journal-left', 'OSError came out, archive %r is unchanged, but its journal remains' % T)
    else:
        ok = valid_sequence(a, compress) and T in final or (T not in final and T not in B)
        if jr is not None:
            m = _JOURNAL_RE.fullmatch(jr)
            if m:
                n = int(m.group(1))
                if not (n == len(b0) and a[:n] == b0 and valid_sequence(a[:n], compress)):
                    fail('kill-unrecoverable', 'journal of %r names %d but the archive held %d bytes before this append '
                         '(now %d); cutting there does not restore it' % (T, n, len(b0), len(a)))
                    return
                ok = True
            elif a != b0:
                ok = False
        if not ok:
            fail('kill-unrecoverable', 'after the kill archive %r (%d bytes, %d before) is not a valid record sequence and '
                 'has no journal of its own naming the old length (journals present: %r)' % (T, len(a), len(b0), journals))


def life_key(case):
    return ('life', bool(case.get('link')), life_prefix(case), case.get('logging', 'warning'), case.get('kill_mode', 'fork'), case['compress'], case['appending'], case['max_size'], case['log'],
            tuple(tuple(x) for x in case['leftovers']), tuple(case['records']), tuple(sorted(sched_of(case).items())))


def run_lives(ctx, cases):
    results, lines, reals, stepss = [], [], [], []
    for case in cases:
        r = run_life_real(case)
        line, real, steps = life_model_and_text(case, r)
        results.append(r)
        lines.append(line)
        reals.append(real)
        stepss.append(steps)
    replies = ctx.model.ask(lines)
    for case, r, rep, real, steps in zip(cases, results, replies, reals, stepss):
        nfault = len(sched_of(case))
        tags = ['life:%s' % r['status'], 'life:steps=%d' % len(steps), 'life:faults=%d' % nfault,
                'life:prefix=%s' % life_prefix(case), 'life:archive-names=%s' % ('symlinks' if case.get('link') else 'regular'),
                'life:logging=%s' % ('debug(log=True)' if case['log'] else case.get('logging', 'warning'))]
        if steps:
            T = steps[-1]['target']
            P = life_prefix(case)
            kind = '-meta' if '-meta.' in T else ('numbered' if T[len(P):len(P) + 1] == '-' else 'plain')
            tags.append('life:in-flight=%s/%s' % (steps[-1]['kind'], kind))
            if nfault and steps[-1]['kind'] == 'startTrunc' and (r['init'].get(T)):
                tags.append('life:fault-in-first-append-over-leftover')
        ctx.case(life_key(case), nontrivial=nfault > 0, tags=tags)
        if real != rep:
            ctx.disagree('life', dict(case), rep[:700], real[:700])
        check_life_oracles(ctx, case, r, steps)
    return results


def life_case(compress, appending, max_size, log, leftovers, records, schedule=None, kill_mode='fork', logging='warning',
              prefix=None, link=False):
    return {'link': link, 'prefix': prefix or LIFE_PREFIX, 'stream': 'life', 'logging': logging, 'kill_mode': kill_mode, 'compress': compress, 'appending': appending, 'max_size': max_size,
            'log': log, 'leftovers': [list(x) for x in leftovers], 'records': list(records),
            'schedule': {str(k): list(v) for k, v in (schedule or {}).items()}}


def sweep_life(ctx, compress, appending, max_size, log, leftovers, records, rng, doubles=0, all_classes=False,
               prefix=None, link=False):
    """Fault-free life, then OSError and a real kill at EVERY primitive of it (constructor, roll-over, close())."""
    multi_log = rng.choice(['debug', 'warning'])
    rot0 = rng.randrange(len(ERR_CLASSES))
    mk = lambda sch: life_case(compress, appending, max_size, log, leftovers, records, sch, logging=multi_log,
                               prefix=prefix, link=link)
    base = run_lives(ctx, [mk({})])[0]
    singles = []
    for i, entry in enumerate(base['trace']):
        if entry[0] == 'mark':
            continue
        for act in variants(entry, rich=False, rot=rot0 + 2 * i, all_classes=all_classes):
            singles.append(mk({i: act}))
    other = 'warning' if multi_log == 'debug' else 'debug'
    run_lives(ctx, [dict(c, logging=other) for c in singles if any(a[0] == 'fail' for a in sched_of(c).values())])
    res = run_lives(ctx, singles)
    ctx.tag('life:configs')
    ctx.tag('life:primitives', len([e for e in base['trace'] if e[0] != 'mark']))
    if doubles:
        second = []
        for case, r in zip(singles, res):
            if r['status'] != 'raised':
                continue
            sch = sched_of(case)
            first = max(sch)
            for j in range(first + 1, len(r['trace'])):
                if r['trace'][j][0] == 'mark':
                    continue
                for act in variants(r['trace'][j], rich=False, rot=rot0 + j):
                    sch2 = dict(sch)
                    sch2[j] = act
                    second.append(mk(sch2))
        if len(second) > doubles:
            second = rng.sample(second, doubles)
        run_lives(ctx, second)


LEFTOVER_SETS = [
    [],
    [['', 2, False]],
    [['', 3, False], ['-00000', 2, False], ['-00001', 1, False], ['-meta', 2, False]],
    [['-00000', 2, False], ['-00001', 3, False], ['-00002', 1, False], ['-meta', 3, False]],
    [['', 0, False], ['-meta', 1, False]],
]
STALE_SETS = [
    [['', 3, 'torn']],
    [['', 1, 'torn']],
    [['', 0, 'torn']],
    [['-00000', 3, False], ['-00001', 2, 'torn'], ['-meta', 1, False]],
    [['-00000', 2, False], ['-meta', 2, 'torn']],
    [['', 2, True]],
    [['-00000', 2, False], ['-00001', 1, True]],
    [['-meta', 2, True]],
    [['-00000', None, True]],
]


def life_grid():
    out = []
    for compress in (False, True):
        for appending in (False, True):
            for max_size, log in ((None, False), (None, True), (900, True), (900, False)):
                for lo in LEFTOVER_SETS:
                    out.append((compress, appending, max_size, log, lo, [700, 50]))
    return out


def run_life_stream(ctx, rng, thorough):
    must = []
    for compress in (False, True):
        must.append((compress, False, None, False, LEFTOVER_SETS[1], [700, 50]))      # first append over a left-over file
        must.append((compress, False, 900, True, LEFTOVER_SETS[2], [700, 50]))        # roll-over + -meta over left-overs
        must.append((compress, True, 900, True, LEFTOVER_SETS[3], [700, 50]))         # appending: skips used numbers
    grid = [g for g in life_grid() if g not in must]
    extra = grid if thorough else rng.sample(grid, ctx.scale(4, 4))
    for idx, (compress, appending, max_size, log, lo, records) in enumerate(must + extra):
        sweep_life(ctx, compress, appending, max_size, log, lo, records, rng, doubles=ctx.scale(30, 60),
                   all_classes=thorough and idx < len(must))
    # the prefix is a dimension: plain stem; stems ending in letters of '.warcgz'; the extension already attached; dots
    pl = [('media.warc.gz', True, None, False), ('crawl.warc', False, 900, True), ('crawl.warc.gz', True, 900, False),
          ('arc', False, None, False), ('my.site.v2', True, 900, True), ('data.warc', True, None, False),
          ('w.a.r.c.gz', False, 900, False)]
    for idx, (prefix, compress, max_size, log) in enumerate(pl if thorough else pl[:3] + rng.sample(pl[3:], 1)):
        sweep_life(ctx, compress, bool(idx % 2), max_size, log, LEFTOVER_SETS[1 if max_size is None else 2], [700, 50], rng,
                   doubles=ctx.scale(10, 60), prefix=prefix)
    # names at the NAME_MAX edge of the real file system: archive name 246 / 247 / 250 / 255 bytes (with the journal
    # suffix: 255 fits, the others do not) -- either the run refuses, or every append is covered by a journal
    for compress in (False, True):
        for total in (246, 247, 250, 255):
            sweep_life(ctx, compress, False, None, False, [], [700, 50], rng, doubles=ctx.scale(10, 40),
                       prefix='n' * (total - len(ext_of(compress))))
    # the KIND of the archive name is a dimension: every archive name a symbolic link into another directory
    ll = [(False, True, None, False, LEFTOVER_SETS[1]), (True, True, 900, True, LEFTOVER_SETS[2]),
          (True, False, None, False, LEFTOVER_SETS[1]), (False, False, 900, False, LEFTOVER_SETS[3])]
    for (compress, appending, max_size, log, lo) in (ll if thorough else ll[:2]):
        sweep_life(ctx, compress, appending, max_size, log, lo, [700, 50], rng, doubles=ctx.scale(10, 60), link=True)
    # stale journals of every archive name: the run must refuse and leave everything alone
    stale = []
    for compress in (False, True):
        for appending in (False, True):
            for max_size in (None, 900):
                for lo in STALE_SETS:
                    stale.append(life_case(compress, appending, max_size, False, lo, [50],
                                           prefix=rng.choice([None, None, 'crawl.warc', 'media.warc.gz', 'arc'])))
    run_lives(ctx, stale)


# ------------------------------------------------------------------ start-up check
PREFIXES = ['w', 'site', 'site[1]', 'a*b', 'q?x', 'x-y', '', 'w.warc', '[', ']', 'a[!b]c', 'ü']
SEQS = ['', '-00000', '-00012', '-meta']


def real_startup(directory, name_prefix):
    WARCRecorder, _, _ = _mods()
    obj = WARCRecorder.__new__(WARCRecorder)
    obj._prefix_filename = os.path.join(directory, name_prefix)
    try:
        obj._check_journals_and_maybe_raise()
        return False
    except OSError:
        return True


def run_startup(ctx, cases):
    """case: {'stream': 'startup', 'prefix': str, 'files': [str]}"""
    lines, reals = [], []
    for case in cases:
        d = tempfile.mkdtemp(prefix='c06s-', dir=os.environ.get('TMPDIR'))
        try:
            for name in case['files']:
                with open(os.path.join(d, name), 'wb') as f:
                    f.write(b'wpull-journal-version:1\noffset:0\n')
            listing = sorted(os.listdir(d))
            reals.append(real_startup(d, case['prefix']))
        finally:
            shutil.rmtree(d, ignore_errors=True)
        lines.append('warcwrite startup %s %s' % (enc(case['prefix']), '/'.join(enc(n) for n in listing) or '~'))
    replies = ctx.model.ask(lines)
    for case, real, rep in zip(cases, reals, replies):
        own = [n for n in case['files'] for s in SEQS for e in ('.warc', '.warc.gz')
               if n == case['prefix'] + s + e + '-wpullinc']
        ctx.case(('startup', case['prefix'], tuple(case['files'])), nontrivial=bool(case['files']),
                 tags=['startup:%s' % ('refused' if real else 'started'), 'startup:own-journal=%d' % bool(own)])
        if ('T' if real else 'F') != rep:
            ctx.disagree('startup', case, rep, 'T' if real else 'F')
        if own and not real:
            ctx.fail('startup-not-refused', '_check_journals_and_maybe_raise', case,
                     'journal %r of prefix %r exists but the start-up check did not raise' % (own[0], case['prefix']))


def gen_startup(rng, n):
    cases = []
    for p in PREFIXES:
        for s in SEQS:
            for e in ('.warc', '.warc.gz'):
                cases.append({'stream': 'startup', 'prefix': p, 'files': [p + s + e + '-wpullinc']})
                cases.append({'stream': 'startup', 'prefix': p, 'files': [p + s + e]})
    for _ in range(n):
        p = rng.choice(PREFIXES)
        files = set()
        for _ in range(rng.randrange(0, 4)):
            q = rng.choice(PREFIXES + [p, p])
            name = q + rng.choice(SEQS) + rng.choice(['.warc', '.warc.gz', '.cdx', ''])
            name += rng.choice(['-wpullinc', '-wpullinc', '', '-wpullinc.bak', '-wpullin'])
            if name and '/' not in name:
                files.add(name)
        cases.append({'stream': 'startup', 'prefix': p, 'files': sorted(files)})
    return cases


# ------------------------------------------------------------------ entry points
def load_corpus(ctx):
    from runner import unjson
    out = []
    for p in sorted(_glob.glob(os.path.join(ctx.verif, 'harness', 'corpus', 'C06', '*.json'))):
        with open(p) as f:
            out.append(unjson(json.load(f)))
    return out


def replay(ctx, case, kind=None, where=None):
    try:
        if case.get('stream') == 'startup':
            run_startup(ctx, [case])
        elif case.get('stream') in ('append', 'kill'):
            run_cases(ctx, [case])
        elif case.get('stream') == 'life':
            run_lives(ctx, [case])
        else:
            raise Infra('unknown replay stream %r' % case.get('stream'))
    finally:
        close_envs()


def configs(thorough):
    out = []
    for compress in (False, True):
        for bufsize, bodies in ((64, [0, 200, 1500]), (None, [200, 9000] if not thorough else [0, 200, 9000, 20000])):
            for prior in (None, 0, 1, 2, 3):
                for body_len in bodies:
                    out.append((compress, bufsize, prior, body_len))
    return out


def run(ctx):
    thorough = ctx.tier == 'thorough'
    import gc
    gc.collect()
    gc.freeze()         # everything imported so far is out of the collector's way: late_collect() stays cheap
    try:
        for item in load_corpus(ctx):
            case = item['case'] if 'case' in item else item
            if case.get('stream') == 'startup':
                run_startup(ctx, [case])
            elif case.get('stream') == 'life':
                run_lives(ctx, [case])
            else:
                run_cases(ctx, [case])
        rng = ctx.rng
        for (compress, bufsize, prior, body_len) in configs(thorough):
            small = body_len <= 1500
            if thorough:
                doubles = 'all' if (body_len == 0 and prior in (None, 2)) else (1200 if (body_len <= 200 and prior in (None, 2)) else 300)
            else:
                doubles = ctx.scale(100, 100) if small else 0
            sweep(ctx, compress, bufsize, prior, body_len, rng.randrange(1000), doubles, rng,
                  multi_kill='fork' if thorough else 'sim', all_classes=thorough)
        # the archive name is a symbolic link (to a file in another directory; dangling when the archive is absent)
        lk = [(False, None, 2, 200), (True, None, 3, 9000), (False, 64, None, 200), (True, 64, None, 0)]
        if thorough:
            lk += [(c, b, p, 200) for c in (False, True) for b in (None, 64) for p in (None, 1, 3)]
        for (compress, bufsize, prior, body_len) in lk:
            sweep(ctx, compress, bufsize, prior, body_len, rng.randrange(1000), ctx.scale(40, 100), rng,
                  multi_kill='fork' if thorough else 'sim', link=True)
        run_startup(ctx, gen_startup(rng, ctx.scale(150, 3000)))
        run_life_stream(ctx, ctx.subrng('life'), thorough)
        ctx.sample({'stream': 'append', 'example': base_case('append', True, 64, 2, 200, 1, {7: ('fail', 3)})})
        ctx.sample({'stream': 'kill', 'example': base_case('kill', False, None, 3, 9000, 0, {6: ('die', 100)})})
        ctx.note('fault_positions', 'every raw primitive of the fault-free run of every configuration gets OSError and a '
                 'kill (writes: 5 partial amounts); second faults at every later primitive: %s'
                 % ('exhaustive for empty bodies with no / 2 earlier records, 1200 sampled for 200-byte bodies there, 300 per other configuration; all kills real'
                    if thorough else 'sampled (100 per configuration), kills of multi-fault schedules simulated in-process'))
        ctx.exhaustive = False
    finally:
        close_envs()
        gc.unfreeze()


def search(ctx):
    """Correspondence or proof broke: all double faults on the small configurations."""
    rng = ctx.subrng('search')
    try:
        for compress in (False, True):
            for prior in (None, 0, 2):
                for body_len in (0, 200, 1500):
                    sweep(ctx, compress, 64, prior, body_len, rng.randrange(1000), 'all', rng)
    finally:
        close_envs()
