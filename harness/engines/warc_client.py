"""Oracle stream `client` of C05 / C07: the REAL wpull HTTP client (Client /
Session / Stream / Connection) with the REAL WARCRecorder listening, talking
to a scripted in-memory server (harness/fakenet.py).  This ties the recorder to
the event order and the bytes the real client produces: the server's wire
header block (any formatting the client accepts) and framing (Content-Length,
chunked with trailers, read-until-close) decide what the payload is.
Output files are judged by the same independent reader and oracles as the
`recorder` stream (warc_common.oracle_c05 / oracle_c07)."""
import asyncio
import io
import re
import os
import shutil
import tempfile
import uuid as uuid_mod
import hashlib

import compat  # noqa: F401
import fakenet
from runner import Infra
from engines import warc_common as wc


def gen_exchange(rng):
    r = wc.gen_response(rng, big=rng.random() < 0.2, exotic=False)
    header = r['header']
    # strip framing-relevant fields the generator may have produced, then add our own framing
    lines = wc.header_lines(header)
    keep = [lines[0]]
    skip = False
    for l in lines[1:-1]:
        if l[:1] in b' \t' and skip:
            continue
        low = l.lower()
        skip = low.startswith((b'content-length', b'transfer-encoding', b'content-encoding', b'connection'))
        if not skip:
            keep.append(l)
    eol = lines[-1]
    payload = bytes(rng.randrange(256) for _ in range(rng.choice([0, 1, 20, 300, 5000])))
    framing = rng.choice(['length', 'chunked', 'close'])
    status = r['status']
    if status in (304, 204) or 100 <= status < 200:
        framing = 'nobody'
    if framing == 'length':
        keep.append(b'Content-Length:%s%d' % (rng.choice([b' ', b'', b'  ']), len(payload)) + eol)
        body = payload
    elif framing == 'chunked':
        keep.append(rng.choice([b'Transfer-Encoding: chunked', b'transfer-encoding:chunked']) + eol)
        body = b''
        pos = 0
        while pos < len(payload):
            n = rng.choice([1, 7, 100, 4096])
            chunk = payload[pos:pos + n]
            pos += n
            body += b'%x%s\r\n' % (len(chunk), rng.choice([b'', b';ext=1'])) + chunk + b'\r\n'
        body += b'0\r\n' + rng.choice([b'', b'X-Trailer: 1\r\n', b'Content-Type: trailer/type\r\nX-T: a\r\n  folded\r\n']) + b'\r\n'
    elif framing == 'close':
        body = payload
    else:
        body = b''
    header = b''.join(keep) + eol
    host = rng.choice(['example.com', 'h.test'])
    path = rng.choice(['/', '/a/b?x=1', '/%7Eu'])
    if rng.random() < 0.1:
        path = wc.gen_long_path(rng)
    cut_header = None
    if rng.random() < 0.15 and not r['linesep']:
        # the server hangs up inside / right at the end of the header block: after the k-th line, or after the lone CR of
        # the final CRLF; nothing says how long the message is
        nl = len(wc.header_lines(header))
        cut_header = rng.choice([nl - 1, nl - 1, nl - 1, rng.randrange(1, nl), 'lone-cr', 'mid-line'])
        framing, body = 'close', b''
    return {'url': 'http://%s%s' % (host, path), 'header': header, 'body': body, 'framing': framing, 'cut_header': cut_header,
            'status': r['status'], 'mime': r['mime'], 'linesep': r['linesep'],
            'cuts': fakenet.random_cuts(rng, len(header) + len(body), rng.choice(['none', 'one', 'few', 'many'])),
            'compress': rng.random() < 0.5, 'digests': rng.random() < 0.85,
            'ignore_length': rng.random() < 0.3}


class Server:
    feeders = []

    def __init__(self, ex):
        self.ex = ex
        self.buf = b''
        self.done = False

    def on_write(self, conn, data):
        self.buf += data
        if not self.done and b'\r\n\r\n' in self.buf:
            self.done = True
            Server.feeders.append(asyncio.ensure_future(self.respond(conn)))

    async def respond(self, conn):
        data = self.ex['header'] + self.ex['body']
        cut = self.ex.get('cut_header')
        if cut is not None:
            lines = wc.header_lines(self.ex['header'])
            if cut == 'lone-cr':
                data = b''.join(lines[:-1]) + b'\r'
            elif cut == 'mid-line':
                data = b''.join(lines[:-1])[:-3]
            else:
                data = b''.join(lines[:cut])
            await conn.send_segments(fakenet.segment(data, [c for c in self.ex['cuts'] if c < len(data)]), eof=True)
            return
        await conn.send_segments(fakenet.segment(data, self.ex['cuts']),
                                 eof=(self.ex['framing'] == 'close' or bool(self.ex.get('ignore_length'))))


def run_exchange(ex, seed):
    """-> (obs, error str or None)"""
    from wpull.warc.recorder import WARCRecorder, WARCRecorderParams
    from wpull.protocol.http.client import Client
    from wpull.protocol.http.request import Request
    from wpull.network.pool import ConnectionPool
    base = os.environ.get('TMPDIR') or tempfile.gettempdir()
    directory = tempfile.mkdtemp(prefix='wpull-verif-warcc-', dir=base)
    created = []
    counter = [0]
    real_uuid4 = uuid_mod.uuid4

    def fake_uuid4():
        counter[0] += 1
        u = uuid_mod.UUID(int=(int(hashlib.sha1(('%s/%d' % (seed, counter[0])).encode()).hexdigest(), 16) >> 32), version=4)
        created.append(str(u))
        return u
    cfg = {'compress': ex['compress'], 'digests': ex['digests'], 'cdx': True, 'appending': False, 'max_size': None,
           'log': False, 'revisit': False, 'software': None, 'extra': []}
    state = {}

    class Feeders:
        """a live view: 'done' once the server has started and finished responding"""
        def done(self):
            return bool(Server.feeders) and all(f.done() for f in Server.feeders)

    async def go():
        Server.feeders = []
        net = fakenet.FakeNet()
        net.default = lambda: Server(ex)
        with net:
            pool = ConnectionPool(resolver=fakenet.FakeResolver())
            if ex.get('ignore_length'):
                # --ignore-length: Stream(ignore_length=True) adds `Connection: close` to the request it sends
                import functools
                from wpull.protocol.http.stream import Stream
                client = Client(connection_pool=pool, stream_factory=functools.partial(Stream, ignore_length=True))
            else:
                client = Client(connection_pool=pool)
            rec = WARCRecorder(os.path.join(directory, wc.PREFIX), params=WARCRecorderParams(
                compress=cfg['compress'], temp_dir=directory, log=False, digests=cfg['digests'], cdx=True))
            rec.listen_to_http_client(client)
            session = client.session()
            outcome = 'ok'
            try:
                with session:
                    request = Request(ex['url'])
                    t = asyncio.ensure_future(compat._ensure(session.start(request)))
                    if not await fakenet.settle(t, [Feeders()], extra=300):
                        t.cancel()
                        raise TimeoutError('start stalled')
                    t.result()
                    t = asyncio.ensure_future(compat._ensure(session.download(io.BytesIO())))
                    if not await fakenet.settle(t, [Feeders()], extra=300):
                        t.cancel()
                        raise TimeoutError('download stalled')
                    t.result()
            except Exception as e:
                outcome = 'exc %s: %s' % (type(e).__name__, e)
            rec.close()
            state['outcome'] = outcome
            state['conns'] = list(net.conns)
    uuid_mod.uuid4 = fake_uuid4
    try:
        compat.run(go())
        after = {}
        for n in sorted(os.listdir(directory)):
            with open(os.path.join(directory, n), 'rb') as f:
                after[n] = f.read()
    finally:
        uuid_mod.uuid4 = real_uuid4
        shutil.rmtree(directory, ignore_errors=True)
    obs = {'cfg': cfg, 'before': {}, 'after': after, 'created': created, 'meta': {}}
    return obs, state


TCHAR = b"!#$%&'*+-.^_`|~0123456789abcdefghijklmnopqrstuvwxyzABCDEFGHIJKLMNOPQRSTUVWXYZ"


def independent_status_mime(head):
    """Status and MIME type of a header block that may lack its final empty line (reference parse, no wpull code):
    lines end at LF; SP/HTAB-led lines continue the previous field; first Content-Type field; longest token/token prefix."""
    lines = head.split(b'\n')
    m = re.match(rb'HTTP/\d+\.\d+[ \t]+(\d{1,3})', lines[0])
    status = int(m.group(1)) if m else None
    fields = []
    for ln in lines[1:]:
        ln = ln.rstrip(b'\r')
        if ln[:1] in (b' ', b'\t') and fields:
            fields[-1] = fields[-1] + b' ' + ln.strip(b' \t')
        elif ln:
            fields.append(ln)
    mime = '-'
    for f in fields:
        name, sep, value = f.partition(b':')
        if sep and name.strip(b' \t').lower() == b'content-type':
            value = value.strip(b' \t')
            i = 0
            while i < len(value) and value[i] in TCHAR:
                i += 1
            j = i + 1
            while i and value[i:i + 1] == b'/' and j < len(value) and value[j] in TCHAR:
                j += 1
            if i and value[i:i + 1] == b'/' and j > i + 1:
                mime = value[:j].decode('latin-1')
            break
    return status, mime


def check_exchange(ctx, ex, pid):
    obs, state = run_exchange(ex, 'client/%s' % ex['url'])
    outcome = state.get('outcome', 'crash')
    by_file, problems = wc.parse_life(obs)
    recs = [r for (start, rs) in by_file.values() for r in rs]
    conn = state['conns'][0] if state.get('conns') else None
    ok = outcome == 'ok'
    if conn is not None:
        received = bytes(conn.received)
        hl = received.find(b'\r\n\r\n') + 4
        for r in recs:
            uid = (r.id or b'').decode('latin-1')[10:-1]
            if r.type == b'request':
                obs['meta'][uid] = {'kind': 'request', 'full': received, 'hdrlen': hl}
            elif r.type in (b'response', b'revisit') and ok and ex.get('cut_header') is not None:
                # the server hung up in the header block and the client took that for a response: whatever was
                # archived must be described by its index line (independent, tolerant parse of the bytes sent)
                sent = bytes(conn.sent)
                st, mime = independent_status_mime(sent)
                obs['meta'][uid] = {'kind': 'response', 'full': sent, 'hdrlen': len(sent), 'status': st, 'mime': mime,
                                    'revisit': None, 'linesep': False}
            elif r.type in (b'response', b'revisit') and ok:
                obs['meta'][uid] = {'kind': 'response', 'full': ex['header'] + ex['body'], 'hdrlen': len(ex['header']),
                                    'status': ex['status'], 'mime': ex['mime'], 'revisit': None,
                                    'linesep': ex.get('linesep', False)}
        if ok and len([r for r in recs if r.type == b'response']) != 1:
            problems.append(('record-missing', 'write_record', 'completed exchange, %d response records' % len([r for r in recs if r.type == b'response'])))
    tags = ['client:' + outcome.split(':')[0].replace(' ', '-'), 'client:' + ex['framing']]
    if ex.get('ignore_length'):
        tags.append('client:ignore-length')
    if ex.get('cut_header') is not None:
        tags.append('client:header-cut:%s:%s' % (ex['cut_header'] if isinstance(ex['cut_header'], str) else 'line',
                                                  'recorded' if any(r.type == b'response' for r in recs) else 'no-record'))
    for r in recs:
        if r.type == b'request' and conn is not None and r.block != bytes(conn.received):
            problems.append(('block-not-wire-bytes', 'request_data', 'request record block differs from the bytes the server received'))
    ctx.case(('client', repr(ex)), nontrivial=ok, tags=tags)
    if pid == 'C05':
        fails, _ = wc.oracle_c05(obs, by_file, problems, {})
    else:
        exp = {'<urn:uuid:%s>' % u: (m.get('status'), m.get('mime'), m.get('linesep', False))
               for u, m in obs['meta'].items() if m['kind'] == 'response'}
        fails = wc.oracle_c07(obs, by_file, obs['after'], exp)
    for kind, where, detail in fails:
        ctx.fail(kind, where, {'stream': 'client', 'exchange': ex}, detail + ' [real HTTP client, framing=%s]' % ex['framing'])


def stream_client(ctx, n, pid):
    rng = ctx.subrng('client')
    exs = [gen_exchange(rng) for _ in range(n)]
    for ex in exs:
        check_exchange(ctx, ex, pid)
    if exs:
        ctx.sample({'stream': 'client', 'url': exs[0]['url'], 'header': exs[0]['header'], 'framing': exs[0]['framing']})


# ======================================================================================================
# stream `mixed`: ONE recorder listening to the REAL FTP client and the REAL HTTP client; a sequence of
# fetches, some of which fail at a chosen stage (so that BaseSession.__exit__ runs abort() + recycle()).
# ======================================================================================================
FTP_STAGES = ['ok', 'ok', 'ok', 'welcome-421', 'login-530', 'retr-550', 'pasv-500', 'data-refused', 'closing-426',
              'closing-garbage', 'control-reset', 'hangup-before-welcome']
HTTP_STAGES = ['ok', 'ok', 'reset-in-header', 'reset-in-body', 'bad-status-line', 'refused']


def gen_mixed(rng):
    fetches = []
    for i in range(rng.choice([2, 3, 4, 6])):
        if rng.random() < 0.65:
            data = bytes(rng.randrange(256) for _ in range(rng.choice([0, 1, 40, 5000])))
            fetches.append({'kind': 'ftp', 'stage': rng.choice(FTP_STAGES), 'listing': rng.random() < 0.25, 'data': data,
                            'port': 2100 + i, 'dport': 20000 + i,
                            'cuts': fakenet.random_cuts(rng, len(data), rng.choice(['none', 'few']))})
        else:
            ex = gen_exchange(rng)
            ex['kind'] = 'http'
            ex['stage'] = rng.choice(HTTP_STAGES)
            ex['port'] = 8000 + i
            ex['url'] = 'http://h:%d/p%d' % (8000 + i, i)
            fetches.append(ex)
    if rng.random() < 0.4:
        # two (or three) fetches from ONE host:port over a kept-alive connection; the server may drop the idle connection only
        # after the next request has been written to it (EOF before any status line)
        port = 8500
        pos = rng.randrange(len(fetches) + 1)
        pair = []
        for j in range(rng.choice([2, 2, 3])):
            body = bytes(rng.randrange(256) for _ in range(rng.choice([0, 5, 300])))
            header = b'HTTP/1.1 200 OK\r\nContent-Type: text/html\r\nContent-Length: %d\r\n\r\n' % len(body)
            pair.append({'kind': 'http', 'keepalive': True, 'port': port, 'url': 'http://h:%d/k%d' % (port, j),
                         'stage': 'ok' if j == 0 else rng.choice(['stale-keepalive', 'stale-keepalive', 'ok']),
                         'header': header, 'body': body, 'framing': 'length', 'status': 200, 'mime': 'text/html', 'cuts': []})
        fetches[pos:pos] = pair
    return {'compress': rng.random() < 0.5, 'digests': rng.random() < 0.8, 'cdx': rng.random() < 0.7, 'fetches': fetches}


class KeepAliveHttp:
    """One connection to the keep-alive host: answers the first request it sees with Content-Length framing and stays open;
    a later request whose plan says 'stale-keepalive' gets no byte, only the close (the server had dropped the idle
    connection).  A request that arrives as the FIRST one of a connection is always answered."""

    def __init__(self, plans, feeders):
        self.plans = plans
        self.feeders = feeders
        self.buf = b''
        self.count = 0

    def on_write(self, conn, data):
        self.buf += data
        while b'\r\n\r\n' in self.buf:
            head, _, self.buf = self.buf.partition(b'\r\n\r\n')
            path = head.split(b' ')[1].decode('latin-1')
            plan = self.plans.get(path)
            self.count += 1
            if plan is None or (self.count > 1 and plan['stage'] == 'stale-keepalive'):
                conn.close()
                return
            conn.send(plan['header'] + plan['body'])


LISTING = b'-rw-r--r-- 1 u g 3 Jan 01 2020 a.txt\r\n'


class MixedFtp:
    """A scripted FTP server for one fetch; `stage` says where it goes wrong."""

    def __init__(self, f, feeders):
        self.f = f
        self.buf = b''
        self.feeders = feeders

    async def serve(self, conn):
        st = self.f['stage']
        if st == 'hangup-before-welcome':
            conn.close()
        elif st == 'welcome-421':
            conn.send(b'421 too many users\r\n')
            conn.close()
        else:
            conn.send(b'220-hello\r\n220 ready\r\n')

    def on_write(self, conn, data):
        self.buf += data
        while b'\n' in self.buf:
            line, _, self.buf = self.buf.partition(b'\n')
            self.handle(conn, line.rstrip(b'\r'))

    def handle(self, conn, line):
        st = self.f['stage']
        verb = line.split(b' ', 1)[0].upper()
        if verb == b'USER':
            conn.send(b'331 pw\r\n')
        elif verb == b'PASS':
            conn.send(b'530 no\r\n' if st == 'login-530' else b'230 ok\r\n')
        elif verb == b'TYPE':
            conn.send(b'200 ok\r\n')
        elif verb == b'SIZE':
            conn.send(b'213 %d\r\n' % len(self.f['data']))
        elif verb == b'PASV':
            if st == 'pasv-500':
                conn.send(b'500 no passive\r\n')
            else:
                p = self.f['dport']
                conn.send(b'227 Entering Passive Mode (10,0,0,1,%d,%d)\r\n' % (p // 256, p % 256))
        elif verb in (b'RETR', b'LIST', b'MLSD'):
            if verb == b'MLSD':
                conn.send(b'500 what\r\n')
                return
            if st == 'retr-550':
                conn.send(b'550 no such file\r\n')
                return
            conn.send(b'150 here it comes\r\n')
            if st == 'control-reset':
                conn.close()
            elif st == 'closing-426':
                conn.send(b'426 aborted\r\n')
            elif st == 'closing-garbage':
                conn.send(b'garbage without code\r\n')
                conn.close()
            else:
                conn.send(b'226 done\r\n')
        else:
            conn.send(b'500 unknown\r\n')


class MixedData:
    def __init__(self, f, feeders):
        self.f = f
        self.feeders = feeders

    async def serve(self, conn):
        body = LISTING if self.f['listing'] else self.f['data']
        fut = asyncio.ensure_future(conn.send_segments(fakenet.segment(body, self.f['cuts']), eof=True))
        self.feeders.append(fut)
        await fut


class MixedHttp(Server):
    def __init__(self, ex, feeders):
        Server.__init__(self, ex)
        self.feeders = feeders

    async def respond(self, conn):
        st = self.ex['stage']
        data = self.ex['header'] + self.ex['body']
        if st == 'reset-in-header':
            data = self.ex['header'][:max(1, len(self.ex['header']) // 2)]
            await conn.send_segments([data], eof=True)
        elif st == 'reset-in-body':
            hdr = self.ex['header']
            if self.ex['framing'] != 'length' or len(self.ex['body']) < 2:
                # make sure the body is really cut short: announce more than is sent
                lines = [l for l in wc.header_lines(hdr)[:-1] if not l.lower().startswith((b'content-length', b'transfer-encoding'))]
                hdr = b''.join(lines) + b'Content-Length: %d\r\n\r\n' % (len(self.ex['body']) + 10)
                await conn.send_segments([hdr + self.ex['body']], eof=True)
            else:
                await conn.send_segments([hdr + self.ex['body'][:len(self.ex['body']) // 2]], eof=True)
        elif st == 'bad-status-line':
            await conn.send_segments([b'ICY 200 OK\r\n\r\n'], eof=True)
        else:
            await conn.send_segments(fakenet.segment(data, self.ex['cuts']), eof=(self.ex['framing'] == 'close'))

    def on_write(self, conn, data):
        self.buf += data
        if not self.done and b'\r\n\r\n' in self.buf:
            self.done = True
            self.feeders.append(asyncio.ensure_future(self.respond(conn)))


def run_mixed(case, seed):
    from wpull.warc.recorder import WARCRecorder, WARCRecorderParams
    from wpull.protocol.http.client import Client as HClient
    from wpull.protocol.http.request import Request as HRequest
    from wpull.protocol.ftp.client import Client as FClient
    from wpull.protocol.ftp.request import Request as FRequest
    from wpull.network.pool import ConnectionPool
    base = os.environ.get('TMPDIR') or tempfile.gettempdir()
    directory = tempfile.mkdtemp(prefix='wpull-verif-warcm-', dir=base)
    counter = [0]
    real_uuid4 = uuid_mod.uuid4

    def fake_uuid4():
        counter[0] += 1
        return uuid_mod.UUID(int=(int(hashlib.sha1(('%s/%d' % (seed, counter[0])).encode()).hexdigest(), 16) >> 32), version=4)
    outcomes = []
    raised = []

    async def go():
        feeders = []

        class Live:
            def done(self):
                return all(f.done() for f in feeders)
        net = fakenet.FakeNet()
        for f in case['fetches']:
            if f['kind'] == 'ftp':
                if f['stage'] != 'refused':
                    net.listen('10.0.0.1', f['port'], (lambda f=f: MixedFtp(f, feeders)))
                if f['stage'] != 'data-refused':
                    net.listen('10.0.0.1', f['dport'], (lambda f=f: MixedData(f, feeders)))
            elif f.get('keepalive'):
                plans = {'/' + x['url'].rsplit('/', 1)[1]: x for x in case['fetches'] if x.get('keepalive')}
                net.listen('10.0.0.1', f['port'], (lambda plans=plans: KeepAliveHttp(plans, feeders)))
            elif f['stage'] != 'refused':
                net.listen('10.0.0.1', f['port'], (lambda f=f: MixedHttp(f, feeders)))
        with net:
            pool = ConnectionPool(resolver=fakenet.FakeResolver())
            hclient = HClient(connection_pool=pool)
            fclient = FClient(connection_pool=pool)
            rec = WARCRecorder(os.path.join(directory, wc.PREFIX), params=WARCRecorderParams(
                compress=case['compress'], temp_dir=directory, log=False, digests=case['digests'], cdx=case['cdx']))
            rec.listen_to_http_client(hclient)
            rec.listen_to_ftp_client(fclient)

            async def step(coro):
                t = asyncio.ensure_future(compat._ensure(coro))
                if not await fakenet.settle(t, [Live()], extra=300):
                    t.cancel()
                    try:
                        await t
                    except BaseException:
                        pass
                    raise TimeoutError('stalled')
                return t.result()
            for f in case['fetches']:
                outcome = 'ok'
                try:
                    if f['kind'] == 'ftp':
                        f['url'] = 'ftp://h:%d/dir/%s' % (f['port'], '' if f['listing'] else 'f%d.bin' % f['port'])
                        session = fclient.session()
                        with session:
                            if f['listing']:
                                await step(session.start_listing(FRequest(f['url'])))
                                await step(session.download_listing(io.BytesIO()))
                            else:
                                await step(session.start(FRequest(f['url'])))
                                await step(session.download(io.BytesIO()))
                    else:
                        session = hclient.session()
                        with session:
                            await step(session.start(HRequest(f['url'])))
                            await step(session.download(io.BytesIO()))
                except Exception as e:
                    outcome = 'exc ' + type(e).__name__
                    import traceback
                    tb = traceback.extract_tb(e.__traceback__)
                    if any('/wpull/warc/' in fr.filename for fr in tb):
                        raised.append((type(e).__name__, str(e)[:200], [fr.name for fr in tb if '/wpull/' in fr.filename][-1]))
                outcomes.append(outcome)
            rec.close()
    uuid_mod.uuid4 = fake_uuid4
    try:
        compat.run(go())
        after = {}
        for n in sorted(os.listdir(directory)):
            with open(os.path.join(directory, n), 'rb') as fh:
                after[n] = fh.read()
    finally:
        uuid_mod.uuid4 = real_uuid4
        shutil.rmtree(directory, ignore_errors=True)
    cfg = {'compress': case['compress'], 'digests': case['digests'], 'cdx': case['cdx'], 'appending': False, 'max_size': None,
           'log': False, 'revisit': False, 'software': None, 'extra': []}
    return {'cfg': cfg, 'before': {}, 'after': after, 'created': [], 'meta': {}}, outcomes, raised


def check_mixed(ctx, case, pid):
    obs, outcomes, raised = run_mixed(case, 'mixed/%r' % (case['fetches'][0].get('port'),))
    by_file, problems = wc.parse_life(obs)
    recs = [r for (start, rs) in by_file.values() for r in rs]
    fails = []
    for typ, text, where in raised:
        fails.append(('recorder-raised', where, '%s(%s) came out of the WARC recorder while it listened to the real clients' % (typ, text)))
    exp = {}
    for f, outcome in zip(case['fetches'], outcomes):
        url = f['url'].encode()
        mine = [r for r in recs if r.get(b'WARC-Target-URI') == url]
        ok = outcome == 'ok'
        if f['kind'] == 'ftp':
            ctrl = [r for r in mine if r.type == b'metadata']
            data = [r for r in mine if r.type == b'resource']
            if len(ctrl) > 1 or (ok and len(ctrl) != 1):
                fails.append(('record-missing' if not ctrl else 'record-written-twice', 'end_control',
                              'FTP fetch %s (%s, %s): %d control-conversation records' % (f['url'], f['stage'], outcome, len(ctrl))))
            want = LISTING if f['listing'] else f['data']
            if ok and (len(data) != 1 or data[0].block != want):
                fails.append(('record-missing', 'end_transfer', 'completed FTP fetch %s: %d resource records, block %s'
                              % (f['url'], len(data), 'differs' if data else 'absent')))
            if not ok and len(data) > 1:
                fails.append(('record-written-twice', 'end_transfer', 'failed FTP fetch %s (%s): %d resource records' % (f['url'], f['stage'], len(data))))
        else:
            reqs = [r for r in mine if r.type == b'request']
            resp = [r for r in mine if r.type == b'response']
            if len(reqs) > 1 or len(resp) > 1 or (ok and (len(reqs) != 1 or len(resp) != 1)):
                fails.append(('record-missing' if ok else 'record-written-twice', 'end_response',
                              'HTTP fetch %s (%s, %s): %d request and %d response records' % (f['url'], f['stage'], outcome, len(reqs), len(resp))))
            if ok and f['stage'] == 'ok':
                for r in resp:
                    uid = (r.id or b'').decode('latin-1')[10:-1]
                    obs['meta'][uid] = {'kind': 'response', 'full': f['header'] + f['body'], 'hdrlen': len(f['header']),
                                        'status': f['status'], 'mime': f['mime'], 'revisit': None, 'linesep': f.get('linesep', False)}
                    exp['<urn:uuid:%s>' % uid] = (f['status'], f['mime'], f.get('linesep', False))
    for r in recs:
        uid = (r.id or b'').decode('latin-1')[10:-1]
        if r.type in (b'request', b'response') and uid not in obs['meta']:
            # no independent copy of the wire bytes at hand (request / cut-short response): the header block ends at the
            # first empty line of the block itself
            m = re.search(rb'\n\r?\n', r.block)
            obs['meta'][uid] = {'kind': r.type.decode(), 'full': r.block, 'hdrlen': m.end() if m else len(r.block),
                                'status': None, 'mime': None, 'revisit': None}
    if pid == 'C05':
        more, _ = wc.oracle_c05(obs, by_file, problems, {})
        fails += more
    else:
        fails += wc.oracle_c07(obs, by_file, obs['after'], exp)
    tags = ['mixed:%s:%s:%s' % (f['kind'], f['stage'], o.split(' ')[-1]) for f, o in zip(case['fetches'], outcomes)]
    ctx.case(('mixed', repr(case)), nontrivial=any(o == 'ok' for o in outcomes), tags=sorted(set(tags)))
    for kind, where, detail in fails:
        ctx.fail(kind, where, {'stream': 'mixed', 'mixed': case}, detail + ' [real FTP/HTTP clients]')


def stream_mixed(ctx, n, pid):
    rng = ctx.subrng('mixed')
    cases = [gen_mixed(rng) for _ in range(n)]
    for c in cases:
        check_mixed(ctx, c, pid)
    if cases:
        ctx.sample({'stream': 'mixed', 'fetches': [(f['kind'], f['stage']) for f in cases[0]['fetches']]})
