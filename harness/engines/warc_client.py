"""Oracle stream `client` of C05 / C07: the REAL wpull HTTP client (Client /
Session / Stream / Connection) with the REAL WARCRecorder listening, talking
to a scripted in-memory server (harness/fakenet.py).  This ties the recorder to
the event order and the bytes the real client produces: the server's wire
header block (any formatting the client accepts) and framing (Content-Length,
chunked with trailers, read-until-close) decide what the payload is.
Output files are judged by the same independent reader and oracles as the
`recorder` stream (warc_common.oracle_c05 / oracle_c07)."""
import asyncio
import io
import os
import shutil
import tempfile
import uuid as uuid_mod
import hashlib

import compat  # noqa: F401
import fakenet
from runner import Infra
from engines import warc_common as wc


def gen_exchange(rng):
    r = wc.gen_response(rng, big=rng.random() < 0.2, exotic=False)
    header = r['header']
    # strip framing-relevant fields the generator may have produced, then add our own framing
    lines = wc.header_lines(header)
    keep = [lines[0]]
    skip = False
    for l in lines[1:-1]:
        if l[:1] in b' \t' and skip:
            continue
        low = l.lower()
        skip = low.startswith((b'content-length', b'transfer-encoding', b'content-encoding', b'connection'))
        if not skip:
            keep.append(l)
    eol = lines[-1]
    payload = bytes(rng.randrange(256) for _ in range(rng.choice([0, 1, 20, 300, 5000])))
    framing = rng.choice(['length', 'chunked', 'close'])
    status = r['status']
    if status in (304, 204) or 100 <= status < 200:
        framing = 'nobody'
    if framing == 'length':
        keep.append(b'Content-Length:%s%d' % (rng.choice([b' ', b'', b'  ']), len(payload)) + eol)
        body = payload
    elif framing == 'chunked':
        keep.append(rng.choice([b'Transfer-Encoding: chunked', b'transfer-encoding:chunked']) + eol)
        body = b''
        pos = 0
        while pos < len(payload):
            n = rng.choice([1, 7, 100, 4096])
            chunk = payload[pos:pos + n]
            pos += n
            body += b'%x%s\r\n' % (len(chunk), rng.choice([b'', b';ext=1'])) + chunk + b'\r\n'
        body += b'0\r\n' + rng.choice([b'', b'X-Trailer: 1\r\n', b'Content-Type: trailer/type\r\nX-T: a\r\n  folded\r\n']) + b'\r\n'
    elif framing == 'close':
        body = payload
    else:
        body = b''
    header = b''.join(keep) + eol
    host = rng.choice(['example.com', 'h.test'])
    path = rng.choice(['/', '/a/b?x=1', '/%7Eu'])
    if rng.random() < 0.1:
        path = wc.gen_long_path(rng)
    return {'url': 'http://%s%s' % (host, path), 'header': header, 'body': body, 'framing': framing,
            'status': r['status'], 'mime': r['mime'], 'linesep': r['linesep'],
            'cuts': fakenet.random_cuts(rng, len(header) + len(body), rng.choice(['none', 'one', 'few', 'many'])),
            'compress': rng.random() < 0.5, 'digests': rng.random() < 0.85}


class Server:
    feeders = []

    def __init__(self, ex):
        self.ex = ex
        self.buf = b''
        self.done = False

    def on_write(self, conn, data):
        self.buf += data
        if not self.done and b'\r\n\r\n' in self.buf:
            self.done = True
            Server.feeders.append(asyncio.ensure_future(self.respond(conn)))

    async def respond(self, conn):
        data = self.ex['header'] + self.ex['body']
        await conn.send_segments(fakenet.segment(data, self.ex['cuts']), eof=(self.ex['framing'] == 'close'))


def run_exchange(ex, seed):
    """-> (obs, error str or None)"""
    from wpull.warc.recorder import WARCRecorder, WARCRecorderParams
    from wpull.protocol.http.client import Client
    from wpull.protocol.http.request import Request
    from wpull.network.pool import ConnectionPool
    base = os.environ.get('TMPDIR') or tempfile.gettempdir()
    directory = tempfile.mkdtemp(prefix='wpull-verif-warcc-', dir=base)
    created = []
    counter = [0]
    real_uuid4 = uuid_mod.uuid4

    def fake_uuid4():
        counter[0] += 1
        u = uuid_mod.UUID(int=(int(hashlib.sha1(('%s/%d' % (seed, counter[0])).encode()).hexdigest(), 16) >> 32), version=4)
        created.append(str(u))
        return u
    cfg = {'compress': ex['compress'], 'digests': ex['digests'], 'cdx': True, 'appending': False, 'max_size': None,
           'log': False, 'revisit': False, 'software': None, 'extra': []}
    state = {}

    class Feeders:
        """a live view: 'done' once the server has started and finished responding"""
        def done(self):
            return bool(Server.feeders) and all(f.done() for f in Server.feeders)

    async def go():
        Server.feeders = []
        net = fakenet.FakeNet()
        net.default = lambda: Server(ex)
        with net:
            pool = ConnectionPool(resolver=fakenet.FakeResolver())
            client = Client(connection_pool=pool)
            rec = WARCRecorder(os.path.join(directory, wc.PREFIX), params=WARCRecorderParams(
                compress=cfg['compress'], temp_dir=directory, log=False, digests=cfg['digests'], cdx=True))
            rec.listen_to_http_client(client)
            session = client.session()
            outcome = 'ok'
            try:
                with session:
                    request = Request(ex['url'])
                    t = asyncio.ensure_future(compat._ensure(session.start(request)))
                    if not await fakenet.settle(t, [Feeders()], extra=300):
                        t.cancel()
                        raise TimeoutError('start stalled')
                    t.result()
                    t = asyncio.ensure_future(compat._ensure(session.download(io.BytesIO())))
                    if not await fakenet.settle(t, [Feeders()], extra=300):
                        t.cancel()
                        raise TimeoutError('download stalled')
                    t.result()
            except Exception as e:
                outcome = 'exc %s: %s' % (type(e).__name__, e)
            rec.close()
            state['outcome'] = outcome
            state['conns'] = list(net.conns)
    uuid_mod.uuid4 = fake_uuid4
    try:
        compat.run(go())
        after = {}
        for n in sorted(os.listdir(directory)):
            with open(os.path.join(directory, n), 'rb') as f:
                after[n] = f.read()
    finally:
        uuid_mod.uuid4 = real_uuid4
        shutil.rmtree(directory, ignore_errors=True)
    obs = {'cfg': cfg, 'before': {}, 'after': after, 'created': created, 'meta': {}}
    return obs, state


def check_exchange(ctx, ex, pid):
    obs, state = run_exchange(ex, 'client/%s' % ex['url'])
    outcome = state.get('outcome', 'crash')
    by_file, problems = wc.parse_life(obs)
    recs = [r for (start, rs) in by_file.values() for r in rs]
    conn = state['conns'][0] if state.get('conns') else None
    ok = outcome == 'ok'
    if conn is not None:
        received = bytes(conn.received)
        hl = received.find(b'\r\n\r\n') + 4
        for r in recs:
            uid = (r.id or b'').decode('latin-1')[10:-1]
            if r.type == b'request':
                obs['meta'][uid] = {'kind': 'request', 'full': received, 'hdrlen': hl}
            elif r.type in (b'response', b'revisit') and ok:
                obs['meta'][uid] = {'kind': 'response', 'full': ex['header'] + ex['body'], 'hdrlen': len(ex['header']),
                                    'status': ex['status'], 'mime': ex['mime'], 'revisit': None,
                                    'linesep': ex.get('linesep', False)}
        if ok and len([r for r in recs if r.type == b'response']) != 1:
            problems.append(('record-missing', 'write_record', 'completed exchange, %d response records' % len([r for r in recs if r.type == b'response'])))
    tags = ['client:' + outcome.split(':')[0].replace(' ', '-'), 'client:' + ex['framing']]
    ctx.case(('client', repr(ex)), nontrivial=ok, tags=tags)
    if pid == 'C05':
        fails, _ = wc.oracle_c05(obs, by_file, problems, {})
    else:
        exp = {'<urn:uuid:%s>' % u: (m.get('status'), m.get('mime'), m.get('linesep', False))
               for u, m in obs['meta'].items() if m['kind'] == 'response'}
        fails = wc.oracle_c07(obs, by_file, obs['after'], exp)
    for kind, where, detail in fails:
        ctx.fail(kind, where, {'stream': 'client', 'exchange': ex}, detail + ' [real HTTP client, framing=%s]' % ex['framing'])


def stream_client(ctx, n, pid):
    rng = ctx.subrng('client')
    exs = [gen_exchange(rng) for _ in range(n)]
    for ex in exs:
        check_exchange(ctx, ex, pid)
    if exs:
        ctx.sample({'stream': 'client', 'url': exs[0]['url'], 'header': exs[0]['header'], 'framing': exs[0]['framing']})
