"""C07 — Each CDX line addresses exactly the record it describes.

Streams (model `Wpull.Warc` vs the real code in ctx.repo):
  hdr       WARCRecord.get_http_header(block) -> status code, Content-Type value, parse_mimetype(...) or '-'
  mime      WARCRecorder.parse_mimetype(value)
  status    Response.parse_status_line(line)
  recorder  whole lives of the real WARCRecorder with cdx=True (warc_common.py): every
            CDX line's byte range is cut out of the named file and must be exactly
            one gzip member / one record whose fields equal the line; status and MIME
            must be those of the bytes the "server" sent
  move      oracle only: --warc-cdx + --warc-move, second run on the same prefix; lines resolved in the move directory
  client    oracle only: the real HTTP client + recorder over harness/fakenet.py
"""
import io
import os
import compat  # noqa: F401
from runner import enc, Infra
from engines import warc_common as wc
from engines import c05 as base

RULE = ('recorder: the C05 scenarios ({gz, plain} x {single file, max_size rollover incl. 0}) x 1-3 lives on the same prefix, a later '
        'life appending or starting over (appending=False on a used prefix with an existing PREFIX.cdx: ~1/3 of the scenarios), with '
        'cdx on in 85%; in half of the lives the archive / index names are symbolic links (plain or a chain of two) to files on another volume;  half of the lives are read from disk after every record-writing event while open, ~25% end abruptly '
        '(forked child os._exit()s after k events, no close()) and are judged / continued from what is on disk; header blocks of 0-40 lines, CRLF/LF/mixed, folded, around and beyond the 4096-byte mark (Content-Type '
        'before and after it), Content-Type absent / garbage / with parameters / +,. subtypes / duplicated / odd case; '
        'hdr: generated header blocks + byte-level mutations incl. str.splitlines separators; mime/status: grammar + noise. '
        'non-trivial = a response record was written / non-empty input; distinct by canonical input')
TRUSTED = ['the harness reader of gzip members and WARC records (warc_common.py) is the reference for "exactly one record"',
           'expected status / MIME come from the response generator (the values it formatted into the header)']
ASSUMPTIONS = ['MIME type of a response = the longest token "/" token prefix of its first Content-Type field (RFC 7230 tchar), '
               '"-" when there is none',
               'no expectation is set for header blocks containing the extra str.splitlines() separators '
               '(VT FF FS GS RS NEL) or US / NBSP: there only model = code is checked',
               'URL, record id, MIME type and file name contain no space (the CDX delimiter)']
UNPROVED = ['status_mime_full (Proofs/C07.lean): refuted on the region of the known finding cdx-mime-linesep; outside it the status/MIME parse is tied by the hdr stream and the oracle, not proved']

PID = 'C07'


def real_hdr(block):
    from wpull.warc.format import WARCRecord
    from wpull.warc.recorder import WARCRecorder
    rec = WARCRecord()
    rec.block_file = io.BytesIO(block)
    h = rec.get_http_header()
    if not h:
        return 'None'
    ct = h.fields.get('Content-Type', '')
    return '%d %s %s' % (h.status_code, enc(ct), enc(WARCRecorder.parse_mimetype(ct) or '-'))


def stream_hdr(ctx, n):
    rng = ctx.subrng('hdr')
    cases = [b'', b'HTTP/1.1 200 OK\r\n\r\n', b'HTTP/1.1 200 OK\n\n', b'\r\n\r\n', b'HTTP/1.1 200 OK\r\nContent-Type: a/b\r\n',
             b'HTTP/1.1 200 OK\r\nContent-Type: a/b+c.d;x\r\n\r\nbody']
    for i in range(n):
        r = wc.gen_response(rng, big=rng.random() < 0.1, exotic=rng.random() < 0.3)
        block = r['header'] + r['body'][:50]
        if rng.random() < 0.25:
            b = bytearray(block)
            for _ in range(rng.choice([1, 2, 4])):
                if b:
                    b[rng.randrange(min(len(b), 120))] = rng.choice(b'\r\n :\t/HTP1.09\x0b\x0c\x85\xa0;+')
            block = bytes(b)
        if rng.random() < 0.05:
            block = block[:rng.randrange(len(block) + 1)]
        cases.append(block)
    replies = ctx.model.ask(['warc hdr ' + enc(b) for b in cases])
    for b, rep in zip(cases, replies):
        real = real_hdr(b)
        ctx.case(('hdr', b), nontrivial=bool(b), tags=['hdr:' + ('none' if real == 'None' else 'some')])
        if real != rep:
            ctx.disagree('hdr', {'block': b}, rep, real)
    ctx.sample({'stream': 'hdr', 'block': cases[-1][:300]})


def stream_mime(ctx, n):
    from wpull.warc.recorder import WARCRecorder
    rng = ctx.subrng('mime')
    cases = wc.MIMES + wc.BAD_CT + ['a/b;c', 'a/b c', 'a//b', 'é/b', 'a/é', 'a/b\n', 'A1-/b_.+']
    tok = 'abXY019+.-_!#$%&\'*^`|~'
    noise = 'ab/+.-_;= ,"()09\t!#$%&\'*^`|~é\x85'
    for _ in range(n):
        r = rng.random()
        if r < 0.6:
            v = (''.join(rng.choice(tok) for _ in range(rng.choice([1, 2, 5]))) + rng.choice(['/', '/', '/', '', '//', ' /']) +
                 ''.join(rng.choice(tok) for _ in range(rng.choice([0, 1, 2, 6]))) +
                 rng.choice(['', '', ';x=1', ' ', ',', '(', 'é', '/z', '\n']))
        else:
            v = ''.join(rng.choice(noise) for _ in range(rng.choice([1, 2, 3, 5, 9])))
        cases.append(v)
    replies = ctx.model.ask(['warc mime ' + enc(v) for v in cases])
    for v, rep in zip(cases, replies):
        real = enc(WARCRecorder.parse_mimetype(v) or '-')
        ctx.case(('mime', v), nontrivial=bool(v), tags=['mime:' + ('none' if real == enc('-') else 'some')])
        if real != rep:
            ctx.disagree('mime', {'value': v}, rep, real)


def stream_status(ctx, n):
    from wpull.protocol.http.request import Response
    rng = ctx.subrng('status')
    cases = [b'', b'HTTP/1.1 200 OK', b'HTTP/1.1 200', b'HTTP/1.1  2000 OK', b'HTTP/1.1\t7', b'HTTP/1. 200', b'HTTP/.1 200',
             b'HTTP/1.1200 OK', b'http/1.1 200 OK', b'HTTP/1.1 OK', b'HTTP/12.34 099 x\r']
    for _ in range(n):
        r = rng.random()
        if r < 0.6:
            def pick(good, bad):
                return rng.choice(good) if rng.random() < 0.9 else rng.choice(bad)
            v = (pick([b'HTTP/'], [b'HTTP', b'http/', b' HTTP/']) + pick([b'1', b'0', b'11'], [b'', b'x']) +
                 pick([b'.'], [b'', b',']) + pick([b'1', b'0', b'99'], [b'', b'1x']) +
                 pick([b' ', b'  ', b'\t', b' \t'], [b'', b'\r']) +
                 pick([b'200', b'404', b'7', b'42', b'0200', b'99999', b'2x0'], [b'', b'x', b'-1']) +
                 rng.choice([b'', b' OK', b'OK', b' \t Not Found\r', b'\r\n', b' 5']))
        elif r < 0.8:
            v = bytes(rng.choice(b'HTP/1.019 \t\rOKx') for _ in range(rng.choice([3, 8, 12, 16])))
        else:
            v = (b'HTTP/' + bytes(rng.choice(b'019.x ') for _ in range(rng.choice([1, 3, 4]))) +
                 bytes(rng.choice(b' \t20x') for _ in range(rng.choice([0, 1, 2, 5]))) + rng.choice([b'', b' OK', b'OK']))
        cases.append(v)
    replies = ctx.model.ask(['warc status ' + enc(v) for v in cases])
    for v, rep in zip(cases, replies):
        try:
            real = str(Response.parse_status_line(v)[1])
        except ValueError:
            real = 'None'
        ctx.case(('status', v), nontrivial=bool(v), tags=['status:' + ('none' if real == 'None' else 'some')])
        if real != rep:
            ctx.disagree('status', {'line': v}, rep, real)


# ------------------------------------------------------------------ --warc-move
import re as _re
ARCHIVE_NAME = _re.compile(r'^out(-\d{5,}|-meta)?\.warc(\.gz)?(\.\d+)?$')
CDX_NAME = _re.compile(r'^out\.cdx(\.\d+)?$')


def gen_move(rng):
    cfg = wc.gen_cfg(rng)
    cfg.update(cdx=True, appending=False, revisit=False, move_to=True, max_size=rng.choice([None, 0, 300, 1500, 1500]))
    lives = []
    for li in range(rng.choice([1, 2, 2, 2])):
        c = dict(cfg, appending=(li > 0 and rng.random() < 0.5), log=rng.random() < 0.6)
        ops = [o for i in range(rng.choice([1, 2, 4])) for o in wc.gen_http_session(rng, 100 * li + i, c)]
        lives.append({'cfg': c, 'ops': ops, 'logs': ['moved life %d' % li] if c['log'] else [], 'snap': False,
                      'links': rng.choice([None, None, 'symlink', 'chain'])})
    return {'lives': lives, 'seed': rng.getrandbits(32), 'move_dir_is_link': rng.random() < 0.3}


def oracle_moved(tree):
    """Every CDX file of the working directory and of the move directory, as the files lie after all runs: each line's
    (file, offset, length) is resolved by NAME where the index lies (else in the other directory) and must be exactly
    the record the line describes; every response record of every archive file has exactly one line."""
    fails = []

    def split(key):
        d, _, b = key.rpartition('/')
        return d, b
    lines_for = {}
    for key, data in sorted(tree.items()):
        d, b = split(key)
        if not CDX_NAME.match(b):
            continue
        text = data.split(b'\n')
        if text[-1] != b'':
            fails.append(('cdx-format', '_write_cdx_field', '%s does not end with a newline' % key))
        text = [t for t in text[:-1]] if text[-1] == b'' else text
        if not text or text[0] != wc.CDX_HEADER.encode():
            fails.append(('cdx-format', '_write_cdx_header', '%s: first line %r' % (key, text[:1])))
        for ln in text[1:]:
            cols = ln.split(b' ')
            if len(cols) != 9:
                fails.append(('cdx-format', '_write_cdx_field', '%s: line %r' % (key, ln[:120])))
                continue
            a, b_, m, s, k, S, V, g, u = cols
            lines_for[u] = lines_for.get(u, 0) + 1
            name = g.decode('latin-1')
            cand = [x for x in ((d + '/' + name) if d else name, name if d else wc.MOVED + '/' + name) if x in tree]
            where = 'line of %s for %s' % (key, u.decode('latin-1'))
            if not cand:
                fails.append(('cdx-range', '_move_file_to_dest_dir', '%s: names %r, which is neither beside the index nor in the other directory (files: %s)'
                              % (where, name, sorted(tree))))
                continue
            data2 = tree[cand[0]]
            off, size = int(V), int(S)
            piece = data2[off:off + size]
            try:
                if len(piece) != size:
                    raise wc.Invalid('range %d+%d exceeds the %d-byte file' % (off, size, len(data2)))
                if name.endswith('.gz'):
                    end, payload = wc.read_gzip_member(piece, 0)
                    if end != len(piece):
                        raise wc.Invalid('more than one gzip member')
                else:
                    payload = piece
                end, fields, block = wc.read_warc_record(payload, 0)
                if end != len(payload):
                    raise wc.Invalid('more than one record')
                r = wc.Rec(name, off, size, payload, fields, block)
                if r.id != u or r.get(b'WARC-Target-URI') != a:
                    raise wc.Invalid('the record there is %r for %r, the line describes %r for %r'
                                     % (r.id, r.get(b'WARC-Target-URI'), u, a))
            except wc.Invalid as e:
                fails.append(('cdx-range', '_move_file_to_dest_dir',
                              '%s: bytes %d+%d of %s (the file of that name as it lies after all runs) are not the record the line describes: %s'
                              % (where, off, size, cand[0], e)))
    for key, data in sorted(tree.items()):
        d, b = split(key)
        if not ARCHIVE_NAME.match(b) or key.endswith('-wpullinc'):
            continue
        try:
            recs = wc.read_warc_file(key, data, '.warc.gz' in b)
        except wc.Invalid as e:
            fails.append(('invalid-record-sequence', 'write_record', '%s: %s' % (key, e)))
            continue
        for r in recs:
            n = lines_for.get(r.id, 0)
            if r.type == b'response' and n != 1:
                fails.append(('cdx-line-count', 'write_record', 'response record %r of %s has %d CDX lines' % (r.id, key, n)))
    return fails


def check_move(ctx, case):
    import shutil
    import tempfile
    basedir = os.environ.get('TMPDIR') or tempfile.gettempdir()
    directory = tempfile.mkdtemp(prefix='wpull-verif-warcv-', dir=basedir)
    fails = []
    tags = []
    try:
        if case.get('move_dir_is_link'):
            # the --warc-move directory itself is a symbolic link to a directory on another volume
            os.makedirs(os.path.join(directory, wc.VOLUME, 'moved-real'))
            os.symlink(os.path.join(directory, wc.VOLUME, 'moved-real'), os.path.join(directory, wc.MOVED))
            tags.append('move:dir-is-link')
        for li, run in enumerate(case['lives']):
            if run.get('links'):
                tags.append('move:names-are-%s' % run['links'])
            obs = wc.run_real_life(directory, run, 'move/%d/%d' % (case['seed'], li))
            r = obs['raised']
            if r:
                if r['type'] == 'Error' and 'already exists' in r['text']:
                    # the move directory already holds a file of that name: HEAD refuses to overwrite it
                    tags.append('move:collision-refused')
                else:
                    fails.append(('recorder-raised', r['where'], '%s(%s) at op %d (%s) of life %d' % (r['type'], r['text'], r['index'], r['op'], li)))
                break
            tags.append('move:life%d:%s' % (li, 'append' if run['cfg']['appending'] else 'startover'))
        tree = wc.read_dir(directory)
        fails += oracle_moved(tree)
        tags.append('move:moved-files=%s' % min(5, len([k for k in tree if k.startswith(wc.MOVED + '/')])))
    finally:
        shutil.rmtree(directory, ignore_errors=True)
    ctx.case(('move', repr(case)), tags=sorted(set(tags)))
    for kind, where, detail in fails:
        ctx.fail(kind, where, {'stream': 'move', 'move': case}, detail + ' [--warc-move]')


def stream_move(ctx, n):
    rng = ctx.subrng('move')
    cases = [gen_move(rng) for _ in range(n)]
    for c in cases:
        check_move(ctx, c)
    if cases:
        ctx.sample({'stream': 'move', 'lives': [(l['cfg']['appending'], l['cfg']['max_size']) for l in cases[0]['lives']]})


def replay(ctx, case, kind=None, where=None):
    if case.get('stream') == 'move':
        check_move(ctx, case['move'])
        return
    base.replay(ctx, case, kind, where)


def run(ctx):
    for case in wc.load_corpus(ctx, PID):
        replay(ctx, case['case'] if 'case' in case else case)
    stream_hdr(ctx, ctx.scale(4000, 40000))
    stream_mime(ctx, ctx.scale(2000, 40000))
    stream_status(ctx, ctx.scale(2000, 40000))
    rng = ctx.rng
    scns = []
    for _ in range(ctx.scale(400, 5000)):
        s = wc.gen_scenario(rng, big_p=0.25)
        seen_cdx = False
        for r in s['runs']:
            if rng.random() < 0.9 or (seen_cdx and not r['cfg']['appending']):
                r['cfg']['cdx'] = True
            seen_cdx = seen_cdx or r['cfg']['cdx']
        scns.append(s)
    base.stream_recorder(ctx, scns, pid=PID)
    from engines import warc_client
    warc_client.stream_client(ctx, ctx.scale(200, 3000), PID)
    warc_client.stream_mixed(ctx, ctx.scale(100, 1500), PID)
    stream_move(ctx, ctx.scale(120, 2000))


def search(ctx):
    rng = ctx.subrng('search')
    stream_hdr(ctx, ctx.scale(3000, 20000))
    base.stream_recorder(ctx, [wc.gen_scenario(rng, big_p=0.4) for _ in range(ctx.scale(40, 150))], pid=PID)
