"""Shared machinery of the C05 (WARC validity / digests) and C07 (CDX) engines.

* an INDEPENDENT strict reader of gzip members (RFC 1952 header parsed by hand,
  raw deflate through zlib, CRC32 + ISIZE verified) and of WARC/1.0 records;
* a scenario generator: recorder configurations x interleaved HTTP / FTP
  recorder sessions with generated header formattings and bodies;
* the adapter that drives the REAL `WARCRecorder` + `HTTPWARCRecorderSession` /
  `FTPWARCRecorderSession` from `ctx.repo` through their event methods;
* the model request (`warc run ...`, lean/Wpull/WarcDriver.lean) and the
  canonical comparison of both sides;
* the direct oracles for C05 and C07 on the real output files.

Request grammar of `warc run` (tokens separated by one space):
  compress digests cdx appending revisit   (T|F each)
  maxsize(None|n) prefix software wrap1 wrap2 wrap3
  nextra {name value wrapped}*  nexisting {main|meta|n<k> size}*  cdxExists
  uuids dates timestamps   (lists of strings, creation order)
  sizes                    (gzip member length per creation index)
  logblock(None|=bytes)  nops  {op}*
"""
import base64
import calendar
import hashlib
import json
import logging
import os
import re
import shutil
import tempfile
import textwrap
import time
import uuid as uuid_mod
import zlib

import compat  # noqa: F401
from runner import enc, dec, Infra, unjson, jsonable

CDX_HEADER = ' CDX a b m s k S V g u'


# =========================================================================
# independent strict readers
# =========================================================================
class Invalid(Exception):
    pass


def read_gzip_member(data, pos):
    """Parse ONE gzip member starting at data[pos]; return (end, payload)."""
    if len(data) - pos < 18:
        raise Invalid('gzip: truncated member header at %d' % pos)
    if data[pos:pos + 2] != b'\x1f\x8b':
        raise Invalid('gzip: bad magic at %d' % pos)
    if data[pos + 2] != 8:
        raise Invalid('gzip: unknown compression method')
    flg = data[pos + 3]
    if flg & 0xe0:
        raise Invalid('gzip: reserved flag bits set')
    p = pos + 10
    if flg & 4:
        if p + 2 > len(data):
            raise Invalid('gzip: truncated FEXTRA')
        xlen = data[p] | (data[p + 1] << 8)
        p += 2 + xlen
    for bit in (8, 16):
        if flg & bit:
            end = data.find(b'\x00', p)
            if end < 0:
                raise Invalid('gzip: unterminated name/comment')
            p = end + 1
    if flg & 2:
        p += 2
    if p > len(data):
        raise Invalid('gzip: truncated header')
    d = zlib.decompressobj(-15)
    try:
        payload = d.decompress(data[p:])
        payload += d.flush()
    except zlib.error as e:
        raise Invalid('gzip: deflate error %s' % e)
    if not d.eof:
        raise Invalid('gzip: deflate stream not terminated')
    rest = d.unused_data
    q = len(data) - len(rest)
    if len(rest) < 8:
        raise Invalid('gzip: truncated trailer')
    crc = int.from_bytes(rest[0:4], 'little')
    isize = int.from_bytes(rest[4:8], 'little')
    if crc != (zlib.crc32(payload) & 0xffffffff):
        raise Invalid('gzip: CRC mismatch')
    if isize != (len(payload) & 0xffffffff):
        raise Invalid('gzip: ISIZE mismatch')
    return q + 8, payload


def split_gzip_members(data, start=0):
    out = []
    pos = start
    while pos < len(data):
        end, payload = read_gzip_member(data, pos)
        out.append((pos, end - pos, payload))
        pos = end
    return out


FIELD_NAME = re.compile(rb'^[!#$%&\'*+\-.^_`|~0-9A-Za-z]+$')


def read_warc_record(data, pos):
    """Parse ONE strict WARC/1.0 record at data[pos]; return (end, fields, block).
    fields: list of (name, value) as bytes.  Strict: version line, one line per
    named field (no folding), CRLF line ends, Content-Length exactly once,
    block of that length, CRLF CRLF."""
    if not data.startswith(b'WARC/1.0\r\n', pos):
        raise Invalid('record at %d does not start with WARC/1.0 CRLF' % pos)
    p = pos + 10
    fields = []
    while True:
        e = data.find(b'\n', p)
        if e < 0:
            raise Invalid('unterminated header line at %d' % p)
        line = data[p:e + 1]
        if not line.endswith(b'\r\n'):
            raise Invalid('header line at %d ends in bare LF' % p)
        line = line[:-2]
        p = e + 1
        if line == b'':
            break
        if b'\r' in line:
            raise Invalid('bare CR inside header line %r' % line[:60])
        if line[:1] in (b' ', b'\t'):
            raise Invalid('folded header line %r: a named field must occupy one line' % line[:60])
        name, sep, value = line.partition(b':')
        if not sep or not FIELD_NAME.match(name):
            raise Invalid('malformed header line %r' % line[:60])
        if value.startswith(b' '):
            value = value[1:]
        fields.append((name, value))
    lens = [v for n, v in fields if n.lower() == b'content-length']
    if len(lens) != 1:
        raise Invalid('%d Content-Length fields' % len(lens))
    if not re.match(rb'^[0-9]+$', lens[0]):
        raise Invalid('Content-Length %r is not a number' % lens[0])
    n = int(lens[0])
    block = data[p:p + n]
    if len(block) != n:
        raise Invalid('block shorter than Content-Length %d' % n)
    p += n
    if data[p:p + 4] != b'\r\n\r\n':
        raise Invalid('record block (Content-Length %d) is not followed by CRLF CRLF' % n)
    return p + 4, fields, block


class Rec:
    def __init__(self, file, offset, size, raw, fields, block):
        self.file, self.offset, self.size, self.raw, self.fields, self.block = file, offset, size, raw, fields, block

    def get(self, name, default=None):
        vals = [v for n, v in self.fields if n == name]
        return vals[0] if vals else default

    def count(self, name):
        return len([1 for n, v in self.fields if n == name])

    @property
    def id(self):
        return self.get(b'WARC-Record-ID')

    @property
    def type(self):
        return self.get(b'WARC-Type')


def read_warc_file(name, data, compressed, start=0):
    """All records of a file from byte `start`; raises Invalid."""
    out = []
    if compressed:
        for off, size, payload in split_gzip_members(data, start):
            end, fields, block = read_warc_record(payload, 0)
            if end != len(payload):
                raise Invalid('gzip member at %d holds more than one record (%d extra bytes)' % (off, len(payload) - end))
            out.append(Rec(name, off, size, payload, fields, block))
    else:
        pos = start
        while pos < len(data):
            end, fields, block = read_warc_record(data, pos)
            out.append(Rec(name, pos, end - pos, data[pos:end], fields, block))
            pos = end
    return out


def b32sha1(b):
    return base64.b32encode(hashlib.sha1(b).digest())


# =========================================================================
# scenario generation
# =========================================================================
MIMES = ['text/html', 'application/xhtml+xml', 'image/svg+xml', 'application/vnd.ms-excel',
         'application/octet-stream', 'TEXT/HTML', 'text/x-c++', 'application/x.y-z+json',
         'a/b', 'application/atom+xml', 'x-world/x-3dmf', "weird!#$%&'*+.^_`|~/sub!#$%&'*+.^_`|~"]
BAD_CT = ['', 'garbage', '/html', 'text/', ';', ' ; charset=x', 'text html', '(x)/y', 'text/(y)', '"text/html"']
EXOTIC = [0x0b, 0x0c, 0x1c, 0x1d, 0x1e, 0x85, 0x1f, 0xa0]


def gen_value(rng, n=None, alphabet=None):
    n = rng.choice([0, 1, 3, 8, 20, 60]) if n is None else n
    alphabet = alphabet or b'abcXYZ012 ;=,/+.-_"()<>@\t:'
    return bytes(rng.choice(alphabet) for _ in range(n))


def gen_response(rng, big=False, exotic=False):
    """-> dict(header=wire header block incl. the blank line, body, status, mime)
    status / mime: what the oracle expects in the CDX line (None = no expectation)."""
    eol = rng.choice([b'\r\n', b'\r\n', b'\n', None])

    def nl():
        return eol if eol is not None else rng.choice([b'\r\n', b'\n'])
    status = rng.choice([200, 200, 200, 404, 301, 500, 206, 304, 100, 999, 7, 42])
    version = rng.choice([b'HTTP/1.1', b'HTTP/1.0', b'HTTP/2.0', b'HTTP/11.12'])
    sp1 = rng.choice([b' ', b' ', b'  ', b'\t', b' \t '])
    reason = rng.choice([b'OK', b'', b'Not Found', b'Moved  Permanently', b'\xe9t\xe9', b'200 OK', b'OK \t'])
    sp2 = rng.choice([b' ', b' ', b'  ', b'\t']) if reason else rng.choice([b'', b' '])
    code = b'%d' % status
    if status >= 100 or rng.random() < 0.5:
        pass
    if status < 100 and rng.random() < 0.5:
        code = code.rjust(3, b'0')
    if sp2 == b'' and reason[:1].isdigit():
        sp2 = b' '
    if reason[:1].isdigit() and len(code) < 3:
        code = code.rjust(3, b'0')
    lines = [version + sp1 + code + sp2 + reason]
    names = [b'Server', b'Date', b'X-Foo', b'Set-Cookie', b'Content-Length', b'Connection', b'Vary', b'x', b'ETag',
             b'Content-Typex', b'XContent-Type', b'Content_Type', b'Content-Encoding', b'Transfer-Encoding']
    nfields = rng.choice([0, 1, 2, 3, 5, 8, 15, 40])
    fields = []
    for _ in range(nfields):
        name = rng.choice(names)
        if rng.random() < 0.2:
            name = bytes(c ^ 0x20 if chr(c).isalpha() and rng.random() < 0.5 else c for c in name)
        val = gen_value(rng)
        r = rng.random()
        if r < 0.1:
            entry = name + b':' + val                       # no space
        elif r < 0.2:
            entry = name + b' :  ' + val + b'  '            # odd spacing
        elif r < 0.3:
            entry = name + b': ' + val + nl() + rng.choice([b' ', b'\t', b'   ']) + gen_value(rng)   # folded
        elif r < 0.35:
            entry = gen_value(rng, rng.choice([1, 5, 12]), b'abcxyz01 ')   # garbage line without colon
            if entry.strip(b' ') == b'' or entry[:1] == b' ':
                entry = b'junk' + entry
        else:
            entry = name + b': ' + val
        fields.append(entry)
    # Content-Type
    mime = None
    r = rng.random()
    if r < 0.12:
        expect_mime = '-'
        if rng.random() < 0.3:
            fields.insert(0, b'X-Decoy: a' + nl() + rng.choice([b' ', b'\t', b'\t']) + b'Content-Type: decoy/type')
    else:
        if r < 0.27:
            v = rng.choice(BAD_CT).encode()
            expect_mime = '-'
        else:
            mime = rng.choice(MIMES)
            expect_mime = mime
            v = mime.encode()
            pr = rng.random()
            if pr < 0.3:
                v += rng.choice([b'; charset=utf-8', b';charset=x', b' ;q=1', b'; a="b/c"', b' x', b',text/plain'])
            elif pr < 0.4:
                v += b';' + nl() + rng.choice([b' ', b'\t']) + b'charset=utf-8'
        ctname = rng.choice([b'Content-Type', b'Content-Type', b'content-type', b'CONTENT-TYPE', b'cOnTeNt-tYpE'])
        sep = rng.choice([b': ', b': ', b':', b':   ', b' : ', b':\t'])
        trail = rng.choice([b'', b'', b' ', b'\t '])
        fr = rng.random()
        if fr < 0.12:
            # the whole value on a continuation line (obs-fold with SP or HTAB): still this field's value
            sep = b':' + rng.choice([b'', b' ']) + nl() + rng.choice([b' ', b'\t', b'\t', b' \t', b'\t\t'])
        entry = ctname + sep + v + trail
        pos = rng.choice([0, len(fields), rng.randrange(len(fields) + 1)])
        # a folded line must stay attached to its field: insert between entries only
        fields.insert(pos, entry)
        if 0.12 <= fr < 0.24:
            # an EARLIER field whose SP/HTAB-folded continuation reads like a Content-Type field: it is part of
            # that field's value, the response's Content-Type is the real one
            fields.insert(0, b'X-Decoy: a' + nl() + rng.choice([b' ', b'\t', b'\t', b'\t ']) +
                          b'Content-Type: ' + rng.choice([b'text/plain', b'decoy/type']))
        if rng.random() < 0.15:
            # duplicate Content-Type later on: the first one counts
            fields.append(b'Content-Type: ' + rng.choice(MIMES + BAD_CT).encode())
    if big:
        # push the header over the 4 KiB mark: padding before and/or after Content-Type
        pad = [b'X-Pad-%d: ' % i + b'p' * rng.choice([50, 200, 900]) for i in range(rng.choice([5, 12, 30]))]
        total = sum(len(x) + 2 for x in pad)
        while total < rng.choice([4000, 4100, 6000, 12000, 30000]):
            pad.append(b'X-Pad: ' + b'q' * 500)
            total += 509
        # keep within the client's 32 KiB header limit
        while sum(len(x) + 2 for x in pad + fields) > 32000:
            pad.pop()
        k = rng.choice([0, len(fields)])
        fields[k:k] = pad
    expect_status = status
    linesep = False
    if rng.random() < 0.03 and not exotic:
        # a str.splitlines() separator inside an earlier field value, followed by text that looks like a
        # Content-Type field: on the wire (LF-delimited lines) this is ONE X-Note field  (known finding)
        sep = bytes([rng.choice([0x85, 0x0c, 0x0b, 0x1c, 0x1d, 0x1e])])
        fields.insert(0, b'X-Note: a' + sep + b'Content-Type: evil/x')
        linesep = True
    if exotic and fields:
        # str.splitlines() separators / str.strip() whitespace inside header lines: no expectation
        i = rng.randrange(len(fields))
        b = bytearray(fields[i])
        for _ in range(rng.choice([1, 2, 3])):
            b.insert(rng.randrange(len(b) + 1), rng.choice(EXOTIC))
        fields[i] = bytes(b)
        expect_mime = None
    header = b''.join(l + nl() for l in lines + fields) + nl()
    # body
    br = rng.random()
    if br < 0.15:
        body = b''
    elif br < 0.5:
        body = bytes(rng.randrange(256) for _ in range(rng.choice([1, 10, 100, 700])))
    elif br < 0.65:
        body = rng.choice([b'\r\n\r\n', b'\n\n', b'\r\n', b'\n']) * rng.choice([1, 2, 5]) + b'<html>\r\n\r\n</html>'
    elif br < 0.8:
        # chunked framing with a trailer (the recorder sees the raw bytes)
        body = b''
        for _ in range(rng.choice([1, 2, 4])):
            chunk = bytes(rng.randrange(256) for _ in range(rng.choice([1, 7, 300])))
            body += b'%x\r\n' % len(chunk) + chunk + b'\r\n'
        body += b'0\r\n' + rng.choice([b'', b'X-Trailer: 1\r\n', b'Content-Type: trailer/type\r\nX: y\r\n']) + b'\r\n'
    elif br < 0.9:
        body = bytes(rng.randrange(256) for _ in range(rng.choice([4095, 4096, 4097, 9000, 20000])))
    else:
        body = b'HTTP/1.1 200 OK\r\nContent-Type: inner/type\r\n\r\ninner'
    return {'header': header, 'body': body, 'status': expect_status, 'mime': expect_mime, 'linesep': linesep}


def gen_long_path(rng):
    """path + query of 1000-5000 characters (around and beyond 1024), with and without places to break at"""
    n = rng.choice([1000, 1015, 1023, 1024, 1025, 1100, 2050, 5000])
    seg = rng.choice(['x', 'ab-', 'seg/', 'a%20b/', 'w+'])
    p = '/long/' + (seg * (n // len(seg) + 1))[:n // 2]
    q = '?' + '&'.join('k%d=%s' % (i, 'v' * rng.choice([3, 40])) for i in range(200))
    return (p + q)[:n] if rng.random() < 0.7 else (p * 2)[:n]


def gen_http_session(rng, k, cfg, big=False, exotic=False):
    host = rng.choice(['example.com', 'a.example', 'h.test:8080', 'xn--bcher-kva.example'])
    path = rng.choice(['/', '/a', '/a/b.html?x=1&y=2', '/%7Euser/', '/p%20q', '/long/' + 'x' * rng.choice([10, 300])])
    if rng.random() < 0.12:
        path = gen_long_path(rng)
    url = 'http://' + host + path
    ip = rng.choice(['1.2.3.4', '10.0.0.1', '2001:db8::1', '::1'])
    method = rng.choice(['GET', 'GET', 'GET', 'POST', 'HEAD'])
    req_body = bytes(rng.randrange(256) for _ in range(rng.choice([1, 30, 5000]))) if method == 'POST' else b''
    req_fields = [[rng.choice(['User-Agent', 'Accept', 'X-a', 'Referer', 'cookie']),
                   gen_value(rng, alphabet=b'abc 012;=/.').decode()] for _ in range(rng.choice([0, 1, 3]))]
    resp = gen_response(rng, big=big, exotic=exotic)
    ops = [{'op': 'bq', 'k': k, 'url': url, 'ip': ip, 'port': 80, 'method': method, 'fields': req_fields,
            'body_len': len(req_body)}]
    shape = rng.random()
    ops.append({'op': 'eq', 'k': k, 'body': req_body, 'cuts': sorted(rng.sample(range(len(req_body) + 1), min(2, len(req_body) + 1)))})
    if shape < 0.08:
        ops.append({'op': 'cs', 'k': k})           # connection failed after the request
        return ops
    ops.append({'op': 'bp', 'k': k, 'header': resp['header']})
    if shape < 0.14:
        ops.append({'op': 'cs', 'k': k})           # body never completed
        return ops
    body = resp['body']
    ncuts = rng.choice([0, 1, 3, 10])
    cuts = sorted(rng.randrange(len(body) + 1) for _ in range(ncuts))
    revisit = None
    if cfg['revisit'] and rng.random() < 0.4:
        revisit = '<urn:uuid:%s>' % uuid_mod.UUID(int=rng.getrandbits(128))
    ops.append({'op': 'ep', 'k': k, 'body': body, 'cuts': cuts, 'revisit': revisit,
                'status': resp['status'], 'mime': resp['mime'], 'linesep': resp['linesep']})
    ops.append({'op': 'cs', 'k': k})
    return ops


def gen_ftp_session(rng, k, cfg):
    url = 'ftp://' + rng.choice(['ftp.example', 'u:p@ftp.example:2121']) + rng.choice(['/', '/pub/a.txt', '/d/'])
    ip = rng.choice(['1.2.3.4', '2001:db8::2'])
    ctrl = []
    for _ in range(rng.choice([1, 3, 6])):
        d = rng.choice([b'USER anonymous\r\n', b'220 hi\r\n', b'220-a\r\n220 b\r\n', b'PASV\r\n', b'partial', b'a\rb\n',
                        b'\xff\xfe\r\n', b'227 Entering (1,2,3,4,5,6)\r\n'])
        ctrl.append([rng.choice(['send', 'recv']), d])
    ops = [{'op': 'bc', 'k': k, 'url': url, 'ip': ip, 'port': 21, 'reused': rng.random() < 0.3, 'ctrl': ctrl[:len(ctrl) // 2]}]
    if rng.random() < 0.8:
        data = bytes(rng.randrange(256) for _ in range(rng.choice([0, 1, 50, 5000])))
        ops.append({'op': 'bt', 'k': k, 'data_address': ['1.2.3.4', 2020]})
        ops.append({'op': 'et', 'k': k, 'data': data, 'cuts': sorted(rng.randrange(len(data) + 1) for _ in range(rng.choice([0, 2])))})
    ops.append({'op': 'ec', 'k': k, 'ctrl': ctrl[len(ctrl) // 2:], 'closed': rng.random() < 0.5})
    ops.append({'op': 'cs', 'k': k})
    return ops


def interleave(rng, seqs, width):
    """merge op sequences keeping each one's order; at most `width` open at once"""
    out = []
    pending = [list(s) for s in seqs]
    active = []
    while pending or active:
        while pending and len(active) < width:
            active.append(pending.pop(0))
        s = rng.choice(active)
        out.append(s.pop(0))
        if not s:
            active.remove(s)
    return out


def gen_cfg(rng, appending=False):
    cfg = {
        'compress': rng.random() < 0.5,
        'digests': rng.random() < 0.75,
        'cdx': True if rng.random() < 0.85 else False,
        'appending': appending,
        'max_size': rng.choice([None, None, 0, 300, 1500, 6000, 40000]),
        'log': rng.random() < 0.6,
        'revisit': rng.random() < 0.35,
        'software': rng.choice([None, None, 'verif/1.0 test', 'Sé']),
        'extra': [],
    }
    for _ in range(rng.choice([0, 0, 1, 3])):
        name = rng.choice(['operator', 'Operator', 'description', 'robots', 'X-y', 'format', 'isPartOf'])
        vr = rng.random()
        if vr < 0.2:
            value = ''
        elif vr < 0.6:
            value = gen_value(rng, alphabet=b'abc XYZ,.;:-').decode()
        elif vr < 0.75:
            value = ' '.join('w%d' % i * rng.choice([1, 3]) for i in range(rng.choice([200, 400])))   # > 1024: wrapped
        elif vr < 0.78:
            value = 'line1\r\nline2\nWARC-Type: x\ttab'
        elif vr < 0.92:
            # SHORT values (far below wrap_width) with line breaks / tabs: textwrap must still turn them into spaces
            value = rng.choice(['Jane Doe\r\nArchive Team', 'first crawl\nWARC-Type: response', 'a\tb', 'x\ry', '\n',
                                'trailing\n', '\r\nleading', 'two\r\n\r\nblank', 'v\x0bt\x0cf'])
        else:
            value = 'café   日本'
        cfg['extra'].append([name, value])
    return cfg


def gen_run(rng, cfg, nsess=None, big_p=0.15, exotic_p=0.08, base_k=0):
    nsess = rng.choice([1, 2, 3, 5, 8]) if nsess is None else nsess
    seqs = []
    for i in range(nsess):
        if rng.random() < 0.2:
            seqs.append(gen_ftp_session(rng, base_k + i, cfg))
        else:
            seqs.append(gen_http_session(rng, base_k + i, cfg, big=rng.random() < big_p, exotic=rng.random() < exotic_p))
    ops = interleave(rng, seqs, rng.choice([1, 1, 2, 3]))
    logs = ['log message %d é' % i for i in range(rng.choice([0, 1, 3]))] if cfg['log'] else []
    # snap: judge the on-disk state after every record-writing event while the recorder is still open
    # links: the archive / index names are symbolic links to files on another volume (plain link or a chain of two)
    return {'cfg': cfg, 'ops': ops, 'logs': logs, 'snap': rng.random() < 0.5,
            'links': rng.choice([None, None, None, 'symlink', 'symlink', 'chain'])}


def make_fault(rng, run):
    """ONE injected OSError inside the append of a session record; the session is given up, the life goes on."""
    ats = [i for i, o in enumerate(run['ops']) if o['op'] in ('eq', 'ep', 'et', 'ec')]
    closes = [i for i, o in enumerate(run['ops']) if o['op'] == 'cs']
    if closes and run['cfg']['max_size'] is not None and rng.random() < 0.35:
        # the fault meets the warcinfo append of a size roll-over at session close: the OSError leaves session.close()
        # and that ends the life (HEAD's application treats it as fatal); what is on disk must be valid
        ats = closes
    if ats:
        run['fault'] = {'mode': 'fail', 'at': rng.choice(ats), 'nth': 0, 'rawwrite': rng.choice([1, 1, 1, 2, 3]),
                        'prefix': rng.choice(['half', 'half', 'half', 'zero', 'open'])}
    return run


def make_killed(rng, run):
    """The process dies INSIDE an append (forked child, os._exit from the raw write): mostly with size roll-over and
    the log record, so that the append is to a numbered or the -meta file."""
    cfg = run['cfg']
    if rng.random() < 0.8:
        cfg['max_size'] = rng.choice([0, 300, 1500])
    if rng.random() < 0.7:
        cfg['log'] = True
        run['logs'] = run.get('logs') or ['log message killed']
    ats = [i for i, o in enumerate(run['ops']) if o['op'] in ('eq', 'ep', 'et', 'ec', 'cs')]
    if cfg['log'] and rng.random() < 0.5:
        at, nth = 'close', rng.choice([0, 1]) if cfg['max_size'] is not None else 0
    elif ats:
        at, nth = rng.choice(ats), 0
    else:
        at, nth = 'close', 0
    run['kill'] = {'mode': 'die', 'at': at, 'nth': nth, 'rawwrite': rng.choice([1, 1, 2]), 'prefix': rng.choice(['half', 'half', 'zero'])}
    run.pop('die_after', None)
    return run


def make_abrupt(rng, run):
    """The life ends abruptly: the process dies (forked child, os._exit) after `die_after` events; close() never runs."""
    ends = [i + 1 for i, o in enumerate(run['ops']) if o['op'] in ('ep', 'et', 'cs')]
    run['die_after'] = rng.choice(ends) if ends and rng.random() < 0.7 else rng.randrange(0, len(run['ops']) + 1)
    return run


def gen_scenario(rng, **kw):
    """1-3 recorder lives in the same directory and on the same file prefix.  A later life either appends
    (appending=True) or starts over (appending=False: the archive files it reaches and PREFIX.cdx are
    truncated, files of the earlier life it does not reach stay behind untouched)."""
    r = rng.random()
    if r < 0.4:
        run = gen_run(rng, gen_cfg(rng, appending=rng.random() < 0.15), **kw)
        if rng.random() < 0.15:
            make_abrupt(rng, run)
        elif rng.random() < 0.25:
            make_fault(rng, run)
        return {'runs': [run]}
    nlives = 2 if r < 0.9 else 3
    c1 = gen_cfg(rng, appending=rng.random() < 0.1)
    runs = [gen_run(rng, c1, **kw)]
    prev = c1
    for li in range(1, nlives):
        abrupt_before = rng.random() < 0.3
        if abrupt_before:
            make_abrupt(rng, runs[-1])
            if rng.random() < 0.45:
                make_killed(rng, runs[-1])
        elif rng.random() < 0.25:
            make_fault(rng, runs[-1])
        # after a crash the usual thing is to go on appending
        killed_before = bool(runs[-1].get('kill'))
        c = gen_cfg(rng, appending=rng.random() < (0.5 if killed_before else 0.8 if abrupt_before else 0.5))
        if killed_before and rng.random() < 0.8:
            c['cdx'] = True
            runs[-1]['cfg']['cdx'] = True
        # mostly the same naming scheme, so that the later life meets the earlier one's files
        if rng.random() < 0.85:
            c['compress'] = prev['compress']
        if rng.random() < 0.8:
            c['max_size'] = prev['max_size'] if rng.random() < 0.7 else (None if prev['max_size'] is None else rng.choice([0, 300, 6000]))
        if not c['appending'] and rng.random() < 0.8:
            # starting over on a used prefix with an index: the stale-index situation
            c['cdx'] = True
            prev['cdx'] = True if rng.random() < 0.9 else prev['cdx']
        if not c['appending'] and any(r['cfg']['cdx'] for r in runs):
            # an index exists: a life that starts the archive over must manage it too (a life with cdx off would leave the
            # old index behind, which is outside what the recorder is asked to do)
            c['cdx'] = True
        runs.append(gen_run(rng, c, base_k=100 * li, **kw))
        prev = c
    if rng.random() < 0.1:
        make_abrupt(rng, runs[-1])
    elif rng.random() < 0.2:
        make_fault(rng, runs[-1])
    return {'runs': runs}


# =========================================================================
# driving the real recorder
# =========================================================================
class UrlTableStub:
    """what HTTPWARCRecorderSession needs of the URL table"""

    def __init__(self):
        self.answer = None
        self.calls = []

    def get_revisit_id(self, url, digest):
        self.calls.append((url, digest))
        return self.answer


def iso_ts(date):
    return str(int(calendar.timegm(time.strptime(date, '%Y-%m-%dT%H:%M:%SZ'))))


def chunks_of(data, cuts):
    out, prev = [], 0
    for c in list(cuts) + [len(data)]:
        if c > prev:
            out.append(data[prev:c])
            prev = c
    return out


def header_lines(header):
    out = header.split(b'\n')
    assert out[-1] == b''
    return [l + b'\n' for l in out[:-1]]


PREFIX = 'out'


def fname_token(name, compress):
    ext = '.warc.gz' if compress else '.warc'
    if not name.startswith(PREFIX) or not name.endswith(ext):
        return None
    mid = name[len(PREFIX):len(name) - len(ext)]
    if mid == '':
        return 'main'
    if mid == '-meta':
        return 'meta'
    m = re.match(r'^-(\d{5,})$', mid)
    if m and '%05d' % int(m.group(1)) == m.group(1):
        return 'n%d' % int(m.group(1))
    return None


class ArchiveFault:
    """ONE fault inside ONE append of a life (C05: 'every file stays a sequence of complete records' also when an append
    fails or the process dies in it).  While armed it counts the opens of an archive file for appending (= the
    write_record calls); the `nth` one gets a raw file (io.FileIO subclass under the REAL io.BufferedWriter /
    gzip.GzipFile, so a small record reaches the disk only at flush/close) whose `rawwrite`-th raw write
      mode 'fail': prefix 'open' -> the open itself raises; 'zero' -> raises ENOSPC; 'half' -> short write, then ENOSPC
      mode 'die' : writes the prefix ('half' / 'zero'), then calls die_hook (the forked child pickles its state, os._exit).
    Installed as `open` of wpull.warc.recorder's namespace and as gzip's view of builtins.open."""

    def __init__(self, directory, spec, die_hook=None):
        self.directory = directory
        self.spec = spec
        self.die_hook = die_hook
        self.armed = False
        self.opens = 0
        self.fired = False
        self.saved = None

    def is_archive(self, path):
        try:
            d, base = os.path.split(os.fspath(path))
        except TypeError:
            return False
        return d == self.directory and (base.endswith('.warc') or base.endswith('.warc.gz'))

    def open(self, file, mode='r', *args, **kw):
        import builtins
        import io
        if not (self.armed and not self.fired and mode == 'ab' and self.is_archive(file)):
            return builtins.open(file, mode, *args, **kw)
        if self.spec.get('at') == 'new-file':
            # only the first append to each FURTHER archive file counts (the warcinfo record of a roll-over)
            known = self.__dict__.setdefault('known_files', [])
            name = os.fspath(file)
            first_of_file = name not in known
            if first_of_file:
                known.append(name)
            if not first_of_file or len(known) == 1:
                return builtins.open(file, mode, *args, **kw)
        self.opens += 1
        if self.opens - 1 != self.spec.get('nth', 0):
            return builtins.open(file, mode, *args, **kw)
        if self.spec['prefix'] == 'open' and self.spec['mode'] == 'fail':
            self.fired = True
            raise OSError(28, 'injected: no space left on device (open)')
        fault = self

        class FaultyFileIO(io.FileIO):
            writes = 0
            full = False

            def write(self, b):
                if self.full:
                    raise OSError(28, 'injected: no space left on device')
                self.writes += 1
                if self.writes != fault.spec.get('rawwrite', 1):
                    return super().write(b)
                fault.fired = True
                b = bytes(b)
                if fault.spec['mode'] == 'die':
                    if fault.spec['prefix'] == 'half' and b:
                        super().write(b[:max(1, len(b) // 2)])
                    fault.die_hook()
                self.full = True
                if fault.spec['prefix'] == 'half' and len(b) > 1:
                    return super().write(b[:len(b) // 2])       # short write; the retry gets ENOSPC
                raise OSError(28, 'injected: no space left on device')
        return io.BufferedWriter(FaultyFileIO(file, 'ab'), io.DEFAULT_BUFFER_SIZE)

    def install(self):
        import builtins
        import gzip
        import wpull.warc.recorder as recmod
        fault = self

        class BuiltinsProxy:
            def __getattr__(self, name):
                return getattr(builtins, name)
            open = staticmethod(fault.open)
        self.saved = (recmod.__dict__.get('open'), gzip.builtins)
        recmod.open = self.open
        gzip.builtins = BuiltinsProxy()

    def uninstall(self):
        import gzip
        import wpull.warc.recorder as recmod
        if self.saved is None:
            return
        if self.saved[0] is None:
            recmod.__dict__.pop('open', None)
        else:
            recmod.open = self.saved[0]
        gzip.builtins = self.saved[1]
        self.saved = None


MOVED = 'moved'       # sub-directory used as --warc-move target


VOLUME = 'vol'        # sub-directory standing for another volume: the targets of symbolic links


def make_links(directory, compress, kind):
    """The archive and index NAMES of a life are symbolic links (absolute, dangling until first written) to regular files
    on another volume; kind 'chain': link -> link -> file.  Existing names are left alone."""
    vol = os.path.join(directory, VOLUME)
    os.makedirs(vol, exist_ok=True)
    ext = '.warc.gz' if compress else '.warc'
    names = [PREFIX + ext, PREFIX + '-meta' + ext, PREFIX + '.cdx'] + [PREFIX + '-%05d' % i + ext for i in range(24)]
    gen = len([x for x in os.listdir(vol) if x.startswith('gen-')])
    open(os.path.join(vol, 'gen-%d' % gen), 'w').close()      # every call links to fresh targets
    for n in names:
        path = os.path.join(directory, n)
        if os.path.lexists(path):
            continue
        target = os.path.join(vol, 'real%d-%s' % (gen, n))
        if kind == 'chain':
            hop = os.path.join(vol, 'hop%d-%s' % (gen, n))
            if not os.path.lexists(hop):
                os.symlink(target, hop)
            target = hop
        os.symlink(target, path)


def read_dir(directory):
    """{name: bytes} of the plain files of the working directory; files of the move directory as 'moved/<name>'."""
    out = {}
    for n in sorted(os.listdir(directory)):
        path = os.path.join(directory, n)
        if not os.path.exists(path):
            continue          # a symbolic link whose target has not been created yet
        if os.path.isdir(path):
            if n == MOVED:
                for m in sorted(os.listdir(path)):
                    if os.path.isfile(os.path.join(path, m)):
                        with open(os.path.join(path, m), 'rb') as f:
                            out[MOVED + '/' + m] = f.read()
            continue
        with open(path, 'rb') as f:
            out[n] = f.read()
    return out


_KEEPALIVE = []      # objects of an abandoned life: nothing may be finalised (flushed) before os._exit


def snapshot_check(directory, cfg, before):
    """The on-disk state while the recorder is still open (= what a kill -9 now would leave, = what a reader of the
    files sees mid-crawl): every archive file is a sequence of complete records, and every response record that is
    in an archive file has exactly one complete CDX line.  -> (c05 fails, c07 fails)"""
    after = read_dir(directory)
    pseudo = {'cfg': cfg, 'before': before, 'after': after}
    by_file, problems = parse_life(pseudo)
    c05 = [(k, w, d + ' [seen on disk while the recorder was open]') for k, w, d in problems]
    c07 = []
    if cfg['cdx']:
        c07 = cdx_behind_archive(cfg, before, after, by_file, 'while the recorder was open')
    return c05, c07


def cdx_behind_archive(cfg, before, after, by_file, when):
    fails = []
    cdx = after.get(PREFIX + '.cdx', b'')
    if cdx and not cdx.endswith(b'\n'):
        fails.append(('cdx-behind-archive', '_write_cdx_field', 'the index ends in a torn line %r (%s)' % (cdx[-80:], when)))
    count = {}
    for ln in cdx.split(b'\n'):
        cols = ln.split(b' ')
        if len(cols) == 9:
            count[cols[8]] = count.get(cols[8], 0) + 1
    for name, (start, recs) in sorted(by_file.items()):
        for r in recs:
            if r.type == b'response' and count.get(r.id, 0) != 1:
                fails.append(('cdx-behind-archive', '_write_cdx_field',
                              'response record %s is complete in %s on disk but the index on disk holds %d lines for it (%s)'
                              % ((r.id or b'?').decode('latin-1'), name, count.get(r.id, 0), when)))
    return fails


def run_real_life_forked(directory, run, seed):
    """A life that ends abruptly: run it in a forked child that os._exit()s after run['die_after'] events (no close(),
    no flushing of userspace buffers, no finalisers).  The parent reads what is on disk."""
    import pickle
    base = os.environ.get('TMPDIR') or tempfile.gettempdir()
    fd, side = tempfile.mkstemp(prefix='wpull-verif-warc-obs-', dir=base)
    os.close(fd)
    try:
        pid = os.fork()
        if pid == 0:
            code = 3
            try:
                obs = run_real_life(directory, run, seed, die=True, side=side)
                with open(side, 'wb') as f:
                    pickle.dump(obs, f)
                code = 0
            except BaseException:
                import traceback
                with open(side, 'wb') as f:
                    pickle.dump({'crash': traceback.format_exc()}, f)
            finally:
                os._exit(code)
        _, st = os.waitpid(pid, 0)
        with open(side, 'rb') as f:
            obs = pickle.load(f)
        if 'crash' in obs or os.waitstatus_to_exitcode(st) != 0:
            raise Infra('forked recorder life failed: %s' % obs.get('crash', st))
    finally:
        try:
            os.remove(side)
        except OSError:
            pass
    after = read_dir(directory)
    obs['after'] = after
    obs['abandoned'] = not obs.get('completed', False)
    # a kill inside an append leaves the journal of that append: offset = length of the complete part of the file
    obs['torn'] = {}
    for n, data in after.items():
        if n.endswith('-wpullinc'):
            m = re.search(rb'offset:(\d+)', data)
            if m:
                obs['torn'][n[:-len('-wpullinc')]] = int(m.group(1))
    return obs


def run_real_life(directory, run, seed, die=False, side=None):
    """One life of the real recorder in `directory`.  Returns the observation dict.
    die=True (only in a forked child): stop after run['die_after'] events without close()."""
    from wpull.warc.recorder import WARCRecorder, WARCRecorderParams
    from wpull.protocol.http.request import Request, Response
    from wpull.protocol.ftp.request import Request as FTPRequest, Response as FTPResponse
    cfg = run['cfg']
    if run.get('links'):
        make_links(directory, cfg['compress'], run['links'])
    before = read_dir(directory)
    created = []
    counter = [0]
    real_uuid4 = uuid_mod.uuid4

    def fake_uuid4():
        counter[0] += 1
        u = uuid_mod.UUID(int=(int(hashlib.sha1(('%s/%d' % (seed, counter[0])).encode()).hexdigest(), 16) >> 32), version=4)
        created.append(str(u))
        return u
    table = run.get('_url_table') or (UrlTableStub() if cfg['revisit'] else None)
    root = logging.getLogger()
    old_level = root.level
    old_handlers = list(root.handlers)
    meta = {}         # record id -> info of the op that made it
    slots = {}
    model_ops = []
    uuid_mod.uuid4 = fake_uuid4
    raised = None
    snap_c05, snap_c07 = [], []
    die_after = run.get('die_after') if die else None
    dead_slots = set()
    ended_by_fault = False
    software = cfg['software']
    spec = run.get('kill') if die else run.get('fault')
    fault = None
    if spec:
        def die_hook():
            import pickle
            _KEEPALIVE.append((slots, table))
            with open(side, 'wb') as f:
                pickle.dump({'cfg': cfg, 'before': before, 'after': {}, 'created': created, 'meta': meta,
                             'model_ops': model_ops, 'software': software, 'raised': None,
                             'snap_c05': snap_c05, 'snap_c07': snap_c07, 'killed_in_append': True}, f)
            os._exit(0)
        fault = ArchiveFault(directory, spec, die_hook if die else None)
        fault.install()
    if any(n.endswith('-wpullinc') for n in before):
        journal_present = True
    else:
        journal_present = False
    try:
        params = WARCRecorderParams(
            compress=cfg['compress'], extra_fields=[tuple(x) for x in cfg['extra']] or None, temp_dir=directory,
            log=cfg['log'], appending=cfg['appending'], digests=cfg['digests'], cdx=cfg['cdx'],
            max_size=cfg['max_size'], url_table=table, software_string=cfg['software'],
            move_to=os.path.join(directory, MOVED) if cfg.get('move_to') else None)
        if cfg.get('move_to'):
            os.makedirs(os.path.join(directory, MOVED), exist_ok=True)
        software = cfg['software'] or WARCRecorder.DEFAULT_SOFTWARE_STRING
        try:
            rec = WARCRecorder(os.path.join(directory, PREFIX), params=params)
        except OSError as e:
            if journal_present and 'incomplete' in str(e):
                # the journal of an append that was cut short is there: the recorder refuses to start (C06)
                return {'cfg': cfg, 'before': before, 'after': read_dir(directory), 'created': created, 'meta': meta,
                        'model_ops': model_ops, 'software': software, 'raised': None, 'refused': True,
                        'snap_c05': [], 'snap_c07': []}
            raise
        logs = list(run.get('logs', []))
        for op_index, op in enumerate(run['ops'] + [{'op': 'close', 'k': None}]):
          try:
              o, k = op['op'], op['k']
              if die_after is not None and op_index >= die_after:
                  # the process dies here; keep every object alive so that nothing is flushed by a finaliser
                  _KEEPALIVE.append((rec, slots, table))
                  return {'cfg': cfg, 'before': before, 'after': {}, 'created': created, 'meta': meta,
                          'model_ops': model_ops, 'software': software, 'raised': None,
                          'snap_c05': snap_c05, 'snap_c07': snap_c07}
              if fault is not None:
                  fault.armed = (spec['at'] == ('close' if o == 'close' else op_index))
                  fault.opens = 0
              if o == 'close':
                  rec.close()
                  break
              if k in dead_slots:
                  continue       # the session that met the fault was given up
              if logs and o in ('bq', 'bc'):
                  logging.getLogger('wpull.verif').info(logs.pop(0))
              if o == 'bq':
                  sess = rec.new_http_recorder_session()
                  req = Request(op['url'], method=op['method'])
                  req.address = (op['ip'], op['port'])
                  for n, v in op['fields']:
                      req.fields.add(n, v)
                  if op['body_len']:
                      req.fields['Content-Length'] = str(op['body_len'])
                  req.prepare_for_send()
                  n0 = len(created)
                  sess.begin_request(req)
                  slots[k] = {'sess': sess, 'req': req, 'req_id': created[n0] if len(created) > n0 else None}
                  model_ops.append('bq %d %s %s' % (k, enc(req.url_info.url), enc(op['ip'])))
              elif o == 'eq':
                  s = slots[k]
                  head = s['req'].to_bytes()
                  s['sess'].request_data(head)
                  for c in chunks_of(op['body'], op['cuts']):
                      s['sess'].request_data(c)
                  s['sess'].end_request(s['req'])
                  block = head + op['body']
                  meta[s['req_id']] = {'kind': 'request', 'full': block, 'hdrlen': len(head)}
                  model_ops.append('eq %d %s %d' % (k, enc(block), len(head)))
              elif o == 'bp':
                  s = slots[k]
                  lines = header_lines(op['header'])
                  for l in lines:
                      s['sess'].response_data(l)          # what Stream.read_response notifies, line by line
                  resp = Response()
                  resp.parse(b''.join(lines[:-1]))
                  resp.request = s['req']
                  n0 = len(created)
                  s['sess'].begin_response(resp)
                  s['resp'] = resp
                  s['header'] = op['header']
                  s['resp_id'] = created[n0] if len(created) > n0 else None
                  model_ops.append('bp %d' % k)
              elif o == 'ep':
                  s = slots[k]
                  for c in chunks_of(op['body'], op['cuts']):
                      s['sess'].response_data(c)
                  if table is not None:
                      table.answer = op['revisit']
                  s['sess'].end_response(s['resp'])
                  block = s['header'] + op['body']
                  meta[s['resp_id']] = {'kind': 'response', 'full': block, 'hdrlen': len(s['header']),
                                        'revisit': op['revisit'] if table is not None else None,
                                        'status': op.get('status'), 'mime': op.get('mime'), 'linesep': op.get('linesep', False)}
                  model_ops.append(['ep', k, block, (op['revisit'] if table is not None else None)])
              elif o == 'cs':
                  slots[k]['sess'].close()
                  model_ops.append('cs')
              elif o == 'bc':
                  sess = rec.new_ftp_recorder_session()
                  req = FTPRequest(op['url'])
                  req.address = (op['ip'], op['port'])
                  n0 = len(created)
                  sess.begin_control(req, connection_reused=op['reused'])
                  for d, data in op['ctrl']:
                      (sess.control_send_data if d == 'send' else sess.control_receive_data)(data)
                  slots[k] = {'sess': sess, 'req': req, 'ctrl_id': created[n0] if len(created) > n0 else None}
                  model_ops.append('bc %d %s %s' % (k, enc(req.url_info.url), enc(op['ip'])))
              elif o == 'bt':
                  s = slots[k]
                  resp = FTPResponse()
                  resp.data_address = tuple(op['data_address'])
                  n0 = len(created)
                  s['sess'].begin_transfer(resp)
                  s['resp'] = resp
                  s['data_id'] = created[n0] if len(created) > n0 else None
                  model_ops.append('bt %d' % k)
              elif o == 'et':
                  s = slots[k]
                  for c in chunks_of(op['data'], op['cuts']):
                      s['sess'].transfer_receive_data(c)
                  s['sess'].end_transfer(s['resp'])
                  meta[s['data_id']] = {'kind': 'ftp-data', 'full': op['data']}
                  model_ops.append('et %d %s' % (k, enc(op['data'])))
              elif o == 'ec':
                  s = slots[k]
                  for d, data in op['ctrl']:
                      (s['sess'].control_send_data if d == 'send' else s['sess'].control_receive_data)(data)
                  resp = s.get('resp') or FTPResponse()
                  s['sess'].end_control(resp, connection_closed=op['closed'])
                  meta[s['ctrl_id']] = {'kind': 'ftp-control'}
                  model_ops.append(['ec', k, s['ctrl_id']])
              else:
                  raise Infra('unknown op %r' % o)
              if run.get('snap') and o in ('eq', 'ep', 'et', 'ec', 'cs') and not (snap_c05 or snap_c07):
                  a, b = snapshot_check(directory, cfg, before)
                  snap_c05 += a
                  snap_c07 += [(x[0], x[1], x[2] + ' after event %d (%s)' % (op_index, o)) for x in b]
          except Infra:
              raise
          except OSError as e:
              if fault is not None and fault.fired and fault.armed and spec['mode'] == 'fail':
                  # (any OSError: the roll-back of an append whose open failed on a file that does not exist yet
                  #  answers with FileNotFoundError in place of the injected error)
                  fault.armed = False
                  if op['op'] == 'cs':
                      # a failed roll-over: the error leaves session.close(); the life ends here, without close()
                      ended_by_fault = True
                      break
                  # the injected fault came out of the event method as an OSError: give the session up, go on
                  dead_slots.add(op['k'])
                  continue
              import traceback
              tb = traceback.extract_tb(e.__traceback__)
              frames = [f for f in tb if '/wpull/' in f.filename]
              raised = {'type': type(e).__name__, 'where': frames[-1].name if frames else 'recorder', 'op': op['op'],
                        'index': op_index, 'text': str(e)[:200]}
              break
          except Exception as e:
              # these lives inject no fault: nothing may leave the recorder's API
              import traceback
              tb = traceback.extract_tb(e.__traceback__)
              frames = [f for f in tb if '/wpull/' in f.filename]
              where = frames[-1].name if frames else 'recorder'
              raised = {'type': type(e).__name__, 'where': where, 'op': op['op'], 'index': op_index, 'text': str(e)[:200]}
              break
    finally:
        uuid_mod.uuid4 = real_uuid4
        if fault is not None:
            fault.uninstall()
        for h in list(root.handlers):
            if h not in old_handlers:
                root.removeHandler(h)
        root.setLevel(old_level)
    after = read_dir(directory)
    return {'cfg': cfg, 'before': before, 'after': after, 'created': created, 'meta': meta,
            'model_ops': model_ops, 'software': software, 'raised': raised,
            'snap_c05': snap_c05, 'snap_c07': snap_c07, 'completed': raised is None, 'ended_by_fault': ended_by_fault,
            'fault_fired': bool(fault and fault.fired)}


def parse_life(obs):
    """Read the files a life wrote with the independent reader.
    -> (records_by_file {name: [Rec]}, problems [(kind, where, detail)])"""
    cfg = obs['cfg']
    problems = []
    by_file = {}
    torn = obs.get('torn') or {}
    for name, data in obs['after'].items():
        tok = fname_token(name, cfg['compress'])
        if tok is None:
            continue
        if name in torn:
            # the process died inside an append to this file: its journal says where the complete part ends
            data = data[:torn[name]]
        old = obs['before'].get(name)
        start = 0
        if old is not None and cfg['appending']:
            start = len(old)
            if data[:start] != old:
                problems.append(('earlier-bytes-changed', 'write_record', 'file %s: the %d bytes present before this run changed' % (name, start)))
        elif old is not None and old == data:
            continue      # untouched file of an earlier life
        try:
            by_file[name] = (start, read_warc_file(name, data, cfg['compress'], start))
        except Invalid as e:
            problems.append(('invalid-record-sequence', 'WARCRecord.__iter__', 'file %s: %s' % (name, e)))
            by_file[name] = (start, [])
        if start and len(data) > start:
            # this life appended to a file it found: the WHOLE file must still be a sequence of complete records
            try:
                read_warc_file(name, data, cfg['compress'], 0)
            except Invalid as e:
                had_journal = (name + '-wpullinc') in obs['before']
                problems.append(('appended-behind-incomplete-record',
                                 '_check_journals_and_maybe_raise' if had_journal else 'write_record',
                                 'file %s: this life appended %d bytes behind the %d it found%s, the file as a whole is not a '
                                 'sequence of complete records: %s' % (name, len(data) - start, start,
                                 ' (the journal of an unfinished append was present)' if had_journal else '', e)))
    return by_file, problems


# =========================================================================
# model side
# =========================================================================
def enc_lists(ls):
    ls = list(ls)
    return '~' if not ls else '/'.join(enc(x) for x in ls)


def wrap_of(value):
    return textwrap.wrap(value, width=1024, drop_whitespace=False, initial_indent=' ', subsequent_indent=' ')


def model_request(obs, by_file):
    cfg = obs['cfg']
    recs = {}
    for name, (start, rs) in by_file.items():
        for r in rs:
            if r.id is not None:
                recs[r.id.decode('latin-1')] = r
    uuids, dates, tss, sizes = [], [], [], []
    for u in obs['created']:
        rid = '<urn:uuid:%s>' % u
        r = recs.get(rid)
        uuids.append(u)
        d = r.get(b'WARC-Date', b'').decode('latin-1') if r else ''
        dates.append(d)
        try:
            tss.append(iso_ts(d) if d else '')
        except ValueError:
            tss.append('?')
        sizes.append(r.size if r else 0)
    log_block = None
    if cfg['log'] and not obs.get('abandoned'):
        for r in recs.values():
            if r.get(b'WARC-Target-URI') == b'urn:X-wpull:log' and r.id.decode() in ['<urn:uuid:%s>' % u for u in obs['created']]:
                log_block = r.block
        if log_block is None:
            log_block = b''
    existing = []
    for name, data in obs['before'].items():
        tok = fname_token(name, cfg['compress'])
        if tok:
            existing.append('%s %d' % (tok, len(data)))
    builtin = [obs['software'], 'WARC File Format 1.0',
               'http://bibnum.bnf.fr/WARC/WARC_ISO_28500_version1_latestdraft.pdf']
    toks = ['T' if cfg[x] else 'F' for x in ('compress', 'digests', 'cdx', 'appending', 'revisit')]
    toks.append('None' if cfg['max_size'] is None else str(cfg['max_size']))
    toks += [enc(PREFIX), enc(obs['software'])]
    toks += [enc_lists(wrap_of(v)) for v in builtin]
    toks.append(str(len(cfg['extra'])))
    for n, v in cfg['extra']:
        toks += [enc(n), enc(v), enc_lists(wrap_of(v))]
    toks.append(str(len(existing)))
    toks += existing
    toks.append('T' if (PREFIX + '.cdx') in obs['before'] else 'F')
    toks += [enc_lists(uuids), enc_lists(dates), enc_lists(tss), enc(sizes)]
    toks.append('None' if log_block is None else '=' + enc(log_block))
    ops = []
    for m in obs['model_ops']:
        if isinstance(m, str):
            ops.append(m)
        elif m[0] == 'ep':
            ops.append('ep %d %s %s' % (m[1], enc(m[2]), 'None' if m[3] is None else '=' + enc(m[3])))
        elif m[0] == 'ec':
            r = recs.get('<urn:uuid:%s>' % m[2])
            ops.append('ec %d %s' % (m[1], enc(r.block if r else b'')))
    toks.append(str(len(ops)))
    toks += ops
    return 'warc run ' + ' '.join(toks)


PLACEHOLDER = re.compile(rb'sha1:\{(\d{30})\}')


def substitute_digests(raw, full_block):
    """Replace the driver's digest placeholders in a serialised record by real digests."""
    head, sep, rest = raw.partition(b'\r\n\r\n')
    block = rest[:-4] if rest.endswith(b'\r\n\r\n') else rest
    out = []
    for line in head.split(b'\r\n'):
        m = PLACEHOLDER.search(line)
        if m:
            n = int(m.group(1))
            if line.startswith(b'WARC-Payload-Digest') and full_block is not None:
                src = full_block
            else:
                src = block
            data = src[len(src) - n:] if n else b''
            line = line[:m.start()] + b'sha1:' + b32sha1(data) + line[m.end():]
        out.append(line)
    return b'\r\n'.join(out) + sep + rest


def parse_model_reply(reply, obs):
    """-> dict(header_written, files {name: size}, entries {name: [(off,size,raw)]}, cdx [line bytes]) or error str"""
    if not reply.startswith('ok '):
        return reply
    t = reply.split(' ')
    i = 1
    res = {'header': t[i] == 'T'}
    i += 1
    assert t[i] == 'F'
    n = int(t[i + 1])
    i += 2
    files = {}
    for _ in range(n):
        files[bytes(dec(t[i])).decode()] = int(t[i + 1])
        i += 2
    assert t[i] == 'L'
    n = int(t[i + 1])
    i += 2
    entries = {}
    ids = {}
    for _ in range(n):
        name = bytes(dec(t[i])).decode()
        raw = bytes(dec(t[i + 3]))
        m = re.search(rb'\r\nWARC-Record-ID: <urn:uuid:([^>\r\n]*)>', raw)
        uid = m.group(1).decode('latin-1') if m else None
        full = (obs['meta'].get(uid) or {}).get('full')
        raw2 = substitute_digests(raw, full)
        ids['<urn:uuid:%s>' % uid] = (raw2, full)
        entries.setdefault(name, []).append((int(t[i + 1]), int(t[i + 2]), raw2))
        i += 4
    assert t[i] == 'C'
    n = int(t[i + 1])
    i += 2
    cdx = []
    for _ in range(n):
        line = bytes(dec(t[i]))
        i += 1
        m = re.search(rb' \{(\d{30})\} ', line)
        if m:
            rid = line.rsplit(b' ', 1)[-1].decode('latin-1')
            raw2, full = ids.get(rid, (b'', None))
            mm = re.search(rb'\r\nWARC-Payload-Digest: sha1:([A-Z2-7]{32})\r\n', raw2)
            line = line[:m.start()] + b' ' + (mm.group(1) if mm else b'?') + b' ' + line[m.end():]
        cdx.append(line)
    res.update(files=files, entries=entries, cdx=cdx)
    return res


def real_canonical(obs, by_file):
    cfg = obs['cfg']
    files = {}
    entries = {}
    for name, data in obs['after'].items():
        if fname_token(name, cfg['compress']) is None:
            continue
        files[name] = len(data)
        if name in by_file:
            entries[name] = [(r.offset, r.size, r.raw) for r in by_file[name][1]]
    cdxname = PREFIX + '.cdx'
    new = obs['after'].get(cdxname)
    header = False
    cdx = []
    if new is not None:
        old = obs['before'].get(cdxname, b'') if cfg['appending'] else b''
        added = new[len(old):]
        lines = added.split(b'\n')
        if lines and lines[-1] == b'':
            lines.pop()
        if lines and lines[0] == CDX_HEADER.encode():
            header = True
            lines = lines[1:]
        cdx = lines
    return {'header': header, 'files': files, 'entries': {k: v for k, v in entries.items() if v}, 'cdx': cdx}


def compare(model, real):
    """-> list of (what, model, real)"""
    if isinstance(model, str):
        return [('reply', model, 'ok')]
    out = []
    if model['header'] != real['header']:
        out.append(('cdx-header', model['header'], real['header']))
    if model['files'] != real['files']:
        out.append(('files', model['files'], real['files']))
    names = sorted(set(model['entries']) | set(real['entries']))
    for n in names:
        a, b = model['entries'].get(n, []), real['entries'].get(n, [])
        if a != b:
            for i in range(max(len(a), len(b))):
                x = a[i] if i < len(a) else None
                y = b[i] if i < len(b) else None
                if x != y:
                    out.append(('entry %s #%d' % (n, i), x, y))
                    break
    if model['cdx'] != real['cdx']:
        out.append(('cdx-lines', model['cdx'][:5], real['cdx'][:5]))
    return out


# =========================================================================
# direct oracles on the real output
# =========================================================================
WS = b'\t\n\x0b\x0c\r '
INFO_NAMED = re.compile(rb'^([!-9;-~]+):( .*)?$', re.S)


def squeeze(b):
    return bytes(c for c in b if c not in WS)


def check_warcinfo_block(block, cfg, software):
    """The application/warc-fields block of a warcinfo record: CRLF-terminated lines, each one a named field
    (`Name: value` / `Name:`) or a continuation (leading blank) of one, closed by an empty line; the named fields are
    exactly the configured ones (built-ins, then the user's extra fields, title-cased, same names merged), in order,
    with their values (compared without white space: line breaks and tabs of a value may only become blanks / folds)."""
    expected = []          # ordered multimap as NameValueRecord keeps it
    def put(name, value, replace):
        key = name.title()
        for e in expected:
            if e[0] == key:
                if replace:
                    e[1][:] = [value]
                else:
                    e[1].append(value)
                return
        expected.append((key, [value]))
    put('Software', software, True)
    put('format', 'WARC File Format 1.0', True)
    put('conformsTo', 'http://bibnum.bnf.fr/WARC/WARC_ISO_28500_version1_latestdraft.pdf', True)
    for n, v in cfg['extra']:
        put(n, v, False)
    want = [(k, v) for k, vs in expected for v in vs]
    if not block.endswith(b'\r\n\r\n') and block != b'\r\n':
        return 'block does not end with CRLF CRLF: %r' % block[-40:]
    lines = block[:-4].split(b'\r\n') if block != b'\r\n' else []
    got = []
    for ln in lines:
        if b'\r' in ln or b'\n' in ln:
            return 'bare CR or LF inside the line %r' % ln[:80]
        if ln[:1] in (b' ', b'\t'):
            if not got:
                return 'continuation line %r before any named field' % ln[:80]
            got[-1][1] += ln
            continue
        m = INFO_NAMED.match(ln)
        if not m:
            return 'line %r is neither a named field nor a continuation of one' % ln[:80]
        got.append([m.group(1), m.group(2) or b''])
    if [g[0] for g in got] != [k.encode('utf-8') for k, v in want]:
        return 'named fields %r, configured %r' % ([g[0] for g in got], [k for k, v in want])
    for (name, val), (k, v) in zip(got, want):
        if squeeze(val) != squeeze(v.encode('utf-8')):
            return 'field %s: value %r is not the configured %r' % (k, val[:80], v[:80])
    return None


def oracle_c05(obs, by_file, problems, all_ids):
    """C05 on the files of one life.  all_ids: ids seen in earlier lives of the directory."""
    fails = list(problems)
    cfg = obs['cfg']
    seen = dict(all_ids)
    for name, (start, recs) in sorted(by_file.items()):
        winfo = None
        for i, r in enumerate(recs):
            where = '%s #%d (%s)' % (name, i, (r.type or b'?').decode('latin-1'))
            for req in (b'WARC-Type', b'WARC-Record-ID', b'WARC-Date', b'Content-Length'):
                if r.count(req) != 1:
                    fails.append(('field-count', 'WARCRecord.__iter__', '%s: %d %s fields' % (where, r.count(req), req.decode())))
            names = [n for n, v in r.fields]
            if len(set(names)) != len(names):
                fails.append(('field-count', 'WARCRecord.__iter__', '%s: repeated field name in %r' % (where, names)))
            if r.id in seen:
                fails.append(('duplicate-record-id', 'set_common_fields', '%s: id %r also used by %s' % (where, r.id, seen[r.id])))
            seen[r.id] = where
            if r.type == b'warcinfo':
                if 'software' in obs:
                    bad = check_warcinfo_block(r.block, cfg, obs['software'])
                    if bad:
                        fails.append(('warcinfo-field-lines', 'NameValueRecord.to_str', '%s: %s' % (where, bad)))
                winfo = r.id
                if i != 0:
                    fails.append(('warcinfo-not-at-head', '_start_new_warc_file', '%s: warcinfo record in the middle of a life' % where))
            if winfo is None or r.get(b'WARC-Warcinfo-ID') != winfo:
                fails.append(('warcinfo-id', 'write_record', '%s: WARC-Warcinfo-ID %r but the file\'s warcinfo record is %r'
                              % (where, r.get(b'WARC-Warcinfo-ID'), winfo)))
            bd = r.get(b'WARC-Block-Digest')
            pd = r.get(b'WARC-Payload-Digest')
            want_digests = cfg['digests'] or r.type == b'warcinfo'
            if want_digests:
                if bd != b'sha1:' + b32sha1(r.block):
                    fails.append(('block-digest', 'compute_checksum', '%s: %r is not the SHA-1 of the %d-byte block' % (where, bd, len(r.block))))
            elif bd is not None:
                if bd != b'sha1:' + b32sha1(r.block):
                    fails.append(('block-digest', 'compute_checksum', '%s: stale block digest' % where))
            uid = (r.id or b'').decode('latin-1')[10:-1]
            m = obs['meta'].get(uid)
            if m and m['kind'] in ('request', 'response'):
                full, hl = m['full'], m['hdrlen']
                payload = full[hl:]
                if r.type == b'revisit':
                    if r.block != full[:hl]:
                        fails.append(('revisit-truncation', '_record_revisit',
                                      '%s: revisit block has %d bytes, the wire header block has %d' % (where, len(r.block), hl)))
                    if r.get(b'WARC-Refers-To') != (m.get('revisit') or '').encode() or r.get(b'WARC-Truncated') != b'length':
                        fails.append(('revisit-fields', '_record_revisit', '%s: %r' % (where, r.fields)))
                else:
                    if r.block != full:
                        fails.append(('block-not-wire-bytes', 'response_data', '%s: block differs from the bytes of the exchange' % where))
                    if m.get('revisit') and cfg['digests']:
                        fails.append(('revisit-fields', '_record_revisit', '%s: revisit id given but a %s record written' % (where, r.type)))
                if cfg['digests']:
                    if pd != b'sha1:' + b32sha1(payload):
                        kind = 'payload-digest'
                        got = None
                        for cut in range(len(full) + 1):
                            if pd == b'sha1:' + b32sha1(full[cut:]):
                                got = cut
                                break
                        fails.append((kind, 'end_response' if m['kind'] == 'response' else 'end_request',
                                      '%s: %r is not the SHA-1 of the %d bytes after the %d-byte header block%s'
                                      % (where, pd, len(payload), hl,
                                         '' if got is None else ' (it is the digest of the bytes from offset %d)' % got)))
            elif pd is not None:
                fails.append(('payload-digest', 'compute_checksum', '%s: unexpected payload digest' % where))
    # every record the sessions completed must be in some file exactly once
    written = {}
    for name, (start, recs) in by_file.items():
        for r in recs:
            written[r.id] = written.get(r.id, 0) + 1
    for uid, m in obs['meta'].items():
        rid = ('<urn:uuid:%s>' % uid).encode()
        if written.get(rid, 0) != 1:
            fails.append(('record-missing', 'write_record', '%s record %s written %d times' % (m['kind'], uid, written.get(rid, 0))))
    return fails, seen


def oracle_c07(obs, by_file, directory_files, expectations):
    """C07 on the CDX file as it stands after this life (all lines, also those of
    earlier lives when appending).  directory_files: name -> bytes now on disk.
    expectations: record id (str) -> (status, mime)."""
    cfg = obs['cfg']
    fails = []
    if not cfg['cdx']:
        return fails
    cdx = directory_files.get(PREFIX + '.cdx')
    if cdx is None:
        return [('cdx-missing', '_start_new_cdx_file', 'no CDX file')]
    text = cdx.split(b'\n')
    if text[-1] != b'':
        fails.append(('cdx-format', '_write_cdx_field', 'CDX file does not end with a newline'))
    text = text[:-1] if text[-1] == b'' else text
    if not text or text[0] != CDX_HEADER.encode():
        fails.append(('cdx-format', '_write_cdx_header', 'first line %r is not the CDX header' % (text[:1],)))
    lines = text[1:]
    by_id = {}
    # "current archive files": when not appending, the files this life (re)started; every line of the index must
    # describe a response record of those -- nothing of an earlier life on the same prefix may survive
    current_ids = None
    if not cfg['appending'] and all(recs for (start, recs) in by_file.values()):
        # (a file that could not be read at all is reported as such, not as a stale index)
        current_ids = {r.id for (start, recs) in by_file.values() for r in recs if r.type == b'response'}
    for ln in lines:
        if ln == CDX_HEADER.encode():
            fails.append(('cdx-stale-index', '_start_new_cdx_file', 'a second CDX header line in the middle of the index'))
            continue
        cols = ln.split(b' ')
        if current_ids is not None and len(cols) == 9 and cols[8] not in current_ids:
            fails.append(('cdx-stale-index', '_start_new_cdx_file',
                          'line for %s (file %s) describes no response record of the archive this life wrote: the index '
                          'of an earlier life on the same prefix was kept although the archive was started over'
                          % (cols[8].decode('latin-1'), cols[7].decode('latin-1'))))
            continue
        if len(cols) != 9:
            fails.append(('cdx-format', '_write_cdx_field', 'line %r has %d columns' % (ln[:200], len(cols))))
            continue
        a, b, m, s, k, S, V, g, u = cols
        by_id.setdefault(u, []).append(ln)
        where = 'line for %s' % u.decode('latin-1')
        data = directory_files.get(g.decode('latin-1'))
        if data is None:
            fails.append(('cdx-range', 'write_record', '%s: names the missing file %r' % (where, g)))
            continue
        if not (S.isdigit() and V.isdigit()):
            fails.append(('cdx-format', '_write_cdx_field', '%s: S/V not numeric' % where))
            continue
        off, size = int(V), int(S)
        piece = data[off:off + size]
        compressed = g.endswith(b'.gz')
        try:
            if len(piece) != size:
                raise Invalid('range %d+%d exceeds the %d-byte file' % (off, size, len(data)))
            if compressed:
                end, payload = read_gzip_member(piece, 0)
                if end != len(piece):
                    raise Invalid('range holds %d bytes beyond one gzip member' % (len(piece) - end))
            else:
                payload = piece
            end, fields, block = read_warc_record(payload, 0)
            if end != len(payload):
                raise Invalid('range holds %d bytes beyond one record' % (len(payload) - end))
        except Invalid as e:
            fails.append(('cdx-range', 'write_record', '%s: bytes %d+%d of %s are not exactly one record: %s' % (where, off, size, g.decode(), e)))
            continue
        r = Rec(g, off, size, payload, fields, block)
        if r.id != u or r.get(b'WARC-Target-URI') != a:
            fails.append(('cdx-fields', '_write_cdx_field', '%s: record has id %r uri %r, line has uri %r' % (where, r.id, r.get(b'WARC-Target-URI'), a)))
        pd = r.get(b'WARC-Payload-Digest')
        if (pd is None and k != b'-') or (pd is not None and pd != b'sha1:' + k):
            fails.append(('cdx-fields', '_write_cdx_field', '%s: checksum column %r, record payload digest %r' % (where, k, pd)))
        if r.type != b'response':
            fails.append(('cdx-fields', '_write_cdx_field', '%s: describes a %r record' % (where, r.type)))
        try:
            if b != iso_ts(r.get(b'WARC-Date', b'').decode('latin-1')).encode():
                fails.append(('cdx-fields', '_write_cdx_field', '%s: timestamp %r vs WARC-Date %r' % (where, b, r.get(b'WARC-Date'))))
        except ValueError:
            pass
        exp = expectations.get(u.decode('latin-1'))
        if exp is not None:
            st, mime, linesep = exp
            if linesep and mime is not None and m != mime.encode():
                fails.append(('cdx-mime-linesep', 'NameValueRecord.parse',
                              '%s: MIME column %r, the server sent %r (a field value holds a str.splitlines separator)' % (where, m, mime)))
                mime = None
            if st is not None and s != str(st).encode():
                fails.append(('cdx-status', 'get_http_header', '%s: status column %r, the server sent %d' % (where, s, st)))
            if mime is not None and m != mime.encode():
                fails.append(('cdx-mime', 'get_http_header' if m == b'-' else 'parse_mimetype',
                              '%s: MIME column %r, the server sent %r' % (where, m, mime)))
    # one line per response record written by this life
    for name, (start, recs) in by_file.items():
        for r in recs:
            n = len(by_id.get(r.id, []))
            if r.type == b'response' and n != 1:
                fails.append(('cdx-line-count', 'write_record', 'response record %r in %s has %d CDX lines' % (r.id, name, n)))
            if r.type != b'response' and n != 0:
                fails.append(('cdx-line-count', 'write_record', '%s record %r has %d CDX lines' % (r.type, r.id, n)))
    return fails


# =========================================================================
# running a scenario on both sides
# =========================================================================
class Outcome:
    def __init__(self):
        self.requests = []      # model request lines, one per life
        self.lives = []         # (obs, by_file, real_canonical)
        self.c05 = []           # (kind, where, detail)
        self.c07 = []
        self.tags = []
        self.error = None


def run_scenario(scn, seed='s'):
    """Run all lives of the scenario on the real recorder; evaluate the oracles."""
    out = Outcome()
    base = os.environ.get('TMPDIR') or tempfile.gettempdir()
    directory = tempfile.mkdtemp(prefix='wpull-verif-warc-', dir=base)
    try:
        all_ids = {}
        expectations = {}
        indexed = {}         # response record id -> file, of the lives that wrote index lines and whose archive still stands
        for li, run in enumerate(scn['runs']):
            if run.get('die_after') is not None or run.get('kill'):
                obs = run_real_life_forked(directory, run, '%s/%d' % (seed, li))
            else:
                obs = run_real_life(directory, run, '%s/%d' % (seed, li))
            out.c05 += obs.get('snap_c05', [])
            out.c07 += obs.get('snap_c07', [])
            if obs['raised']:
                r = obs['raised']
                f = ('recorder-raised', r['where'], '%s(%s) left the recorder at op %d (%s) of life %d; no fault was injected'
                     % (r['type'], r['text'], r['index'], r['op'], li))
                out.c05.append(f)
                out.c07.append(f)
                break
            if obs.get('refused'):
                out.tags.append('life:refused-journal-present')
                # a start that is refused protects the archive it found: nothing on disk may have changed, in particular
                # the index of that archive must still hold its lines
                changed = sorted(n for n in set(obs['before']) | set(obs['after']) if obs['before'].get(n) != obs['after'].get(n))
                cdxname = PREFIX + '.cdx'
                if cdxname in changed:
                    lost = [rid for rid in indexed if rid not in obs['after'].get(cdxname, b'')]
                    out.c07.append(('cdx-lost-by-refused-start', '__init__',
                                    'life %d was refused (journal of an unfinished append present) but %s changed from %d to %d bytes: '
                                    '%d response records of the protected archive lost their index line'
                                    % (li, cdxname, len(obs['before'].get(cdxname, b'')), len(obs['after'].get(cdxname, b'')), len(lost))))
                if [n for n in changed if n != cdxname]:
                    out.c05.append(('refused-start-changed-files', '__init__',
                                    'life %d was refused but changed %s' % (li, [n for n in changed if n != cdxname])))
                break
            by_file, problems = parse_life(obs)
            fails, all_ids = oracle_c05(obs, by_file, problems, all_ids)
            out.c05 += fails
            for uid, m in obs['meta'].items():
                if m['kind'] == 'response':
                    expectations['<urn:uuid:%s>' % uid] = (m.get('status'), m.get('mime'), m.get('linesep', False))
            if obs.get('abandoned') and obs['cfg']['cdx']:
                # the process died without close(): what is on disk must already be consistent
                out.c07 += cdx_behind_archive(obs['cfg'], obs['before'], obs['after'], by_file,
                                              ('after the process died following event %d, close() never ran' % run['die_after'])
                                              if run.get('die_after') is not None else
                                              'after the process died inside an append (%r), close() never ran' % (run.get('kill'),))
            out.c07 += oracle_c07(obs, by_file, obs['after'], expectations)
            # across lives: an APPENDING life keeps the archive files of the earlier lives, so every response record an
            # earlier life indexed must still have exactly one line in the index as it lies now
            if obs['cfg']['appending'] and indexed:
                now = {}
                for ln in obs['after'].get(PREFIX + '.cdx', b'').split(b'\n'):
                    cols = ln.split(b' ')
                    if len(cols) == 9:
                        now[cols[8]] = now.get(cols[8], 0) + 1
                lost = [(rid, where) for rid, where in sorted(indexed.items()) if now.get(rid, 0) != 1]
                if lost:
                    out.c07.append(('cdx-line-missing-for-earlier-run', '_start_new_cdx_file',
                                    'life %d appends (max_size=%r): %d response records of earlier lives are still in their files but '
                                    'have no (or not exactly one) line in %s.cdx any more, e.g. %s of %s'
                                    % (li, obs['cfg']['max_size'], len(lost), PREFIX, lost[0][0].decode('latin-1'), lost[0][1])))
            if obs['cfg']['cdx']:
                if not obs['cfg']['appending']:
                    indexed = {}
                for name, (start, recs) in by_file.items():
                    for r in recs:
                        if r.type == b'response':
                            indexed[r.id] = name
            if obs.get('ended_by_fault'):
                out.tags.append('life:ended-by-failed-rollover')
            elif obs.get('killed_in_append'):
                out.tags.append('life:killed-in-append:%s' % ','.join(sorted(fname_token(n, obs['cfg']['compress']) .rstrip('0123456789') or 'main'
                                                                               for n in obs.get('torn', {})) or 'no-journal'))
            else:
                # (a life killed inside an append is judged by the oracles only: its torn tail is C06's subject)
                out.requests.append(model_request(obs, by_file))
                out.lives.append((obs, by_file, real_canonical(obs, by_file)))
            if obs.get('fault_fired'):
                out.tags.append('life:append-fault:%s' % run['fault']['prefix'])
            cfg = obs['cfg']
            nrec = sum(len(v[1]) for v in by_file.values())
            out.tags += ['cfg:gz' if cfg['compress'] else 'cfg:plain',
                         'cfg:digests' if cfg['digests'] else 'cfg:nodigests',
                         'cfg:maxsize' if cfg['max_size'] is not None else 'cfg:single',
                         'cfg:appending' if cfg['appending'] else 'cfg:fresh',
                         'life:%d:%s%s' % (min(li, 2), 'append' if cfg['appending'] else 'startover',
                                           ':cdx-present' if (PREFIX + '.cdx') in obs['before'] else ''),
                         'files:%d' % min(len(by_file), 5), 'records:%s' % ('1-5' if nrec <= 5 else '6-20' if nrec <= 20 else '21+')]
            if obs.get('abandoned'):
                out.tags.append('life:abandoned')
            if li > 0 and any(n.endswith('-wpullinc') for n in obs['before']):
                out.tags.append('life:started-despite-journal')
            if li > 0 and scn['runs'][li - 1].get('die_after') is not None:
                out.tags.append('life:after-abandoned:%s' % ('append' if cfg['appending'] else 'startover'))
            if run.get('snap'):
                out.tags.append('life:snapshots')
            if run.get('links'):
                out.tags.append('life:names-are-%s' % run['links'])
            if cfg['log']:
                out.tags.append('cfg:log')
            if cfg['extra']:
                out.tags.append('cfg:extra')
            for m in obs['meta'].values():
                out.tags.append('rec:' + m['kind'] + (':revisit' if m.get('revisit') else ''))
                if m['kind'] == 'response':
                    h = m['full'][:m['hdrlen']]
                    if len(h) > 4096:
                        out.tags.append('hdr:>4096')
                    if b'\r' not in h:
                        out.tags.append('hdr:lf-only')
                    if m.get('mime') is None:
                        out.tags.append('hdr:no-mime-expectation')
                    elif m['mime'] == '-':
                        out.tags.append('mime:none')
                    elif '+' in m['mime'] or '.' in m['mime']:
                        out.tags.append('mime:plus-dot')
                    if m.get('linesep'):
                        out.tags.append('hdr:linesep-injection')
    except Infra:
        raise
    finally:
        shutil.rmtree(directory, ignore_errors=True)
    return out


def check_scenario(ctx, scn, reply_lines, out, pid):
    """Compare the model replies of a scenario; report oracle failures of `pid`."""
    for li, ((obs, by_file, real), reply) in enumerate(zip(out.lives, reply_lines)):
        try:
            model = parse_model_reply(reply, obs)
        except Exception as e:       # malformed reply
            model = 'unparsable reply: %s: %s' % (e, reply[:200])
        diffs = compare(model, real)
        for what, a, b in diffs:
            ctx.disagree('recorder', {'scenario': scn, 'life': li, 'what': what},
                         repr(a)[:1500], repr(b)[:1500])
            break
    fails = out.c05 if pid == 'C05' else out.c07
    for kind, where, detail in fails:
        ctx.fail(kind, where, {'stream': 'scenario', 'scenario': scn}, detail)


def load_corpus(ctx, pid):
    import glob
    out = []
    for p in sorted(glob.glob(os.path.join(ctx.verif, 'harness', 'corpus', pid, '*.json'))):
        with open(p) as f:
            out.append(unjson(json.load(f)))
    return out
