"""C12 — The connection pool never shares, over-allocates, leaks or deadlocks.

Lock-step co-simulation of the REAL `wpull.network.pool.ConnectionPool` /
`HostPool` (+ the real `HappyEyeballsConnection` wrapper and the real
`BaseSession` enter/exit/abort/recycle protocol) against the Lean model
`Wpull.Pool`, one task step at a time, on the deterministic loop.

A case = (M, max_count, client programs, schedule).  A client program is a
list of rounds `(key, close, direct)`: open a BaseSession, acquire a connection
for host `key`, suspend once ("use"), (re)connect if the connection is closed
(a round with close=1 on a closed connection = the connect fails with
NetworkError -> session.abort()), close it if close=1, then either leave the
session (`recycle` -> `no_wait_release`) or `yield from pool.release()`
(direct=1).  A schedule is a list of decisions taken between two handle runs:
  s<i>   run the ready step of client task i
  r<j>   run the ready step of release task j (created by no_wait_release)
  x<i>   task.cancel() of client i
  q<k>-<n>  the peer closes connection n of host k (idle or busy)
Stdlib-internal callbacks (asyncio.shield's done-callback) are run eagerly and
are not decisions.  After every decision the complete pool state of the real
objects is rendered and compared with the model's state after the same
decision; resolved nondeterminism (`set.pop()` of `_release_tasks` and of
`HostPool.ready`) is logged on the real side and handed to the model, which
checks that the logged choice was legal.
"""
import asyncio
import itertools
import json
import glob
import os
import types

import compat  # noqa: F401
import sched
from runner import Infra

RULE = ('front ends (oracle only): 2-3 real WebSession workers over the real pool / the real HTTPProxyConnectionPool (CONNECT + TLS tunnels), '
        'keep-alive and closing responses, raising event listeners, early exits, refused connects, failing tunnels, seeded deterministic loop; then: '
        'case = per-host limit M in 1..2(3), max_count, N<=5 client programs of 1..3 rounds over H<=2 host keys '
        '(close / connect-failure / keep-alive, no_wait_release or direct release) x a schedule of task steps, '
        'task.cancel() and remote closes chosen by the seeded scheduler (quick) or enumerated exhaustively over all '
        'interleavings; plus a keep-alive family over 2-3 host keys where the peer closes connections that sit idle in a pool; '
        'interleavings for tiny N (thorough); non-trivial = at least one client had to wait (condition or drain) or a '
        'fault was injected; distinct by (config, programs, resolved schedule)')
TRUSTED = ['harness/sched.py DetLoop with pure-Python tasks (one handle per step; handle -> task mapping)',
           'Python 3.12.1 asyncio Lock/Condition/shield/Task.cancel semantics are mirrored by the model '
           '(uncontended Lock.acquire is atomic, Condition.wait re-acquires before raising CancelledError, '
           'notify marks the first not-yet-notified waiter); tied by the co-simulation itself',
           'the real wpull.network.connection.Connection below the real HappyEyeballsConnection, over harness/fakenet.py '
           '(a remote close is the peer\'s EOF on the real StreamReader)']
ASSUMPTIONS = ['clients follow the BaseSession protocol (every acquired connection is released exactly once, after '
               'abort() on error/cancellation); release tasks themselves are never cancelled from outside',
               'single-stack resolution (HappyEyeballs dual-stack racing is not part of the pool bookkeeping)',
               'max_host_count >= 1 (asserted by HostPool.__init__)']
UNPROVED = []

PORT = 80


def host_of(key):
    return 'h%d.test' % key


import re
_TASK_NAME = re.compile(r'^[cr][0-9]+$')


def handle_task(handle):
    """The task a ready handle steps (pure-Python tasks are not instances of the C asyncio.Task)."""
    owner = getattr(getattr(handle, '_callback', None), '__self__', None)
    if isinstance(owner, (asyncio.Task, asyncio.tasks._PyTask)):
        return owner
    return None


@types.coroutine
def yield_once():
    yield


# --------------------------------------------------------------------------
# real side
# --------------------------------------------------------------------------
class Passive:
    """fakenet handler without behaviour: the peer only ever closes (decision `q`)."""


def make_net(run):
    import fakenet

    class Net(fakenet.FakeNet):
        async def open_connection(self, host=None, port=None, **kwargs):
            if run._fail_next_connect:
                run._fail_next_connect = False
                raise ConnectionRefusedError(111, 'Connection refused')
            return await super().open_connection(host, port, **kwargs)
    net = Net()
    net.default = Passive
    return net


class NotStarted:
    """Harness-side record of a check-in that was put into `_release_tasks` without being started as a task
    (it then is not something the loop will ever run by itself)."""

    def __init__(self, obj):
        self.obj = obj

    def done(self):
        return False

    def cancelled(self):
        return False

    def exception(self):
        return None

    def cancel(self):
        try:
            self.obj.close()
        except Exception:
            pass


class LogSet(set):
    """`ConnectionPool._release_tasks` with add/pop logged (resolves set.pop order)."""

    def __init__(self, run):
        super().__init__()
        self.run = run

    def add(self, task):
        self.run.new_release_task(task)
        super().add(task)

    def pop(self):
        t = super().pop()
        self.run.popped.append(self.run.rel_ids[t])
        return t


class RealRun:
    def __init__(self, case):
        from wpull.network.pool import ConnectionPool
        import fakenet
        self.case = case
        self.M = case['M']
        self.max_count = case.get('max_count', 100)
        self.programs = case['programs']
        self.loop = sched.new_det_loop(0)
        import asyncio.events as ev
        self._old_running = ev._get_running_loop()
        ev._set_running_loop(self.loop)
        # the REAL wpull.network.connection.Connection (closed()/close()/reset()/connect()) below the real
        # HappyEyeballsConnection, over the in-memory network: a remote close is the peer's EOF on the stream
        self._fail_next_connect = False
        self.net = make_net(self)
        self.net.install()
        self.pool = ConnectionPool(max_host_count=self.M, resolver=fakenet.FakeResolver(), max_count=self.max_count)
        self.pool._release_tasks = LogSet(self)
        self._releasing = None
        orig_nwr = self.pool.no_wait_release

        def hooked(connection):
            # instrumentation only: which connection the new release task is for; holder bookkeeping
            cid = self.cid_of(connection)
            self._releasing = cid
            self.holders.get(cid, set()).clear()
            return orig_nwr(connection)
        self.pool.no_wait_release = hooked
        self.conn_ids = {}        # id(wrapper) -> (key, n)
        self.conn_objs = {}       # (key, n) -> wrapper
        self.next_conn = {}
        self.rel_ids = {}         # task -> j
        self.rel_tasks = []
        self.rel_conn = []
        self.popped = []
        self.events = []
        self.holders = {}         # (key, n) -> set of client ids   (direct oracle)
        self.dirty = set()        # connections the peer closed after the last completed check-in (direct oracle)
        self._rel_done_seen = 0
        self.oracle = []          # property failures seen directly on the real objects
        self.cstate = ['start'] * len(self.programs)   # harness-side view for the oracle only
        self.tasks = []
        for i, prog in enumerate(self.programs):
            t = self.loop.create_task(self._client(i, prog), name='c%d' % i)
            self.tasks.append(t)
        self.log = []             # resolved decisions
        self.states = []          # rendered real state after every decision

    def close(self):
        import asyncio.events as ev
        try:
            for t in list(self.tasks) + list(self.rel_tasks):
                if not t.done():
                    t.cancel()
            n = 0
            while self.loop._ready and n < 10000:
                h = self.loop._ready.popleft()
                if not h._cancelled:
                    try:
                        h._run()
                    except BaseException:
                        pass
                n += 1
            for t in list(self.tasks) + list(self.rel_tasks):
                if t.done() and not t.cancelled():
                    t.exception()
        except Exception:
            pass
        try:
            self.net.uninstall()
        except Exception:
            pass
        ev._set_running_loop(self._old_running)
        self.loop.set_exception_handler(lambda *a: None)
        self.loop.close()
        asyncio.set_event_loop(None)

    # ---- instrumentation
    def peer_open(self, wrapper):
        """Network truth (not Connection.closed()): the wrapper has a connection that neither side has closed."""
        fc = self.net_conn_of(getattr(wrapper, '_active_connection', None))
        return fc is not None and not fc.server_closed and not fc.client_closed

    def net_conn_of(self, connection):
        """The in-memory peer end of a real Connection (by its StreamReader)."""
        if connection is None or connection.reader is None:
            return None
        for c in self.net.conns:
            if c.reader is connection.reader:
                return c
        return None

    def conn_id(self, wrapper, key):
        cid = self.conn_ids.get(id(wrapper))
        if cid is None:
            n = self.next_conn.get(key, 0)
            self.next_conn[key] = n + 1
            cid = (key, n)
            self.conn_ids[id(wrapper)] = cid
            self.conn_objs[cid] = wrapper
        return cid

    def cid_of(self, wrapper):
        """Name of a pooled object, also when the harness has not seen it granted yet."""
        cid = self.conn_ids.get(id(wrapper))
        if cid is None:
            try:
                key = int(wrapper._address[0][1:].split('.')[0])
            except Exception:
                key = 0
            cid = self.conn_id(wrapper, key)
        return cid

    def new_release_task(self, task):
        j = len(self.rel_tasks)
        self.rel_ids[task] = j
        if asyncio.isfuture(task):
            self.rel_tasks.append(task)
            task.set_name('r%d' % j)
        else:
            self.rel_tasks.append(NotStarted(task))
        # which connection: the coroutine's argument is not reachable portably; recorded by the caller hook
        self.rel_conn.append(self._releasing)
        self.events.append('N%d,%d-%d' % ((j,) + self._releasing))

    async def _client(self, i, prog):
        from wpull.protocol.abstract.client import BaseSession
        from wpull.errors import NetworkError
        pool = self.pool
        try:
            for (key, close, direct) in prog:
                session = BaseSession(pool)
                self.cstate[i] = 'acquiring'
                try:
                    with session:
                        conn = await compat._ensure(session._acquire_connection(host_of(key), PORT))
                        cid = self.conn_id(conn, key)
                        self._grant(i, cid)
                        await yield_once()
                        if conn.closed():
                            conn.reset()
                            if close:
                                self._fail_next_connect = True      # the connect is refused: NetworkError -> abort()
                            await compat._ensure(conn.connect())
                        if close:
                            conn.close()
                        if direct:
                            session._connections.discard(conn)
                            self._ungrant(i, cid)
                            self.cstate[i] = 'releasing'
                            await compat._ensure(pool.release(conn))
                            self.dirty.clear()        # a direct check-in has completed
                except NetworkError:
                    pass
            self.cstate[i] = 'done'
        except asyncio.CancelledError:
            self.cstate[i] = 'cancelled'
            raise

    def _grant(self, i, cid):
        self.cstate[i] = 'holding'
        self.events.append('G%d,%d-%d' % (i, cid[0], cid[1]))
        hs = self.holders.setdefault(cid, set())
        hs.add(i)
        if len(hs) > 1:
            self.oracle.append(('shared', 'HostPool.acquire', 'connection %s-%s held by clients %s' % (cid[0], cid[1], sorted(hs))))

    def _ungrant(self, i, cid):
        self.holders.get(cid, set()).discard(i)

    # ---- scheduling
    def ready(self):
        """(internal handles, {task name: handle})"""
        internal, tasks = [], {}
        for h in self.loop._ready:
            if h._cancelled:
                continue
            t = handle_task(h)
            if t is None or not _TASK_NAME.match(t.get_name()):
                internal.append(h)      # stdlib callback, or a task the harness did not see being created
            else:
                tasks.setdefault(t.get_name(), h)
        return internal, tasks

    def _run_handle(self, h):
        self.loop._ready.remove(h)
        h._run()

    def settle_internal(self):
        n = 0
        while True:
            internal, _ = self.ready()
            if not internal:
                return
            self._run_handle(internal[0])
            n += 1
            if n > 1000:
                raise Infra('internal callbacks do not settle')

    def enabled(self):
        self.settle_internal()
        return sorted(self.ready()[1], key=lambda n: (n[0], int(n[1:])))

    def options(self):
        """All decisions possible now."""
        opts = ['s' + n[1:] if n[0] == 'c' else n for n in self.enabled()]
        return opts

    def idle_close_options(self):
        """Peer closes of connections that sit idle (alive) in a pool."""
        out = []
        for key, p in self.pool._host_pools.items():
            for c in p.ready:
                if self.peer_open(c):
                    out.append('q%d-%d' % self.cid_of(c))
        return sorted(out)

    def fault_options(self):
        out = []
        for i, t in enumerate(self.tasks):
            if not t.done():
                out.append('x%d' % i)
        for cid, w in sorted(self.conn_objs.items()):
            if self.peer_open(w):
                out.append('q%d-%d' % cid)
        return out

    def decide(self, d):
        """Apply one decision; returns the resolved decision string."""
        self.events = []
        self.popped = []
        self._fail_next_connect = False
        kind = d[0]
        if kind in 'sr':
            name = ('c' + d[1:]) if kind == 's' else d
            _, tasks = self.ready()
            h = tasks.get(name)
            if h is None:
                raise KeyError('task %s is not ready' % name)
            self._run_handle(h)
        elif kind == 'x':
            self.tasks[int(d[1:])].cancel()
        elif kind == 'q':
            k, n = d[1:].split('-')
            w = self.conn_objs[(int(k), int(n))]
            fc = self.net_conn_of(w._active_connection)
            if fc is not None:
                fc.close()          # the peer closes: EOF on the real StreamReader -> real Connection.closed()
            self.dirty.add((int(k), int(n)))
        else:
            raise Infra('bad decision %r' % d)
        self.settle_internal()
        ndone = sum(1 for t in self.rel_tasks if t.done() and not t.cancelled() and t.exception() is None)
        if ndone != self._rel_done_seen:
            # a deferred check-in (ConnectionPool.release) has completed: whatever died before should be swept
            self._rel_done_seen = ndone
            self.dirty.clear()
        res = d
        if self.popped:
            res += ':p' + ','.join(str(j) for j in self.popped)
        for e in self.events:
            if e[0] == 'G':
                res += ':g' + e.split(',')[1]
        self.log.append(res)
        st = ','.join(self.events) + ';' + self.render()
        self.states.append(st)
        self.check_oracle(res)
        return res

    # ---- state rendering (must equal the model's `render`)
    def task_status(self, t):
        if t.done():
            return 'X' if t.cancelled() else ('F' if t.exception() is None else 'E')
        return 'P'

    def render(self):
        pool = self.pool
        parts = []
        hp = pool._host_pools
        hw = pool._host_pool_waiters
        hosts = []
        for key, p in hp.items():
            k = self.key_index(key)
            ready = sorted(self.cid_of(c)[1] for c in p.ready)
            busy = sorted(self.cid_of(c)[1] for c in p.busy)
            cond = []
            for fut in p._condition._waiters:
                owner = self.fut_owner(fut)
                cond.append('%s%s' % (owner, '~' if fut.cancelled() else ('!' if fut.done() else '')))
            lockw = len(p._lock._waiters) if p._lock._waiters else 0
            hosts.append('%d:%s:%s:%s:%s:%s%d' % (k, '.'.join(map(str, ready)) or '-', '.'.join(map(str, busy)) or '-',
                                                 '.'.join(cond) or '-', hw.get(key, '?'),
                                                 'L' if p._lock.locked() else 'U', lockw))
        if set(hp) != set(hw):
            hosts.append('KEYSETS-DIFFER')
        parts.append('H=' + ('/'.join(hosts) or '-'))
        pl = pool._host_pools_lock
        parts.append('P=%s%d' % ('L' if pl.locked() else 'U', len(pl._waiters) if pl._waiters else 0))
        parts.append('T=' + ''.join(self.task_status(t) for t in self.tasks))
        parts.append('R=' + (''.join(self.task_status(t) for t in self.rel_tasks) or '-'))
        parts.append('S=' + ('.'.join(str(j) for j in sorted(self.rel_ids[t] for t in pool._release_tasks)) or '-'))
        conns = []
        for cid, w in sorted(self.conn_objs.items()):
            conns.append('%d-%d%s' % (cid[0], cid[1], 'c' if w.closed() else 'o'))
        parts.append('C=' + ('.'.join(conns) or '-'))
        parts.append('E=' + ('.'.join(self.options()) or '-'))
        return ' '.join(parts).replace(' ', '|')

    def key_index(self, key):
        host = key[0]
        return int(host[1:].split('.')[0])

    def fut_owner(self, fut):
        for i, t in enumerate(self.tasks):
            if t._fut_waiter is fut:
                return str(i)
        return '?'

    # ---- direct oracle on the real objects (independent of the model)
    def check_oracle(self, where):
        pool = self.pool
        for key, p in pool._host_pools.items():
            if len(p.busy) > self.M:
                self.oracle.append(('over-allocated', 'HostPool.acquire',
                                    '%d connections checked out for %s, limit %d (after %s)' % (len(p.busy), key, self.M, where)))
            if p.ready & p.busy:
                self.oracle.append(('shared', 'HostPool.release', 'a connection is both ready and busy for %s' % (key,)))

    def final_oracle(self):
        """Called when nothing is ready any more."""
        pool = self.pool
        for i, t in enumerate(self.tasks):
            if t.done() and not t.cancelled() and t.exception() is not None:
                self.oracle.append(('error', 'client-exception', 'client %d ended with %r' % (i, t.exception())))
        unfinished = [i for i, t in enumerate(self.tasks) if not t.done()]
        rel_unfinished = [j for j, t in enumerate(self.rel_tasks) if not t.done()]
        if unfinished or rel_unfinished:
            detail = 'loop is dry, clients %s / release tasks %s never finish; ' % (unfinished, rel_unfinished) + self.render()
            cancels = any(d[0] == 'x' for d in self.log)
            self.oracle.append(('deadlock', 'cancelled-waiter' if cancels else 'no-cancel', detail))
            return
        for t in self.rel_tasks:
            if t.cancelled() or t.exception() is not None:
                self.oracle.append(('leak', 'release-task-failed', 'a release task ended with %r' % (
                    'cancelled' if t.cancelled() else t.exception(),)))
        for key, p in pool._host_pools.items():
            if p.busy:
                self.oracle.append(('leak', 'busy-after-finish', '%d connections still checked out for %s; %s' % (len(p.busy), key, self.render())))
            if pool._host_pool_waiters.get(key):
                self.oracle.append(('leak', 'waiter-count', 'waiter count %s for %s after all clients finished; %s' % (
                    pool._host_pool_waiters.get(key), key, self.render())))
            if not p.ready and not p.busy and not pool._host_pool_waiters.get(key):
                self.oracle.append(('leak', 'idle-host-kept', 'host pool %s kept with no connection and no waiter; %s' % (key, self.render())))
            if p._lock.locked():
                self.oracle.append(('leak', 'lock-held', 'host pool lock of %s still held; %s' % (key, self.render())))
            # idle host = host without a live connection: a dead idle connection may only be one the peer closed
            # after the last completed check-in (every check-in sweeps all hosts)
            stale = sorted(self.cid_of(c) for c in p.ready if not self.peer_open(c) and self.cid_of(c) not in self.dirty)
            if stale:
                self.oracle.append(('leak', 'dead-idle-kept',
                                    'host pool %s kept with dead idle connection(s) %s that died before the last check-in '
                                    '(count()=%d); %s' % (key, stale, pool.count(), self.render())))
        live = sum(1 for p in pool._host_pools.values() for c in p.ready if self.peer_open(c))
        recent = sum(1 for p in pool._host_pools.values() for c in p.ready if not self.peer_open(c) and self.cid_of(c) in self.dirty)
        busy = sum(len(p.busy) for p in pool._host_pools.values())
        if pool.count() != live + recent + busy:
            self.oracle.append(('leak', 'count', 'count()=%d but %d live idle (+%d just closed by the peer, %d busy); %s'
                                % (pool.count(), live, recent, busy, self.render())))
        if pool._host_pools_lock.locked():
            self.oracle.append(('leak', 'lock-held', 'host pools lock still held'))


# --------------------------------------------------------------------------
# cases
# --------------------------------------------------------------------------
def enc_case(case, log):
    progs = '/'.join('.'.join('%d,%d,%d' % tuple(r) for r in p) or '-' for p in case['programs'])
    nkeys = 1 + max([r[0] for p in case['programs'] for r in p] or [0])
    return 'pool run %d %d %d %s %s' % (case['M'], case.get('max_count', 100), nkeys, progs, '/'.join(log) or '-')


def bare(d):
    return d.split(':')[0]


class Outcome:
    pass


def execute(case, chooser, max_steps=400):
    """Run the real pool.  chooser(run, step_options, fault_options) -> decision or None (stop)."""
    run = RealRun(case)
    out = Outcome()
    try:
        out.init_state = ';' + run.render()
        n = 0
        while n < max_steps:
            opts = run.options()
            d = chooser(run, opts, run.fault_options())
            if d is None:
                break
            try:
                run.decide(d)
            except KeyError:
                break          # replayed decision not possible on this tree: stop here
            n += 1
        out.dry = not run.options()
        if out.dry:
            run.final_oracle()
        out.log = list(run.log)
        out.states = [out.init_state] + list(run.states)
        out.oracle = list(run.oracle)
        out.truncated = n >= max_steps
    finally:
        run.close()
    return out


def scripted(decisions):
    it = iter(decisions)

    def chooser(run, opts, faults):
        for d in it:
            return bare(d)
        return None
    return chooser


def then_finish(decisions):
    """Follow `decisions`, then keep running the first ready task until the loop is dry."""
    it = iter(decisions)

    def chooser(run, opts, faults):
        for d in it:
            return bare(d)
        return opts[0] if opts else None
    return chooser


def random_chooser(rng, fault_rate, cancel_share=0.6):
    def chooser(run, opts, faults):
        if faults and rng.random() < fault_rate:
            xs = [f for f in faults if f[0] == 'x']
            qs = [f for f in faults if f[0] == 'q']
            pick = xs if (xs and (not qs or rng.random() < cancel_share)) else qs
            if pick:
                return rng.choice(pick)
        if not opts:
            return None
        return rng.choice(opts)
    return chooser


def idle_close_chooser(rng, rate):
    """No cancellations; the peer closes idle pooled connections (alive, not checked out) at `rate`."""
    def chooser(run, opts, faults):
        if not opts:
            return None
        if rng.random() < rate:
            idle = run.idle_close_options()
            if idle:
                return rng.choice(idle)
        return rng.choice(opts)
    return chooser


def gen_keepalive_case(rng):
    """Several host keys, mostly keep-alive check-ins: the shape in which only the sweep of *other* hosts on every
    check-in removes connections that died while idle."""
    h = rng.randint(2, 3)
    progs = []
    for _ in range(rng.randint(2, 5)):
        progs.append([(rng.randrange(h), 1 if rng.random() < 0.1 else 0, 1 if rng.random() < 0.25 else 0)
                      for _ in range(rng.choice([1, 2, 2, 3]))])
    return {'M': rng.randint(1, 2), 'max_count': 100, 'programs': progs}


def gen_case(rng, nmax=5, hmax=2, mmax=2):
    n = rng.randint(1, nmax)
    h = rng.randint(1, hmax)
    m = rng.randint(1, mmax) if rng.random() < 0.9 else 3
    progs = []
    for _ in range(n):
        rounds = []
        for _ in range(rng.choice([1, 1, 1, 2, 2, 3])):
            rounds.append((rng.randrange(h) if rng.random() < 0.8 else 0,
                           1 if rng.random() < 0.35 else 0, 1 if rng.random() < 0.25 else 0))
        progs.append(rounds)
    mc = 100 if rng.random() < 0.8 else rng.randint(0, 3)
    return {'M': m, 'max_count': mc, 'programs': progs}


def judge(ctx, case, out, model_reply, tags=()):
    """Compare one executed case with the model's replay; report oracle failures."""
    full = dict(case)
    full['schedule'] = [bare(d) for d in out.log]
    full['resolved'] = out.log
    waited = any(_has_waiter(st) for st in out.states)
    faults = [d for d in out.log if d[0] in 'xq']
    t = list(tags)
    t.append('waited' if waited else 'no-wait')
    if any(d[0] == 'x' for d in faults):
        t.append('cancel')
    if any(d[0] == 'q' for d in faults):
        t.append('remote-close')
    if any(':p' in d for d in out.log):
        t.append('drain')
    if not out.dry:
        t.append('stopped-early')
    t.append('N=%d' % len(case['programs']))
    t.append('M=%d' % case['M'])
    ctx.case((case['M'], case.get('max_count', 100), tuple(map(tuple, case['programs'])), tuple(out.log)),
             nontrivial=waited or bool(faults) or 'drain' in t, tags=t)
    if not model_reply.startswith('ok '):
        ctx.disagree('cosim', full, model_reply, 'driver refused the request')
    else:
        mstates = model_reply[3:].split('#')
        for i, real in enumerate(out.states):
            ms = mstates[i] if i < len(mstates) else '(missing)'
            if ms != real:
                ctx.disagree('cosim', full, {'step': i, 'decision': out.log[i - 1] if i else 'init', 'state': ms},
                             {'step': i, 'state': real})
                break
    for (kind, where, detail) in out.oracle:
        ctx.fail(kind, where, full, detail)
    return full


def _has_waiter(st):
    try:
        hosts = st.split(';', 1)[1].split('|')[0][2:]
    except IndexError:
        return False
    for h in hosts.split('/'):
        f = h.split(':')
        if len(f) >= 4 and f[3] != '-':
            return True
    return False


def run_batch(ctx, items, tags=()):
    """items: list of (case, chooser)."""
    outs = []
    for case, chooser in items:
        outs.append((case, execute(case, chooser)))
    replies = ctx.model.ask([enc_case(c, o.log) for c, o in outs])
    fulls = []
    for (case, out), rep in zip(outs, replies):
        fulls.append(judge(ctx, case, out, rep, tags))
    return fulls


# ---- lost wake-up oracle on the real objects (added to RealRun.check_oracle)
def _lost_wakeup(self, where):
    # only judged when no pool-internal activity is under way: every release task has run and no client
    # inside acquire()/release() is ready to continue (a woken or cancelled waiter counts as activity)
    if any(not t.done() for t in self.rel_tasks):
        return
    ready_names = set(self.ready()[1])
    for i, st in enumerate(self.cstate):
        if st in ('acquiring', 'releasing') and ('c%d' % i) in ready_names:
            return
    for key, p in self.pool._host_pools.items():
        live = notified = 0
        for fut in p._condition._waiters:
            if fut.cancelled():
                continue
            if fut.done():
                notified += 1
            else:
                live += 1
        free = self.M - len(p.busy)
        if live and free > notified:
            self.oracle.append(('lost-wakeup', 'HostPool', '%d clients wait on %s with %d free slots and only %d woken (after %s); %s'
                                % (live, key, free, notified, where, self.render())))


_orig_check = RealRun.check_oracle


def _check(self, where):
    _orig_check(self, where)
    _lost_wakeup(self, where)


RealRun.check_oracle = _check


# ---- exhaustive enumeration by stateless DFS (every leaf = one full real run)
def enumerate_all(ctx, case, max_cancels, max_leaves, tags, max_idle_closes=0):
    """All interleavings of the task steps of `case` (+ up to max_cancels cancellations at every point)."""
    stack = [[]]
    leaves = 0
    complete = True
    batch = []
    while stack:
        prefix = stack.pop()
        record = []

        def chooser(run, opts, faults, prefix=prefix, record=record):
            i = len(run.log)
            if i < len(prefix):
                return prefix[i]
            used = sum(1 for d in run.log if d[0] == 'x')
            choices = list(opts)
            if used < max_cancels:
                choices += [f for f in faults if f[0] == 'x' and not run.creq_pending(int(f[1:]))]
            if opts and sum(1 for d in run.log if d[0] == 'q') < max_idle_closes:
                choices += run.idle_close_options()
            if not opts:
                return None        # the loop is dry: a leaf
            record.append((i, choices))
            return choices[0]
        out = execute(case, chooser)
        leaves += 1
        batch.append((case, out))
        taken = [bare(d) for d in out.log]
        for (i, choices) in record:
            for alt in choices[1:]:
                stack.append(taken[:i] + [alt])
        if len(batch) >= 400:
            _flush(ctx, batch, tags)
            batch = []
        if leaves >= max_leaves:
            complete = not stack
            break
    _flush(ctx, batch, tags)
    return leaves, complete


def _flush(ctx, batch, tags):
    if not batch:
        return
    replies = ctx.model.ask([enc_case(c, o.log) for c, o in batch])
    for (case, out), rep in zip(batch, replies):
        judge(ctx, case, out, rep, tags)


def _creq_pending(self, i):
    t = self.tasks[i]
    return bool(getattr(t, '_must_cancel', False)) or (t._fut_waiter is not None and t._fut_waiter.cancelled())


RealRun.creq_pending = _creq_pending


# --------------------------------------------------------------------------
# entry points
# --------------------------------------------------------------------------
def load_corpus(ctx):
    from runner import unjson
    out = []
    for p in sorted(glob.glob(os.path.join(ctx.verif, 'harness', 'corpus', 'C12', '*.json'))):
        with open(p) as f:
            out.append(unjson(json.load(f)))
    return out


def norm_case(case):
    c = {'M': int(case['M']), 'max_count': int(case.get('max_count', 100)),
         'programs': [[tuple(int(x) for x in r) for r in p] for p in case['programs']]}
    return c, [bare(d) for d in case.get('schedule', [])]


def replay(ctx, case, kind=None, where=None):
    if case.get('stream') in ('session', 'proxy'):
        import c12_sessions
        c12_sessions.check(ctx, case)
        return
    c, schedule = norm_case(case)
    run_batch(ctx, [(c, then_finish(schedule))], tags=['replay'])


def run(ctx):
    thorough = ctx.tier == 'thorough'
    for item in load_corpus(ctx):
        replay(ctx, item['case'] if 'case' in item else item)
    rng = ctx.rng
    # the pool's real callers (no model): WebSession / http Session over the pool, and the HTTP proxy pool
    import c12_sessions
    frng = ctx.subrng('front')
    for stream in ('session', 'proxy'):
        for i in range(ctx.scale(250, 4000)):
            fc = c12_sessions.gen_case(frng, stream)
            c12_sessions.check(ctx, fc)
            if i == 0:
                ctx.sample(fc)
        # the same with failing listeners on the session event dispatchers (what a full disk does to the WARC
        # recorder, or a plugin bug), sessions left early, refused connections and failing CONNECT tunnels
        for i in range(ctx.scale(350, 5000)):
            c12_sessions.check(ctx, c12_sessions.gen_case(frng, stream, faults=True))
    # sampled schedules
    items = []
    for i in range(ctx.scale(5000, 60000)):
        case = gen_case(rng, nmax=5 if i % 10 else 7, hmax=2 if i % 10 else 3)
        fr = rng.choice([0.0, 0.0, 0.08, 0.15, 0.3])
        items.append((case, random_chooser(random_sub(rng), fr)))
        if len(items) >= 500:
            fulls = run_batch(ctx, items, tags=['sampled'])
            if fulls:
                ctx.sample({'M': fulls[0]['M'], 'programs': fulls[0]['programs'], 'resolved_schedule': fulls[0]['resolved']})
            items = []
    fulls = run_batch(ctx, items, tags=['sampled'])
    if fulls:
        ctx.sample({'M': fulls[0]['M'], 'programs': fulls[0]['programs'], 'resolved_schedule': fulls[0]['resolved']})
    # peer closes of idle pooled connections between keep-alive check-ins over several hosts
    items = []
    for i in range(ctx.scale(1200, 12000)):
        items.append((gen_keepalive_case(rng), idle_close_chooser(random_sub(rng), rng.choice([0.1, 0.2, 0.35]))))
        if len(items) >= 500:
            run_batch(ctx, items, tags=['idle-close'])
            items = []
    run_batch(ctx, items, tags=['idle-close'])
    # exhaustive interleavings of tiny configurations
    tiny = [
        ({'M': 1, 'max_count': 100, 'programs': [[(0, 0, 0)], [(0, 0, 0)]]}, 1),
        ({'M': 1, 'max_count': 100, 'programs': [[(0, 1, 0)], [(0, 0, 1)]]}, 1),
        ({'M': 1, 'max_count': 100, 'programs': [[(0, 0, 0), (0, 0, 0)], [(0, 1, 0)]]}, 0),
    ]
    if thorough:
        tiny += [
            ({'M': 1, 'max_count': 100, 'programs': [[(0, 0, 0)], [(0, 0, 0)], [(0, 0, 0)]]}, 1),
            ({'M': 1, 'max_count': 100, 'programs': [[(0, 0, 0)], [(0, 1, 0)], [(0, 0, 1)]]}, 0),
            ({'M': 2, 'max_count': 100, 'programs': [[(0, 0, 0)], [(0, 1, 0)], [(0, 0, 0)]]}, 1),
            ({'M': 1, 'max_count': 100, 'programs': [[(0, 0, 0)], [(1, 0, 0)], [(0, 1, 0)]]}, 0),
            ({'M': 1, 'max_count': 100, 'programs': [[(0, 0, 0), (1, 0, 0)], [(1, 0, 0), (0, 0, 0)]]}, 1),
            ({'M': 1, 'max_count': 0, 'programs': [[(0, 0, 0)], [(0, 0, 0)], [(1, 0, 1)]]}, 0),
            ({'M': 1, 'max_count': 100, 'programs': [[(0, 0, 0)], [(0, 0, 0)]]}, 2),
            ({'M': 2, 'max_count': 100, 'programs': [[(0, 0, 0)], [(0, 0, 0)], [(0, 1, 0)], [(0, 0, 1)]]}, 0),
            ({'M': 1, 'max_count': 100, 'programs': [[(0, 0, 0)], [(0, 1, 0)], [(0, 0, 1)]]}, 1),
            ({'M': 1, 'max_count': 100, 'programs': [[(0, 1, 0), (0, 0, 0)], [(0, 0, 0)]]}, 2),
        ]
    # two host keys, every placement of one (thorough: two) peer close(s) of an idle pooled connection
    tiny_idle = [({'M': 1, 'max_count': 100, 'programs': [[(0, 0, 0)], [(1, 0, 0)]]}, 0, 1)]
    if thorough:
        tiny_idle += [({'M': 1, 'max_count': 100, 'programs': [[(0, 0, 0)], [(1, 0, 0), (1, 0, 1)]]}, 0, 2),
                      ({'M': 2, 'max_count': 100, 'programs': [[(0, 0, 0)], [(1, 0, 0)], [(0, 0, 1)]]}, 0, 1),
                      ({'M': 1, 'max_count': 100, 'programs': [[(0, 0, 0)], [(1, 0, 0)]]}, 1, 1)]
    total, all_complete = 0, True
    for case, ncancel, nidle in [(c, n, 0) for c, n in tiny] + tiny_idle:
        leaves, complete = enumerate_all(ctx, case, ncancel, ctx.scale(1500, 60000), tags=['exhaustive'],
                                         max_idle_closes=nidle)
        total += leaves
        all_complete = all_complete and complete
    ctx.exhaustive = all_complete
    ctx.note('exhaustive', {'configurations': len(tiny) + len(tiny_idle), 'interleavings': total, 'all_enumerated': all_complete,
                            'what': 'every order of task steps (and, where listed, every placement of up to k task.cancel() calls / peer closes of idle pooled connections) '
                                    'of the tiny configurations, each run on the real pool and replayed by the model'})
    ctx.note('granularity', 'per-step: after every decision the complete real pool state (host pools, ready, busy, condition '
                            'waiters with notified/cancelled marks, waiter counts, lock states, task states, release-task set, '
                            'connection closed flags, set of ready tasks) equals the model state')


def random_sub(rng):
    import random
    return random.Random(rng.getrandbits(64))


def search(ctx):
    import c12_sessions
    frng = ctx.subrng('front-search')
    for stream in ('session', 'proxy'):
        for i in range(ctx.scale(100, 400)):
            c12_sessions.check(ctx, c12_sessions.gen_case(frng, stream))
            c12_sessions.check(ctx, c12_sessions.gen_case(frng, stream, faults=True))
    rng = ctx.subrng('search')
    items = []
    for i in range(ctx.scale(300, 1500)):
        case = gen_case(rng, nmax=4, hmax=2, mmax=2)
        items.append((case, random_chooser(random_sub(rng), rng.choice([0.1, 0.2, 0.35]))))
    run_batch(ctx, items, tags=['search'])
    for case, ncancel in [({'M': 1, 'max_count': 100, 'programs': [[(0, 0, 0)], [(0, 0, 0)], [(0, 0, 0)]]}, 1)]:
        enumerate_all(ctx, case, ncancel, 4000, tags=['search-exhaustive'])
