"""C03 — A killed crawl resumes from its database without loss or refetch.

The REAL application runs in a child process (on-disk SQLite table) and is
killed (`os._exit`, nothing runs afterwards: no finally, no atexit, no commit)
at every enumerated point: right after the k-th URL-table transaction, right
before the k-th database commit, and on arrival of the k-th request at the
server.  The same command is then run again to completion.  Both runs log every
table call and every request as it happens.

Tie: the concatenated trace  run1 ; crash ; restart ; run2  must be accepted by
the Lean model `Wpull.Crawl` (same hand-outs, inserted URLs, final table).
Oracle (independent of the model): nothing done before the kill is requested
again; after the rerun nothing is pending or in progress; the two runs
together request everything an uninterrupted crawl requests.
"""
import glob
import json
import os
import shutil
import tempfile

import compat  # noqa: F401
import crawl_common as cc
from runner import unjson

RULE = ('per site: one uninterrupted run to count the kill points, then one killed run + one rerun for EVERY table '
        'transaction (kill right after), EVERY commit (kill right before) and EVERY request arrival; sites 3-7 pages with '
        'cycles, re-spelled links, redirects, images; level-free options; 1-3 workers; one case = one (site, kill point); '
        'non-trivial = the kill struck before the crawl was complete; distinct by (site, options, workers, seed, kill point)')
TRUSTED = ['a committed SQLite (WAL) transaction survives the death of the process (no power-loss model)',
           'os._exit in the child stands for SIGKILL: nothing of the process runs afterwards',
           'harness/appsim.py deterministic replay: the killed run repeats the uninterrupted run up to the kill point']
ASSUMPTIONS = ['level-free scope options in the completeness oracle (depth limits are covered by the C01 finding)',
               'URLs added by coprocessors after the status write are outside the model (none are enabled)']
UNPROVED = []


RUN_LIMIT = 150      # seconds of wall clock per run


def _child(site_desc, opts, conc, seed, workdir, logpath, kill, run_index=0):
    """Runs in a forked child. kill = None | ('table', k) | ('commit', k) | ('request', k) | ('sigterm', k): the
    application's own SIGTERM handler is run when the k-th request arrives."""
    fd = os.open(logpath, os.O_WRONLY | os.O_CREAT | os.O_APPEND, 0o644)
    if opts.get('same_pid'):
        # both runs see themselves as process 1 (wpull as the only process of a restarted container): whatever a run
        # leaves behind under its own process id must not make the rerun take itself for the owner that is still alive
        os.getpid = lambda: 1
    counters = {'table': 0, 'commit': 0, 'request': 0, 'statement': 0}

    def sink(ev):
        os.write(fd, (json.dumps(ev) + '\n').encode())
        if ev['op'] != 'fetch':
            counters['table'] += 1
            if kill and kill[0] == 'table' and counters['table'] == kill[1]:
                os._exit(77)

    def on_request(entry):
        os.write(fd, (json.dumps({'op': 'server-request', 'url': 'http://%s%s' % (entry['host'], entry['target'])}) + '\n').encode())
        counters['request'] += 1
        if kill and kill[0] == 'request' and counters['request'] == kill[1]:
            os._exit(77)
        if kill and kill[0] == 'sigterm' and counters['request'] == kill[1]:
            term['fire']()

    term = {}

    def on_app(app, builder):
        # SIGTERM (or a second Ctrl+C) while requests are in flight: the application's OWN handler runs, as the
        # event loop would call it, and the process is gone when that handler has stopped the loop
        import asyncio
        import signal
        loop = asyncio.get_event_loop()
        handlers = {}
        loop.add_signal_handler = lambda sig, cb, *a: handlers.__setitem__(sig, cb)
        app.setup_signal_handlers()
        loop.stop = lambda: os._exit(77)
        term['fire'] = lambda: loop.call_soon(handlers[signal.SIGTERM])

    import sqlalchemy.event
    from sqlalchemy.engine import Engine

    def before_commit(conn):
        counters['commit'] += 1
        if kill and kill[0] == 'commit' and counters['commit'] == kill[1]:
            os._exit(77)
    sqlalchemy.event.listen(Engine, 'commit', before_commit)

    def before_statement(conn, cursor, statement, parameters, context, executemany):
        # every statement the table sends, schema statements included (each CREATE TABLE / CREATE INDEX of the start-up
        # is a transaction of its own on SQLite: a kill can fall between two of them)
        counters['statement'] = counters.get('statement', 0) + 1
        if kill and kill[0] == 'statement' and counters['statement'] == kill[1]:
            os._exit(77)
    sqlalchemy.event.listen(Engine, 'before_cursor_execute', before_statement)
    site = cc.Site.from_desc(site_desc)
    rc = 3
    try:
        res, _ = cc.run_real(site, opts, seed, conc, workdir=workdir, db=os.path.join(workdir, 'crawl.db'),
                             event_sink=sink, on_request=on_request, start_urls=site.start_urls() if site.inputs else None,
                             run_index=run_index, on_app=on_app if kill and kill[0] == 'sigterm' else None,
                             max_steps=400000)      # (a crawl of these sites takes a few ten thousand loop steps: one that goes on and on is cut and reported)
        os.write(fd, (json.dumps({'op': 'exit', 'exit_code': res.exit_code, 'hung': res.hung, 'error': res.error,
                                  'counters': counters}) + '\n').encode())
        rc = 0
    except BaseException as e:  # noqa
        os.write(fd, (json.dumps({'op': 'exit', 'exit_code': None, 'hung': False,
                                  'error': '%s: %s' % (type(e).__name__, e), 'counters': counters}) + '\n').encode())
        rc = 4
    os._exit(rc)


def spawn(site_desc, opts, conc, seed, workdir, logpath, kill, run_index=0):
    pid = os.fork()
    if pid == 0:
        try:
            devnull = os.open(os.devnull, os.O_WRONLY)
            os.dup2(devnull, 2)
            _child(site_desc, opts, conc, seed, workdir, logpath, kill, run_index)
        finally:
            os._exit(5)
    # a run of these sites takes seconds; one that is still going after minutes (a crawl that has become endless) is
    # ended and reported by its exit code (-9) instead of holding the whole check up
    import time
    deadline = time.time() + RUN_LIMIT
    while True:
        done, status = os.waitpid(pid, os.WNOHANG)
        if done:
            return os.waitstatus_to_exitcode(status)
        if time.time() > deadline:
            os.kill(pid, 9)
            os.waitpid(pid, 0)
            return -9
        time.sleep(0.02)


def read_log(path):
    out = []
    if os.path.exists(path):
        with open(path) as f:
            for line in f:
                line = line.strip()
                if line:
                    try:
                        out.append(json.loads(line))
                    except ValueError:
                        pass        # torn last line of a killed writer
    return out


def read_rows_of_copy(wd):
    """What the database holds after the kill, read from a COPY of its files: opening (and closing) the
    original would checkpoint the write-ahead log and hand the rerun a tidier database than a crash leaves."""
    if not os.path.exists(os.path.join(wd, 'crawl.db')):
        return []
    cp = tempfile.mkdtemp(prefix='wpull-verif-c03-copy-')
    try:
        for n in os.listdir(wd):
            if n.startswith('crawl.db'):
                shutil.copy2(os.path.join(wd, n), os.path.join(cp, n))
        return cc.appsim.read_rows(os.path.join(cp, 'crawl.db'))
    finally:
        shutil.rmtree(cp, ignore_errors=True)


def one_kill(args):
    """Worker: killed run + rerun for one kill point. Returns a result dict."""
    site_desc, opts, conc, seed, kill = args
    wd = tempfile.mkdtemp(prefix='wpull-verif-c03-')
    try:
        log1 = os.path.join(wd, 'run1.log')
        log2 = os.path.join(wd, 'run2.log')
        rc1 = spawn(site_desc, opts, conc, seed, wd, log1, kill)
        rows_after_kill = read_rows_of_copy(wd)
        rc2 = spawn(site_desc, opts, conc, seed + 1, wd, log2, None, run_index=1)
        rows_final = cc.appsim.read_rows(os.path.join(wd, 'crawl.db')) if os.path.exists(os.path.join(wd, 'crawl.db')) else []
        ev1, ev2 = read_log(log1), read_log(log2)
    finally:
        shutil.rmtree(wd, ignore_errors=True)
    site = cc.Site.from_desc(site_desc)
    ref = cc.RefCrawl(site, opts)
    ref2 = cc.RefCrawl(site, opts, run_index=1)      # the rerun: a server-side outage ('flaky' pages) is over
    ids = cc.Ids()
    start = [cc.norm(u, '') or u for u in site.start_urls()]       # the table stores the normal form of what the user typed
    t1 = [e for e in ev1 if e['op'] not in ('server-request', 'exit')]
    t2 = [e for e in ev2 if e['op'] not in ('server-request', 'exit')]
    killed = rc1 == 77
    line = None
    if killed and not site.inputs:      # (a long input list is committed in several batches: start-up is one step in the model)
        e1, b1, _ = cc.trace_to_events(t1, ids, ref, True)
        e2, b2, _ = cc.trace_to_events(t2, ids, ref2, False)
        b = dict(b1)
        b.update(b2)
        # a row handed out in both runs (same record and try count) was not finished by the killed run: what the
        # rerun did with it is the visit that counts (an outage may be over: 'flaky' pages)
        visits = cc.build_visits(t2, ids, ref2, b)
        keys = {v.split(':', 1)[0] for v in visits}
        visits += [v for v in cc.build_visits(t1, ids, ref, b) if v.split(':', 1)[0] not in keys]
        evs = e1 + ['c'] + e2
        line = 'crawl accept %d %s %s %s' % (conc + 2, cc.enc([ids(u) for u in start]), ';'.join(visits) or '~', ';'.join(evs) or '~')
    return {'kill': kill, 'rc1': rc1, 'rc2': rc2, 'killed': killed, 'line': line,
            'rows_after_kill': rows_after_kill, 'rows_final': rows_final, 'rows_canon': cc.rows_canon(rows_final, ids),
            'req1': [e['url'] for e in ev1 if e['op'] == 'server-request'],
            'req2': [e['url'] for e in ev2 if e['op'] == 'server-request'],
            'exit2': next((e for e in ev2 if e['op'] == 'exit'), None)}


def count_points(site_desc, opts, conc, seed):
    wd = tempfile.mkdtemp(prefix='wpull-verif-c03-')
    try:
        log = os.path.join(wd, 'run.log')
        rc = spawn(site_desc, opts, conc, seed, wd, log, None)
        ev = read_log(log)
    finally:
        shutil.rmtree(wd, ignore_errors=True)
    ex = next((e for e in ev if e['op'] == 'exit'), None)
    return rc, ex, [e['url'] for e in ev if e['op'] == 'server-request']


def judge(ctx, r, reply, case, site, opts, full_requests):
    kill = r['kill']
    tags = ['kill:' + kill[0], 'killed' if r['killed'] else 'completed-before-kill']
    ctx.case(json.dumps(case, sort_keys=True), nontrivial=r['killed'], tags=tags)
    if not r['killed']:
        return
    if reply is not None:
        if not reply.startswith('ok '):
            ctx.disagree('trace-acceptance', case, reply, 'run1 ; crash ; restart ; run2')
        elif reply.split(' ')[1] != r['rows_canon']:
            ctx.disagree('final-table', case, reply.split(' ')[1], r['rows_canon'])
    # ---- oracle
    ex = r['exit2']
    if r['rc2'] != 0 or ex is None or ex['hung'] or ex['error'] or ex['exit_code'] not in (0, 8):
        ctx.fail('resume-failed', 'rerun', case, 'rerun rc=%s exit=%s' % (r['rc2'], ex))
        return
    done_before = {x['url'] for x in r['rows_after_kill'] if x['status'] == 'done'}
    norm2 = [cc.norm(u, '') or u for u in r['req2']]
    redirect_targets = {cc.norm('http://%s%s' % (cc.HOST, p), d['location']) for p, d in site.pages.items()
                        if d['kind'] == 'redirect'}
    for u in norm2:
        if u in done_before and u not in redirect_targets:
            ctx.fail('refetch-of-done', 'rerun', case, '%s was done before the kill and is requested again' % u)
    stuck = [x for x in r['rows_final'] if x['status'] not in ('done', 'skipped')]
    if stuck:
        ctx.fail('stuck', 'table', case, 'rows not final after the rerun: %s' % stuck[:3])
    lost = {x['url'] for x in r['rows_after_kill']} - {x['url'] for x in r['rows_final']}
    if lost:
        ctx.fail('lost-row', 'table', case, 'rows recorded before the kill are gone: %s' % sorted(lost))
    union = {cc.norm(u, '') or u for u in r['req1']} | set(norm2)
    missing = {cc.norm(u, '') or u for u in full_requests} - union
    if missing:
        ctx.fail('lost-url', 'kill-window', case, 'requested by an uninterrupted crawl but by neither run: %s' % sorted(missing))


def explore_site(ctx, site, opts, conc, seed, stride=1, only=None):
    import concurrent.futures as cf
    import multiprocessing as mp
    desc = site.describe()
    rc, ex, full_requests = count_points(desc, opts, conc, seed)
    if rc != 0 or ex is None:
        ctx.fail('baseline-failed', 'crawl', {'site': desc, 'opts': opts, 'conc': conc, 'seed': seed}, 'uninterrupted run rc=%s' % rc)
        return
    c = ex['counters']
    points = [('table', k) for k in range(1, c['table'] + 1, stride)] + \
             [('commit', k) for k in range(1, c['commit'] + 1, stride)] + \
             [('request', k) for k in range(1, c['request'] + 1)] + \
             [('sigterm', k) for k in range(1, c['request'] + 1, 2)] + \
             [('statement', k) for k in range(1, min(c.get('statement', 0), 30) + 1)]
    if only:
        points = [kp for kp in points if only(kp)]
    args = [(desc, opts, conc, seed, kp) for kp in points]
    with cf.ProcessPoolExecutor(max_workers=min(ctx.jobs, max(1, len(args))), mp_context=mp.get_context('fork')) as exr:
        results = list(exr.map(one_kill, args))
    lines = [r['line'] for r in results if r['line']]
    replies = iter(ctx.model.ask(lines))
    for r in results:
        rep = next(replies) if r['line'] else None
        case = {'site': desc, 'opts': opts, 'conc': conc, 'seed': seed, 'kill': list(r['kill'])}
        judge(ctx, r, rep, case, site, opts, full_requests)
    ctx.tag('sites')
    ctx.sample({'site': desc, 'opts': opts, 'workers': conc, 'kill_points': len(points),
                'uninterrupted_requests': full_requests})
    return len(points)


def replay(ctx, case, kind=None, where=None):
    if case.get('stream') == 'ftp-order':
        return ftp_order_case(ctx, case)
    site = cc.Site.from_desc(case['site'])
    desc = site.describe()
    rc, ex, full_requests = count_points(desc, case['opts'], case['conc'], case['seed'])
    r = one_kill((desc, case['opts'], case['conc'], case['seed'], tuple(case['kill'])))
    rep = ctx.model.ask([r['line']])[0] if r['line'] else None
    judge(ctx, r, rep, case, site, case['opts'], full_requests)


def load_corpus(ctx):
    out = []
    for p in sorted(glob.glob(os.path.join(ctx.verif, 'harness', 'corpus', 'C03', '*.json'))):
        with open(p) as f:
            out.append(unjson(json.load(f)))
    return out


def run(ctx):
    for case in load_corpus(ctx):
        replay(ctx, case)
    rng = ctx.rng
    nsites = ctx.scale(4, 40)
    total = 0
    for i in range(nsites):
        site = cc.gen_site(rng, size=rng.randint(3, 6), offsite=False)
        opts = cc.gen_options(rng, levelfree=True)
        # the dimensions that matter across a kill rotate, so that every run (also the 4 sites of the quick tier) has each:
        # -N (the rerun finds files the killed run saved), a try count carried across the kill, an outage that is over
        # by the rerun ('flaky': 500 in the killed run, 200 afterwards)
        plan = i % 4
        opts['timestamping'] = plan == 0 or rng.random() < 0.15
        opts['database_uri'] = plan == 3 or rng.random() < 0.1        # --database-uri sqlite:///FILE instead of --database FILE
        opts['warc_dedup'] = (plan == 2 or rng.random() < 0.1) and not opts['timestamping']   # start-up loads a CDX index again on the rerun
        opts['tries'] = 1 if plan == 2 else rng.choice([2, 2, 3])
        # the command as typed in the run's directory: relative --database and -P, the output directory made by the
        # first run (the same command must find the same database the second time)
        opts['relative_paths'] = (plan == 1 or rng.random() < 0.2) and not opts['database_uri']
        opts['same_pid'] = plan == 0 or rng.random() < 0.2
        # -k: the table also holds the queue of saved files; the pipeline that converts them runs after the downloads,
        # so the commits of the last stretch of the run (kill points like all others) fall into it
        opts['convert_links'] = plan == 3 or rng.random() < 0.2
        if plan == 2 or rng.random() < 0.15:
            # a download that does not recurse but takes the page's requisites (-p without -r): after the start page
            # is done the table holds only requisites; a kill then, and the rerun has no start URL left to do
            opts['recursive'] = False
            opts['page_requisites'] = True
            root = site.pages[site.start]
            if root.get('kind') == 'html':
                for k in range(2):
                    site.pages['/req%d.png' % k] = {'kind': 'leaf', 'ctype': 'image/png'}
                    root['links'].append(('/req%d.png' % k, True))
        leaves = [p for p, d in site.pages.items() if d['kind'] == 'leaf']
        if leaves and (plan == 1 or rng.random() < 0.25):
            site.pages[rng.choice(leaves)] = {'kind': 'flaky'}
        conc = rng.choice([1, 2, 3])
        total += explore_site(ctx, site, opts, conc, rng.randrange(1 << 30)) or 0
    # a long input list (committed in batches of 1000 at start-up), one early input on a second host: a kill between
    # two batches, and the rerun must still know every host the user named
    explore_site(ctx, big_input_site(), {'recursive': False, 'level': None, 'page_requisites': False, 'no_parent': False,
                                         'accept_regex': None, 'reject_regex': None}, 2, 7,
                 only=lambda kp: kp[0] == 'commit' and kp[1] in (3, 4, 5, 6))
    stream_ftp_order(ctx, ctx.scale(40, 600))
    ctx.exhaustive = False
    ctx.note('kill_points_total', total)


def stream_ftp_order(ctx, n):
    """An FTP directory listing is a page whose links are the listed files.  The REAL FTPProcessor processes a listing
    against a scripted server with a table that records the order of its calls: a kill can fall between any two of
    them, so at the moment the listing's final status is stored every URL the listing yielded must already have been
    handed to the table (the model's step order: flush before check-in; `nothing_lost` rests on it)."""
    rng = ctx.subrng('ftp-order')
    for _ in range(n):
        names = rng.sample(['a.txt', 'b.bin', 'sub', 'd2', 'x y.txt', 'README', 'z.tar.gz'], rng.randint(1, 5))
        mlsd = rng.random() < 0.4
        lines = []
        for nm in names:
            is_dir = nm in ('sub', 'd2')
            if mlsd:
                lines.append('type=%s;size=3;modify=20200101000000; %s' % ('dir' if is_dir else 'file', nm))
            else:
                lines.append(('drwxr-xr-x 2 u g 4096 Jan 01 00:00 %s' if is_dir else '-rw-r--r-- 1 u g 3 Jan 01 2020 %s') % nm)
        data = ('\r\n'.join(lines) + '\r\n').encode()
        url = rng.choice(['ftp://a.test/dir/', 'ftp://a.test/', 'ftp://a.test/dir/sub/'])
        opts = {'remove_listing': rng.random() < 0.5, 'file_writer': rng.random() < 0.5}
        ftp_order_case(ctx, {'stream': 'ftp-order', 'url': url, 'data': data, 'mlsd': mlsd, 'opts': opts, 'seed': rng.randrange(1 << 30)})


def ftp_order_case(ctx, case):
    import c09
    import wpull.pipeline.session as ps
    orig = ps.ItemSession.add_child_url
    url, data, mlsd, opts = case['url'], case['data'], case['mlsd'], case['opts']
    plan = dict(c09.GOOD_FTP)
    if not mlsd:
        plan['MLSD'] = b'500 no\r\n'
    log = []

    class Table(c09._StubTable):
        def check_in(self, u, status, **kw):
            log.append(('check_in', u, status.value))

        def add_many(self, *a, **k):
            log.append(('add_many', [getattr(x, 'url', None) for x in (a[0] if a else [])]))

    def add(self, u, **kw):
        log.append(('child', u))
        return orig(self, u, **kw)
    ps.ItemSession.add_child_url = add
    try:
        err = c09.ftp_proc_once(plan, data, url, False, False, case.get('seed', 1), dict(opts, table=Table()))
    finally:
        ps.ItemSession.add_child_url = orig
    children = [e[1] for e in log if e[0] == 'child']
    ctx.case(('ftp-order', url, data, repr(sorted(opts.items()))), nontrivial=bool(children), tags=['ftp-order:children=%d' % min(len(children), 3)])
    if err is not None:
        ctx.fail('ftp-listing-failed', 'FTPProcessor.process', case, 'processing a well-formed listing ended with %r' % (err,))
        return
    stored = set()
    for e in log:
        if e[0] == 'add_many':
            stored.update(e[1])
        elif e[0] == 'check_in' and e[2] in ('done', 'skipped'):
            late = [c for c in children if c not in stored]
            if late:
                ctx.fail('lost-url', 'ftp-listing', case, 'the listing %s is stored as %s while the URLs it yielded are not in the table yet: a kill '
                         'here loses %s for good (order of calls: %s)' % (e[1], e[2], late[:3], [x[0] for x in log]))
            break


def big_input_site(n=1100):
    """More input URLs than one add_many batch of InputURLTask holds (1000): start-up commits them in pieces."""
    site = cc.Site()
    site.pages['/'] = {'kind': 'html', 'links': [('/u0', False)]}
    site.inputs = n
    site.other_input = True        # one of the inputs of the first batch is on a second host
    return site


def search(ctx):
    rng = ctx.subrng('search')
    # a kill between the commits of a long input list (start-up, before the crawl proper)
    explore_site(ctx, big_input_site(), {'recursive': False, 'level': None, 'page_requisites': False, 'no_parent': False,
                                         'accept_regex': None, 'reject_regex': None}, 2, 7,
                 only=lambda kp: kp[0] == 'commit' and kp[1] <= 8)
    for i in range(2):
        site = cc.gen_site(rng, size=rng.randint(3, 5), offsite=False)
        explore_site(ctx, site, cc.gen_options(rng, levelfree=True), rng.choice([1, 2]), rng.randrange(1 << 30))
