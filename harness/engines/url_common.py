"""Shared code of the `Url` engine (C10 URL normalisation, C11 totality).

Real side: `wpull.url` imported from ctx.repo.  Model side: `wpullmodel url …`.
Parameters of the model (lean/Wpull/Url.lean `Cfg`) are logged from the real run:
  idna   – the stdlib `idna` codec is wrapped in the codec registry (non-ASCII inputs only)
  ipv6   – `ipaddress.IPv6Address` (the name `wpull.url` looks up) is wrapped
  unquote– `wpull.url.percent_decode` is the stdlib `urllib.parse.unquote`; the binding is wrapped
  lower  – `str.lower` cannot be wrapped: the harness calls it on the pre-colon prefix itself
  encode – utf-8 / latin-1 / ascii are modelled; other (stateless) codecs by a per-character table
"""
import ast
import codecs
import encodings
import ipaddress
import logging
import os
import re
import signal
import sys

import compat  # noqa: F401
from runner import enc, Infra

NET = {'ftp': 21, 'gopher': 70, 'http': 80, 'https': 443, 'ws': 80, 'wss': 443}
EXC_CODES = ['ValueError', 'UnicodeError', 'UnicodeEncodeError', 'UnicodeDecodeError', 'AddressValueError',
             'IndexError', 'KeyError', 'TypeError', 'AttributeError', 'AssertionError', 'RecursionError',
             'OverflowError']
NATIVE_ENC = {'utf-8': 'utf8', 'latin-1': 'latin1', 'ascii': 'ascii'}
TABLE_ENCODINGS = ['cp1252', 'shift_jis', 'koi8-r', 'gbk', 'euc-kr', 'big5']
WIDE_ENCODINGS = ['utf-16', 'utf-16-le', 'utf-16-be', 'utf-32', 'hz', 'utf-7', 'iso-2022-jp', 'iso-2022-kr']
PRINTABLE_ASCII = ''.join(chr(i) for i in range(0x20, 0x7f))

TRUSTED_COMMON = [
    'parameters of the model, logged from the real run and passed per case: str.encode("idna") of non-ASCII hosts, '
    'ipaddress.IPv6Address(x).compressed, urllib.parse.unquote of texts holding "%", str.lower of non-ASCII '
    'scheme candidates (computed by the harness with the same interpreter), per-character tables of codecs other '
    'than utf-8/latin-1/ascii',
    'CPython str/int()/ipaddress.IPv4Address semantics are mirrored in lean/Wpull/Py/Str.lean and tied by their own '
    'differential streams (int, ipv4, strip, unidb: str.isspace and the decimal-digit table for all 0x110000 code points)',
    'Python 3.12 semantics of the interpreter that runs /repo',
    'hypotheses of norm_idem/norm_reparse (lean/Proofs/C10Norm.lean ReparseParams, V6Params, HostPrintable), each monitored on every '
    'case: IPv6Address(x).compressed matches [0-9a-f:.]+ and re-parses to itself; unquote(normalize_username(u)) = u and the same '
    'for the password; non-UTF-8 codecs are character-wise, ASCII-transparent and emit no 0x20/0x2e/0x2f byte for a non-ASCII '
    'character (cases with other codecs are skipped); idna output and host names hold no character <= 0x20',
]


class Log:
    idna = []
    ipv6 = []
    unq = []


class Timeout(BaseException):
    pass


HISTORY = {'parsed': 0}


def history():
    """what this process parsed before and the logging level: a verdict must not depend on either, a replay re-creates both"""
    return {'urls_parsed_before': HISTORY['parsed'], 'log_level': LEVEL['now']}


def warm_url(k):
    return 'http://w%d.h%d.example:%d/p%d/x?q=%d#f%d' % (k, k % 7, 1000 + k % 50000, k, k, k)


def warm_expected(k):
    return 'http://w%d.h%d.example:%d/p%d/x?q=%d' % (k, k % 7, 1000 + k % 50000, k, k)


class log_level:
    """the logging level as a dimension: wpull sets the ROOT logger to DEBUG for --debug and for every --warc-file run; the
    wpull loggers inherit it.  A handler that formats every record is attached (see NullHandler)."""
    def __init__(self, level):
        self.level = level

    def __enter__(self):
        root = logging.getLogger()
        self.old = root.level
        root.setLevel(self.level)
        LEVEL['now'] = logging.getLevelName(self.level)

    def __exit__(self, *a):
        logging.getLogger().setLevel(self.old)
        LEVEL['now'] = logging.getLevelName(self.old)
        return False


LEVEL = {'now': 'WARNING'}
LEVELS = [logging.WARNING, logging.INFO, logging.DEBUG]


def from_real_code(exc, repo):
    """did the exception come out of the code under test (innermost frame inside the wpull tree)?"""
    import traceback
    tb = traceback.extract_tb(exc.__traceback__)
    root = os.path.realpath(repo) + os.sep
    # raised in, or on behalf of, the code under test (e.g. inside the logging module called by wpull)
    return any(os.path.realpath(f.filename).startswith(root) for f in tb)


def run_stream(ctx, name, fn):
    """run one stream; an exception that the real code raised outside a guarded comparison is a reported
    failure (with the process history), not a crash of the engine"""
    try:
        return fn()
    except (Infra, Timeout):
        raise
    except Exception as e:
        if not from_real_code(e, ctx.repo):
            raise
        import traceback
        root = os.path.realpath(ctx.repo) + os.sep
        tb = [f for f in traceback.extract_tb(e.__traceback__) if os.path.realpath(f.filename).startswith(root)]
        ctx.fail('non-valueerror-exception', 'stream:' + name.split('@')[0],
                 {'stream': 'longrun', 'url': warm_url(HISTORY['parsed'] + 1), 'history': history()},
                 '%s: %s escaped the real code at %s:%d (%s) while stream %s ran, after %d URLs had been parsed in this process'
                 % (type(e).__name__, str(e)[:200], os.path.relpath(tb[-1].filename, ctx.repo), tb[-1].lineno, tb[-1].name,
                    name, HISTORY['parsed']))
        return None


_state = {}


def exc_name(e):
    """most specific class name the model knows"""
    for cls in type(e).__mro__:
        if cls.__name__ in EXC_CODES:
            return cls.__name__
    return type(e).__name__


class NullHandler(logging.Handler):
    """formats every record (as a stream handler would) and drops it; a formatting error is counted, not raised"""
    errors = 0

    def emit(self, record):
        try:
            self.format(record)
        except Exception:
            NullHandler.errors += 1


def setup(ctx):
    """import the real code with logging wrappers around the stdlib entry points"""
    if _state.get('repo') == ctx.repo:
        return _state['mod']
    lg = logging.getLogger('wpull')
    lg.addHandler(NullHandler())
    lg.propagate = False
    lg.setLevel(logging.NOTSET)           # inherits the root logger's level, as in the application
    if ctx.repo not in sys.path:
        sys.path.insert(0, ctx.repo)
    orig = codecs.lookup('idna')

    def idna_encode(input, errors='strict'):
        try:
            r = orig.encode(input, errors)
        except Exception as e:
            if not input.isascii():
                Log.idna.append((input, e))
            raise
        if not input.isascii():
            Log.idna.append((input, r[0]))
        return r

    def search(name):
        if name == 'idna':
            return codecs.CodecInfo(name='idna', encode=idna_encode, decode=orig.decode,
                                    incrementalencoder=orig.incrementalencoder,
                                    incrementaldecoder=orig.incrementaldecoder,
                                    streamwriter=orig.streamwriter, streamreader=orig.streamreader)
        return None
    codecs.unregister(encodings.search_function)
    codecs.register(search)
    codecs.register(encodings.search_function)
    if codecs.lookup('idna').encode is not idna_encode:
        raise Infra('could not wrap the idna codec')

    import wpull.url as wu
    if os.path.realpath(wu.__file__) != os.path.realpath(os.path.join(ctx.repo, 'wpull', 'url.py')):
        raise Infra('wpull.url imported from %s, not from %s' % (wu.__file__, ctx.repo))
    real_v6 = ipaddress.IPv6Address

    class V6Logger:
        """stands in for the name `ipaddress.IPv6Address` while a case runs"""
        def __call__(self, text):
            try:
                r = real_v6(text)
            except Exception as e:
                Log.ipv6.append((text, e))
                raise
            Log.ipv6.append((text, r.compressed))
            return r
    _state['v6'] = (real_v6, V6Logger())
    import urllib.parse
    std_unquote = urllib.parse.unquote
    if wu.percent_decode is not std_unquote:
        raise Infra('wpull.url.percent_decode is no longer urllib.parse.unquote: model parameter out of date')

    def unquote_logger(string, encoding='utf-8', errors='replace'):
        r = std_unquote(string, encoding=encoding, errors=errors)
        if '%' in string:
            Log.unq.append((string, r))
        return r
    wu.percent_decode = unquote_logger
    _state.update(repo=ctx.repo, mod=wu)
    return wu


class guard:
    """time guard (non-termination is a C11 failure) + IPv6Address logging"""
    def __init__(self, seconds=10):
        self.seconds = seconds

    def __enter__(self):
        def onalarm(sig, frm):
            raise Timeout()
        self.old = signal.signal(signal.SIGALRM, onalarm)
        signal.setitimer(signal.ITIMER_REAL, self.seconds)
        ipaddress.IPv6Address = _state['v6'][1]

    def __exit__(self, *a):
        signal.setitimer(signal.ITIMER_REAL, 0)
        signal.signal(signal.SIGALRM, self.old)
        ipaddress.IPv6Address = _state['v6'][0]
        return False


def clear_caches(wu):
    wu.URLInfo.parse.__func__.cache_clear()
    wu.normalize_hostname.cache_clear()
    wu.urljoin.cache_clear()


# ------------------------------------------------------------------ formatting (must match UrlDriver.lean)
def eopt(s):
    return 'None' if s is None else '=' + enc(s)


def eres(f):
    try:
        return '=' + enc(f())
    except Exception as e:
        return '!' + exc_name(e)


def eoptbool(v):
    return 'None' if v is None else ('T' if v else 'F')


def fmt_info(info):
    """canonical tokens of a real URLInfo (every documented attribute); also returns the accessor errors"""
    errs = []

    def attr(name):
        try:
            return getattr(info, name)
        except Exception as e:           # reading a plain attribute
            errs.append((name, e))
            return None

    def res(name, f):
        try:
            return '=' + enc(f())
        except Timeout:
            raise
        except BaseException as e:
            errs.append((name, e))
            return '!' + exc_name(e)
    toks = ['ok', enc(attr('raw') or ''), eopt(attr('scheme'))]
    for a in ('authority', 'path', 'query', 'fragment', 'userinfo', 'username', 'password', 'host', 'hostname'):
        toks.append(eopt(attr(a)))
    port = attr('port')
    toks.append('None' if port is None else str(port))
    toks.append(eopt(attr('resource')))
    toks += ['U', res('url', lambda: info.url)]
    try:
        qm = info.query_map
        q = '~' if not qm else ';'.join(','.join([enc(k)] + [enc(v) for v in vs]) for k, vs in qm.items())
    except Timeout:
        raise
    except BaseException as e:
        errs.append(('query_map', e))
        q = '!' + exc_name(e)
    toks += ['Q', q]
    toks += ['H', res('hostname_with_port', lambda: info.hostname_with_port)]
    for name, label in (('is_ipv6', 'V6'), ('is_port_default', 'PD')):
        try:
            toks += [label, eoptbool(getattr(info, name)())]
        except Timeout:
            raise
        except BaseException as e:
            errs.append((name, e))
            toks += [label, '!' + exc_name(e)]
    try:
        a, b = info.split_path()
        toks += ['SP', enc(a), enc(b)]
    except Timeout:
        raise
    except BaseException as e:
        errs.append(('split_path', e))
        toks += ['SP', '!' + exc_name(e)]
    try:
        d = info.to_dict()
        if d.get('url') != info.url or d.get('netloc') != info.authority or d.get('encoding') != info.encoding:
            errs.append(('to_dict', AssertionError('to_dict differs from the attributes')))
    except Timeout:
        raise
    except BaseException as e:
        errs.append(('to_dict', e))
    return ' '.join(toks), errs


def etable(pairs):
    """[(key, value_as_int_list)] -> list-of-lists token"""
    if not pairs:
        return '~'
    out = []
    for k, v in pairs:
        out.append(enc(k))
        out.append(enc(v))
    return '/'.join(out)


def eexc_value(v):
    """value of an Except parameter: bytes/str payload or an exception"""
    if isinstance(v, BaseException):
        n = exc_name(v)
        return [1, EXC_CODES.index(n) if n in EXC_CODES else 6]
    if isinstance(v, str):
        return [0] + [ord(c) for c in v]
    return [0] + list(v)


def charwise(url, encoding, extra=''):
    """per-character table of a stateless codec; None if the codec is not char-wise on this text"""
    tab = []
    whole = []
    failed = False
    for ch in sorted(set(url) | set(extra)):
        if ord(ch) < 128:
            try:
                if ch.encode(encoding) != bytes([ord(ch)]):
                    return None
            except UnicodeError:
                return None
            continue
        try:
            bs = ch.encode(encoding)
            if not bs or any(b in (0x20, 0x2e, 0x2f) for b in bs):
                return None          # outside SegSafe / SpaceSafe: the theorems do not speak about this codec
            tab.append((ch, eexc_value(bs)))
        except UnicodeError as e:
            tab.append((ch, eexc_value(e)))
    # a stateful codec (iso-2022-*, hz …) is not character-wise even when the whole text cannot be encoded
    good = [ch for ch in sorted(set(url) | set(extra)) if ord(ch) >= 128]
    enc1 = {}
    for ch in good:
        try:
            enc1[ch] = ch.encode(encoding)
        except UnicodeError:
            pass
    try:
        for ch, bs in enc1.items():
            if ('a' + ch + 'z').encode(encoding) != b'a' + bs + b'z':
                return None
        both = url + extra
        for a, b in zip(both, both[1:]):
            if a in enc1 and b in enc1 and (a + b).encode(encoding) != enc1[a] + enc1[b]:
                return None
    except UnicodeError:
        return None
    try:
        whole = url.encode(encoding)
    except UnicodeError:
        failed = True
    if not failed:
        try:
            if b''.join(ch.encode(encoding) for ch in url) != whole:
                return None
        except UnicodeError:
            return None
    return tab


def dedupe(pairs):
    seen, out = set(), []
    for k, v in pairs:
        if k not in seen:
            seen.add(k)
            out.append((k, v))
    return out


class Case:
    __slots__ = ('url', 'ds', 'encoding', 'kind', 'real', 'info', 'exc', 'errs', 'line', 'tags', 'skip', 'hyp')

    def __init__(self, url, ds='http', encoding='utf-8', kind='gen'):
        self.url, self.ds, self.encoding, self.kind = url, ds, encoding, kind
        self.skip = False

    def key(self):
        return (self.url, self.ds, self.encoding)

    def as_json(self):
        j = {'stream': 'parse', 'url': self.url, 'default_scheme': self.ds, 'encoding': self.encoding}
        if LEVEL['now'] != 'WARNING':
            j['log_level'] = LEVEL['now']
        return j


def py_strip_prefix(url):
    return url.strip().partition(':')[0]


def run_real(wu, case, op='parse', after=None, keep_caches=False):
    """Run the real parse; fill case.real (canonical tokens), case.info, case.exc and the model request line."""
    if not keep_caches:
        clear_caches(wu)
    HISTORY['parsed'] += 1
    Log.idna, Log.ipv6, Log.unq = [], [], []
    case.info, case.exc, case.errs, case.hyp = None, None, [], []
    try:
        with guard():
            try:
                if op == 'parse' or after is not None:
                    case.info = wu.URLInfo.parse(case.url, default_scheme=case.ds, encoding=case.encoding)
                    if after is not None:
                        case.real = after(case.info)     # same guard, same parameter logs
                    else:
                        case.real, case.errs = fmt_info(case.info)
                else:
                    case.info = wu.parse_url_or_log(case.url, encoding=case.encoding)
                    if case.info is None:
                        case.real = 'none'
                    else:
                        case.real = 'some ' + eres(lambda: case.info.url)
            except Timeout:
                raise
            except BaseException as e:
                case.exc = e
                case.real = 'exc ' + exc_name(e)
    except Timeout as e:
        case.exc = e
        case.real = 'timeout'
    # model request
    encname = {'utf-8': 'utf8', 'iso8859-1': 'latin1', 'ascii': 'ascii'}.get(codecs.lookup(case.encoding).name, 'table')
    try:
        if PRINTABLE_ASCII.encode(case.encoding) != PRINTABLE_ASCII.encode('ascii'):
            encname = 'utf8'        # UTF-16/32, HZ, UTF-7 documents: the (repaired) code percent-encodes as UTF-8
    except (LookupError, UnicodeError):
        case.skip = True            # cp864, idna, bytes-to-bytes codecs …: the probe itself raises; oracle only
        encname = 'utf8'
    enct = []
    if encname == 'table':
        # the lower-cased scheme candidate can re-enter the text ('.' in scheme): its characters too
        enct = charwise(case.url, case.encoding, py_strip_prefix(case.url).lower())
        if enct is None:
            case.skip = True
            enct = []
    case.hyp = monitor_params(case)
    pre = py_strip_prefix(case.url)
    lower = [(pre, [ord(c) for c in pre.lower()])] if not pre.isascii() else []
    idna = dedupe((k, eexc_value(v)) for k, v in Log.idna)
    v6 = dedupe((k, eexc_value(v)) for k, v in Log.ipv6)
    unq = dedupe((k, [ord(c) for c in v]) for k, v in Log.unq)
    case.line = 'url %s %s %s %s %s %s %s %s %s' % (
        op, 'None' if case.ds is None else '=' + enc(case.ds), encname, enc(case.url),
        etable(lower), etable(idna), etable(v6), etable(unq), etable(enct))
    case.tags = tags_of(case)
    return case


V6_FORM = re.compile(r'[0-9a-f:.]+\Z')


def monitor_params(case):
    """the hypotheses of norm_idem / norm_reparse (ReparseParams, V6Params, HostPrintable) on the logged calls"""
    bad = []
    real_v6 = _state['v6'][0]
    for text, v in Log.ipv6:
        if isinstance(v, str):
            try:
                again = real_v6(v).compressed
            except Exception as e:
                again = repr(e)
            if not V6_FORM.match(v) or again != v:
                bad.append('V6Params: IPv6Address(%r).compressed = %r, re-parsed %r' % (text, v, again))
    for text, v in Log.idna:
        if isinstance(v, (bytes, bytearray)) and any(b <= 0x1f for b in v):
            bad.append('PrintParams: idna(%r) = %r holds a control character' % (text, bytes(v)))
    pre = py_strip_prefix(case.url)
    if all(ord(ch) > 0x1f for ch in pre) and any(ord(ch) <= 0x1f for ch in pre.lower()):
        bad.append('PrintParams: %r.lower() holds a control character' % pre)
    if case.ds and any(ord(ch) <= 0x1f for ch in case.ds):
        bad.append('PrintParams: default_scheme %r holds a control character' % case.ds)
    i = case.info
    if i is not None and case.exc is None and getattr(i, 'scheme', None) in NET:
        import urllib.parse
        import wpull.url as wu
        for name, norm in (('username', wu.normalize_username), ('password', wu.normalize_password)):
            v = getattr(i, name)
            try:
                back = urllib.parse.unquote(norm(v), encoding='utf-8', errors='replace')
            except Exception as e:
                back = repr(e)
            if back != v:
                bad.append('unquote_%s: unquote(normalize(%r)) = %r' % (name[:4], v, back))
        if any(ord(ch) <= 0x20 for ch in (i.hostname or '')):
            bad.append('HostPrintable: host name %r' % i.hostname)
    return bad


def tags_of(case):
    t = []
    if case.exc is not None:
        t.append('parse:exc:' + exc_name(case.exc))
    elif case.info is None:
        t.append('parse:none')
    else:
        i = case.info
        if i.scheme in NET:
            t.append('parse:net')
            if i.userinfo:
                t.append('has:userinfo')
            if i.host and i.host.startswith('['):
                t.append('host:ipv6')
            elif i.hostname and re.fullmatch(r'[0-9.]+', i.hostname):
                t.append('host:ipv4')
            elif i.hostname and 'xn--' in i.hostname:
                t.append('host:idn')
            if i.port != NET[i.scheme]:
                t.append('has:port')
            if i.query:
                t.append('has:query')
            if '%' in (i.path or ''):
                t.append('path:escapes')
        else:
            t.append('parse:non-network')
    if Log.idna:
        t.append('param:idna')
    if Log.ipv6:
        t.append('param:ipv6')
    if Log.unq:
        t.append('param:unquote')
    if case.encoding != 'utf-8':
        t.append('enc:' + case.encoding)
    if case.ds != 'http':
        t.append('ds:' + str(case.ds))
    return t


def correspond(ctx, wu, cases, op='parse', stream=None):
    """real vs model for a batch; returns the cases (with .real/.info filled)"""
    stream = stream or op
    for c in cases:
        run_real(wu, c, op)
    live = [c for c in cases if not c.skip]
    replies = ctx.model.ask([c.line for c in live])
    for c, rep in zip(live, replies):
        if rep != c.real:
            ctx.disagree(stream, c.as_json(), rep, c.real)
    for c in cases:
        if c.skip:
            ctx.tag('skipped:codec-not-charwise')
    return cases


# ------------------------------------------------------------------ long-lived process
def warm_process(ctx, wu, n, start=0):
    """parse n distinct hosts / paths / queries in this process (no cache is cleared in between): every result must be
    the expected normal form, whatever was parsed before"""
    for k in range(start, start + n):
        u = warm_url(k)
        case = {'stream': 'longrun', 'url': u, 'history': {'urls_parsed_before': HISTORY['parsed']}}
        HISTORY['parsed'] += 1
        try:
            with guard():
                got = wu.URLInfo.parse(u).url
        except Timeout:
            ctx.fail('nontermination', 'URLInfo.parse', case, 'timeout')
            continue
        except ValueError as e:
            ctx.fail('history-dependent', 'URLInfo.parse', case, 'a valid URL was rejected after %d URLs: %s' % (case['history']['urls_parsed_before'], e))
            continue
        except BaseException as e:
            ctx.fail('non-valueerror-exception', 'URLInfo.parse', case,
                     'parse raised %s: %s after %d distinct URLs had been parsed in this process'
                     % (type(e).__name__, str(e)[:200], case['history']['urls_parsed_before']))
            continue
        if got != warm_expected(k):
            ctx.fail('history-dependent', 'URLInfo.parse', case, '%r -> %r, expected %r' % (u, got, warm_expected(k)))
    ctx.tag('longrun:warm', n)
    ctx.evaluations += n


def recheck_process(ctx, wu, rng, n_old, n_new):
    """at the end of the run: earlier and new inputs, parsed WITHOUT clearing any cache, against the model"""
    total = HISTORY['parsed']
    cases = [Case(warm_url(rng.randrange(0, 3000)), kind='longrun-old') for _ in range(n_old)]
    cases += [Case(warm_url(10 ** 6 + k), kind='longrun-new') for k in range(n_new)]
    cases += [Case(Spec(rng).render(rng), kind='longrun-new') for _ in range(n_new)]
    for c in cases:
        run_real(wu, c, 'parse', keep_caches=True)
    replies = ctx.model.ask([c.line for c in cases if not c.skip])
    for c, rep in zip([c for c in cases if not c.skip], replies):
        ctx.case(('longrun',) + c.key(), tags=['longrun:recheck'])
        cj = dict(c.as_json(), history={'urls_parsed_before': total})
        if c.exc is not None and not isinstance(c.exc, ValueError):
            ctx.fail('non-valueerror-exception', 'URLInfo.parse', dict(cj, stream='longrun'),
                     'parse raised %s: %s after %d URLs had been parsed in this process' % (type(c.exc).__name__, str(c.exc)[:200], total))
        elif rep != c.real:
            ctx.fail('history-dependent', 'URLInfo.parse', dict(cj, stream='longrun'),
                     'after %d URLs the result differs from the history-free model: %s vs %s' % (total, c.real[:200], rep[:200]))


def replay_longrun(ctx, wu, case):
    n = int(case.get('history', {}).get('urls_parsed_before', 0))
    ctx.note('replay_history', 'parsing %d distinct URLs first' % n)
    for k in range(n):
        try:
            wu.URLInfo.parse(warm_url(5 * 10 ** 6 + k))      # a host family the failing input is not part of
        except Exception:
            pass
    u = case['url']
    try:
        with guard():
            wu.URLInfo.parse(u, default_scheme=case.get('default_scheme', 'http'), encoding=case.get('encoding', 'utf-8')).url
    except Timeout:
        ctx.fail('nontermination', 'URLInfo.parse', case, 'timeout')
    except ValueError:
        pass
    except BaseException as e:
        ctx.fail('non-valueerror-exception', 'URLInfo.parse', case,
                 'parse raised %s: %s after %d distinct URLs had been parsed in this process' % (type(e).__name__, str(e)[:200], n))


# ------------------------------------------------------------------ C11 oracle
def oracle_total(ctx, case, op='parse'):
    """the property C11 on one real outcome"""
    e = case.exc
    if isinstance(e, Timeout):
        ctx.fail('nontermination', 'URLInfo.parse' if op == 'parse' else 'parse_url_or_log', case.as_json(),
                 'call did not return within the time guard')
        return
    if e is not None:
        if op != 'parse':
            ctx.fail('raises', 'parse_url_or_log', dict(case.as_json(), stream='orlog'),
                     'parse_url_or_log raised %s: %s' % (type(e).__name__, str(e)[:200]))
        elif not isinstance(e, ValueError):
            ctx.fail('non-valueerror', 'URLInfo.parse', dict(case.as_json(), history=history()),
                     'parse raised %s: %s' % (type(e).__name__, str(e)[:200]))
        return
    if op == 'parse' and e is None and type(case.info).__name__ != 'URLInfo':
        ctx.fail('not-a-urlinfo', 'URLInfo.parse', case.as_json(),
                 'parse returned %r for %r: neither a URLInfo nor a ValueError' % (case.info, case.url))
        return
    for name, err in case.errs:
        ctx.fail('accessor-raises', name, case.as_json(),
                 'reading %s of the parse result raised %s: %s' % (name, type(err).__name__, str(err)[:200]))


# ------------------------------------------------------------------ C10 oracle
HEXESC = re.compile(r'%([0-9A-Fa-f]{2})')


def oracle_norm(ctx, wu, case):
    """the property C10 on one real outcome (network schemes only)"""
    i = case.info
    if i is None or case.exc is not None or i.scheme not in NET:
        return
    try:
        n = i.url
    except Exception:
        return                      # C11's business
    cj = case.as_json()
    for h in getattr(case, 'hyp', []):
        ctx.fail('hypothesis-violated', h.split(':')[0], cj, 'a parameter hypothesis of norm_idem/norm_reparse does not hold: ' + h)
    # the sentence: pure ASCII, no whitespace, no C0 control (DEL 0x7f is neither)
    bad = [c for c in n if ord(c) > 0x7f or ord(c) <= 0x20 or c.isspace()]
    if bad:
        ctx.fail('not-ascii', 'url', cj, 'normalised URL %r holds %r' % (n, bad[:5]))
    if re.search('[A-Z]', i.scheme) or re.search('[A-Z]', i.hostname):
        ctx.fail('not-lower', 'scheme-host', cj, 'scheme %r / host %r not lower-case' % (i.scheme, i.hostname))
    p = i.path
    segs = p.split('/')
    if not p.startswith('/') or any(s in ('.', '..') for s in segs) or any(s == '' for s in segs[1:-1]):
        ctx.fail('path-not-flat', 'path', cj, 'path %r is not absolute and free of dot/empty segments' % p)
    for m in HEXESC.finditer(n):
        if m.group(1) != m.group(1).upper():
            ctx.fail('escape-not-upper', 'url', cj, 'escape %%%s in %r' % (m.group(1), n))
            break
    # idempotence and re-parse (the normal form is the crawl's key: re-parsed with the default encoding)
    try:
        clear_caches(wu)
        with guard():
            j = wu.URLInfo.parse(n)
            n2 = j.url
    except Timeout:
        ctx.fail('nontermination', 'URLInfo.parse', {'stream': 'parse', 'url': n, 'default_scheme': 'http', 'encoding': 'utf-8'}, 'timeout')
        return
    except Exception as e:
        ctx.fail('not-reparsable', 'url', cj, 'normal form %r of %r is rejected: %s %s' % (n, case.url, type(e).__name__, e))
        return
    if n2 != n:
        ctx.fail('not-idempotent', 'url', cj, '%r -> %r -> %r' % (case.url, n, n2))
    a = (i.scheme, i.hostname, i.port, i.path, i.query)
    b = (j.scheme, j.hostname, j.port, j.path, j.query)
    if a != b:
        ctx.fail('reparse-differs', 'components', cj, '%r: %r != %r' % (n, a, b))
    # an independent splitter (urllib.parse.urlsplit, which wpull.path and others apply to the normal form) must accept
    # the normal form and find the same host and port: no delimiter may sit unescaped inside a component
    import urllib.parse
    try:
        sp = urllib.parse.urlsplit(n)
        got = (sp.hostname, sp.port if sp.port is not None else NET[i.scheme])
    except ValueError as e:
        got = 'ValueError: %s' % e
    want = (i.hostname, i.port)
    if got != want and not (isinstance(got, tuple) and got[1] == want[1] and (got[0] or '') == want[0].lower()):
        ctx.fail('urlsplit-differs', 'url', cj, 'urllib.parse.urlsplit(%r) gives %r, the parser %r' % (n, got, want))
    if case.encoding != 'utf-8':
        # the stricter reading: normalise again with the SAME document encoding
        try:
            clear_caches(wu)
            n3 = wu.URLInfo.parse(n, encoding=case.encoding).url
        except Exception as e:
            n3 = 'exc %s' % type(e).__name__
        if n3 != n:
            where = 'userinfo' if (i.userinfo and '@' in n and n3.partition('@')[2] == n.partition('@')[2]) else 'url'
            ctx.fail('not-idempotent-same-encoding', where, cj, '%r under %s -> %r -> %r' % (case.url, case.encoding, n, n3))
    host = j.host or ''
    m = None if host.endswith(']') else re.search(r':([^:]*)$', host)
    explicit = None
    if m:
        try:
            explicit = int(m.group(1))
        except ValueError:
            explicit = -1
    if explicit is not None and explicit in (NET[i.scheme], 0):
        ctx.fail('default-port-kept', 'url', cj, 'host part %r of %r (default port %d)' % (j.host, n, NET[i.scheme]))


# ------------------------------------------------------------------ seeds from the repo's own test tables
def seed_urls(repo):
    path = os.path.join(repo, 'wpull', 'url_test.py')
    out = []
    try:
        tree = ast.parse(open(path, encoding='utf-8').read())
    except Exception:
        return out
    for node in ast.walk(tree):
        if isinstance(node, ast.Constant) and isinstance(node.value, str):
            s = node.value
            if 0 < len(s) < 300 and '\n' not in s and (':' in s or '/' in s or '.' in s):
                out.append(s)
    seen = set()
    res = []
    for s in out:
        if s not in seen:
            seen.add(s)
            res.append(s)
    return res


# ------------------------------------------------------------------ generators
ALNUM = 'abcdefghijklmnopqrstuvwxyz0123456789'
SPECIAL = ':/?#@[]%.\\ +-_=&;~!$\'()*,"<>`{}|^'
NONASCII = ['Ġ', '\u2020', '\u202f', '\u2f2e', '\u2e2f', '\u3f23', 'é', 'ß', 'İ', 'ı', 'Σ', 'ς', '文', '字', '\u200c', '\u200d', '。', '．', '｡', '１', '０', 'ｘ', '７', 'Ａ', '\xa0',
            '\x85', '\u3000', '\u2028', '٣', '߁', '\U0001d7d8', '\U0001f600', '†', 'Ｆ', 'ﬁ', 'Ǆ', '\u0345', '\xad', 'K', 'Å']
SURR = ['\ud800', '\udc80', '\udfff', '\udcff']


def _nfkc_delims():
    import unicodedata
    out = []
    for cp in range(0x80, 0x110000):
        if 0xd800 <= cp < 0xe000:
            continue
        ch = chr(cp)
        n = unicodedata.normalize('NFKC', ch)
        if n != ch and any(d in n for d in '/?#@:[]%\\ '):
            out.append(ch)
    return out


NFKC_DELIMS = _nfkc_delims()
NFKC_DELIMS += [c for c in NFKC_DELIMS if ' ' not in __import__('unicodedata').normalize('NFKC', c)] * 4


def rand_text(rng, n, pool=ALNUM):
    return ''.join(rng.choice(pool) for _ in range(n))


def gen_segment(rng):
    r = rng.random()
    if r < 0.45:
        return rand_text(rng, rng.randrange(1, 6), ALNUM + 'ABCXYZ')
    if r < 0.55:
        return rng.choice(['%2e', '%2E%2e', '%2f', '%2F', 'a%2Fb', '%3f', '%23', '%25', '%', '%zz', '%a', '%aF', '%Af%af', '%e9', '%C3%A9', '%00', '%7e', '%20'])
    if r < 0.65:
        return rand_text(rng, rng.randrange(1, 4), ALNUM) + rng.choice(NONASCII)
    if r < 0.75:
        return rng.choice(['.a', 'a.', '...', '.. ', ' ..', '.%2e', 'a b', 'a;b', 'a:b', 'a@b', '~', 'a\\b', 'a|b', '{x}', "a'b", 'a"b', '<x>', '`', '^', '[', ']', '+', 'a=b', '&'])
    if r < 0.8:
        return rng.choice(SURR) if rng.random() < 0.3 else rng.choice(NONASCII) * rng.randrange(1, 3)
    return rand_text(rng, rng.randrange(1, 3), ALNUM + SPECIAL.replace('/', '').replace('?', '').replace('#', ''))


def gen_query(rng):
    r = rng.random()
    if r < 0.3:
        return ''
    parts = []
    for _ in range(rng.randrange(1, 4)):
        k = rand_text(rng, rng.randrange(0, 4), ALNUM + 'AB')
        v = rng.choice(['', '1', 'a b', 'a+b', '%20', '%3d', '%3D%26', 'é', 'x=y', '"q"', '<', '`', '/../', '?', rng.choice(NONASCII), 'a%2', '†'])
        parts.append(rng.choice(['%s=%s', '%s=%s', '%s%s', '%s=%s=']) % (k, v))
    return rng.choice('&&&;').join(parts)


USERINFO_POOL = ['[u', '[x]', 'a]b', '[', ']', '[::1]', 'u[', '%5Bx%5d', 'u', 'user', 'U%73er', 'a%3Ab', 'a%40b', 'é', '%e9', '%C3%a9', 'a b', 'a+b', '%2F', 'x%', '%ff', '',
                 # a decoded literal '%': %25XX, %25, lone '%', nested
                 '%2541', 'user%2541', '%25', '%25%25', 'a%25zz', '%252F', '%25%32%35', '%2525', '%', '%%', '%4', 'a%', '%2', '%25e9',
                 # escapes that are not UTF-8 (latin-1 / shift_jis bytes), truncated and over-long sequences
                 '%E9', '%e9%FC', '%FF%FE', '%C3', '%C3%28', '%E2%82', '%F0%9F%92', '%82%A0', '%8E%9A', '%95%5C', '%C0%AF', '%ED%A0%80',
                 'a%80b', '%A0', '%00', '%0A', '%20', '%7F']


def gen_userinfo(rng, password=False):
    r = rng.random()
    if r < 0.6:
        v = rng.choice(USERINFO_POOL)
    elif r < 0.8:
        v = ''.join(rng.choice(['%25', '%', 'a', 'Z', '4', '1', 'e', '%e9', '%C3%A9', '%2f', 'é', '+', '%3a', '%40']) for _ in range(rng.randrange(1, 5)))
    else:
        v = ''.join('%%%02X' % rng.randrange(256) if rng.random() < 0.7 else rng.choice('ab1') for _ in range(rng.randrange(1, 4)))
    if password and rng.random() < 0.3:
        v = rng.choice(['p:w', 'p%3aw', 'p@w', 'P W', '%zz', ':']) + v
    return v


PORT_POOL = sorted(set(NET.values()))


def port_candidates(scheme):
    """own default, every other scheme's default, default±1, 0, 1, 65535, 65536"""
    d = NET[scheme]
    return sorted(set(PORT_POOL) | {d - 1, d + 1, 0, 1, 65535, 65536})


def port_matrix_cases():
    """every scheme x port candidate x host kind x userinfo, grouped by everything but the port"""
    groups = []
    for scheme in NET:
        for host in ('example.com', '127.0.0.1', '[::1]', 'EXAMPLE.com.'):
            for ui in ('', 'u:p@'):
                for tail in ('', '/a/b?c=d'):
                    g = [Case('%s://%s%s%s' % (scheme, ui, host, tail), kind='port-matrix')]
                    for port in port_candidates(scheme):
                        g.append(Case('%s://%s%s:%d%s' % (scheme, ui, host, port, tail), kind='port-matrix'))
                    groups.append(g)
    return groups


def oracle_ports(ctx, group):
    """C10 on a group of URLs that differ only in the port: distinct effective ports => distinct normal
    forms, equal ports => equal normal forms, and the normal form gives the port back"""
    seen = {}
    for c in group:
        if c.exc is not None or c.info is None or c.info.scheme not in NET:
            continue
        try:
            n = c.info.url
        except Exception:
            continue
        port = c.info.port
        for n2, (port2, url2) in seen.items():
            if n2 == n and port2 != port:
                ctx.fail('ports-collide', 'url', {'stream': 'ports', 'urls': [url2, c.url]},
                         'distinct ports share one normal form: %r (port %r) and %r (port %r) -> %r' % (url2, port2, c.url, port, n))
        for n2, (port2, url2) in seen.items():
            if n2 != n and port2 == port:
                ctx.fail('spellings-differ', 'url', {'stream': 'ports', 'urls': [url2, c.url]},
                         'same port %r, different normal forms: %r -> %r, %r -> %r' % (port, url2, n2, c.url, n))
        seen.setdefault(n, (port, c.url))


class Spec:
    """A URL at the level the property speaks about; `render` chooses a spelling."""

    def __init__(self, rng):
        self.scheme = rng.choice(['http', 'http', 'http', 'https', 'ftp', 'ws', 'wss', 'gopher'])
        r = rng.random()
        self.user = self.pw = None
        if r < 0.25:
            self.user = gen_userinfo(rng)
            if rng.random() < 0.6:
                self.pw = gen_userinfo(rng, password=True)
        r = rng.random()
        if r < 0.03:
            self.hostkind = 'name'
            self.host = long_host(rng).split(':')[0]
        elif r < 0.4:
            self.hostkind = 'name'
            labels = [rand_text(rng, rng.randrange(1, 8), ALNUM + '-') for _ in range(rng.randrange(1, 4))]
            self.host = '.'.join(labels) + rng.choice(['', '', '', '.'])
        elif r < 0.46:
            self.hostkind = 'idn'
            # a character whose IDNA/NFKC mapping is (or holds) a URL delimiter: example.com／.evil.org
            self.host = rng.choice(['example.com', 'a.b', rand_text(rng, 3)]) + rng.choice(NFKC_DELIMS) + rng.choice(['.evil.org', 'x', '', 'q=1', '80'])
        elif r < 0.5:
            self.hostkind = 'idn'
            labels = [rand_text(rng, rng.randrange(0, 3)) + rng.choice(['é', 'ß', '文字', 'ü', 'ñ', 'ı', 'ö']) + rand_text(rng, rng.randrange(0, 3))
                      for _ in range(rng.randrange(1, 3))]
            self.host = '.'.join(labels + [rng.choice(['com', 'example', 'jp'])])
        elif r < 0.75:
            self.hostkind = 'ipv4'
            self.host = rng.choice([rng.getrandbits(32), rng.getrandbits(8), 0x7f000001, 0xffffffff, 0, rng.getrandbits(16), 0x0a000001, 0xc0a80101])
        else:
            self.hostkind = 'ipv6'
            v = rng.getrandbits(128)
            # knock out groups to get zero runs
            for g in range(8):
                if rng.random() < 0.5:
                    v &= ~(0xffff << (16 * g))
            self.host = v
        default = NET[self.scheme]
        # explicit-port dimension: own default, the default of every OTHER scheme, neighbours, edges
        r = rng.random()
        if r < 0.25:
            self.port = None
        elif r < 0.4:
            self.port = default
        elif r < 0.65:
            self.port = rng.choice([p for p in PORT_POOL if p != default and p in NET.values()])
        elif r < 0.9:
            self.port = rng.choice(port_candidates(self.scheme))
        else:
            self.port = rng.choice([1, 8080, 81, 444, 22, 8443, 10000])
        self.segs = [gen_segment(rng) for _ in range(rng.choice([0, 1, 1, 2, 3, 4]))]
        self.trailing = rng.random() < 0.3
        self.query = gen_query(rng) if rng.random() < 0.5 else None
        self.fragment = rng.choice([None, None, '', 'frag', 'a/b?c', 'é', '#', ' x'])

    # --- spellings
    def spell_host(self, rng, canonical=False):
        if self.hostkind in ('name', 'idn'):
            if canonical:
                return self.host
            return ''.join(c.upper() if (c.isascii() and rng.random() < 0.3) else c for c in self.host)
        if self.hostkind == 'ipv4':
            v = self.host
            if canonical:
                return '.'.join(str((v >> s) & 255) for s in (24, 16, 8, 0))
            style = rng.choice(['dec', 'hex', 'oct', 'dword', 'dwordhex', 'dwordoct', 'mixed', 'HEX', 'fullwidth', 'pad'])
            octs = [(v >> s) & 255 for s in (24, 16, 8, 0)]
            if style == 'dec':
                return '.'.join(map(str, octs))
            if style == 'hex':
                return '.'.join('0x%x' % o for o in octs)
            if style == 'HEX':
                return '.'.join(rng.choice(['0X%X', '0x%X', '0X%x']) % o for o in octs)
            if style == 'oct':
                return '.'.join('0%o' % o for o in octs)
            if style == 'dword':
                return str(v)
            if style == 'dwordhex':
                return rng.choice(['0x%x', '0x%X', '0X%x', '0x0%x']) % v
            if style == 'dwordoct':
                return '0%o' % v
            if style == 'fullwidth':
                return '.'.join(''.join(chr(0xff10 + int(d)) if rng.random() < 0.5 else d for d in str(o)) for o in octs)
            if style == 'pad':
                return '.'.join(rng.choice(['%d', '0x%02x', '0%04o', '0x000%X']) % o for o in octs)
            return '.'.join(rng.choice(['%d', '0x%x', '0%o', '0X%X']) % o for o in octs)
        # ipv6
        v = self.host
        groups = [(v >> (16 * (7 - k))) & 0xffff for k in range(8)]
        if canonical:
            return '[' + ipaddress.IPv6Address(v).compressed + ']'
        style = rng.choice(['full', 'compressed', 'upper', 'padded', 'v4tail', 'exploded'])
        if style == 'compressed':
            return '[' + ipaddress.IPv6Address(v).compressed + ']'
        if style == 'exploded':
            return '[' + ipaddress.IPv6Address(v).exploded + ']'
        if style == 'upper':
            return '[' + ipaddress.IPv6Address(v).compressed.upper() + ']'
        if style == 'padded':
            return '[' + ':'.join(rng.choice(['%x', '%04x', '%04X']) % g for g in groups) + ']'
        if style == 'v4tail':
            return '[' + ':'.join('%x' % g for g in groups[:6]) + ':%d.%d.%d.%d' % (groups[6] >> 8, groups[6] & 255, groups[7] >> 8, groups[7] & 255) + ']'
        return '[' + ':'.join('%x' % g for g in groups) + ']'

    def spell_escapes(self, rng, s, canonical):
        if canonical:
            return s

        def f(m):
            h = m.group(1)
            return '%' + ''.join(c.upper() if rng.random() < 0.5 else c.lower() for c in h)
        return HEXESC.sub(f, s)

    def render(self, rng, canonical=False):
        out = [self.scheme if canonical else ''.join(c.upper() if rng.random() < 0.3 else c for c in self.scheme), '://']
        if self.user is not None:
            out.append(self.spell_escapes(rng, self.user, canonical))
            if self.pw is not None:
                out.append(':' + self.spell_escapes(rng, self.pw, canonical))
            out.append('@')
        out.append(self.spell_host(rng, canonical))
        if self.port is not None:
            if self.port == NET[self.scheme] and (canonical or rng.random() < 0.5):
                pass
            else:
                out.append(':%d' % self.port)
        elif not canonical and rng.random() < 0.3:
            out.append(':%d' % NET[self.scheme])
        # path
        segs = list(self.segs) + ([''] if self.trailing else [])
        if segs or not canonical:
            p = ''
            for s in segs:
                p += '/'
                if not canonical:
                    r = rng.random()
                    if r < 0.15:
                        p += './'
                    elif r < 0.3:
                        p += rng.choice(['x', 'zz', '%41']) + '/../'
                    elif r < 0.4:
                        p += '/'
                    elif r < 0.45 and p == '/':
                        p += '../'
                p += self.spell_escapes(rng, s, canonical)
            if not segs:
                p = rng.choice(['', '/', '/.', '//', '/./', '/x/..'])
            out.append(p)
        if self.query is not None:
            out.append('?' + self.spell_escapes(rng, self.query, canonical))
        if self.fragment is not None:
            out.append('#' + self.fragment)
        return ''.join(out)

    def clean(self):
        """True if equivalence of spellings is claimed by the property for this spec:
        no segment is itself a dot segment or empty (those are what flattening removes),
        and no raw delimiter inside a segment changes the component split"""
        for s in self.segs:
            if s in ('.', '..', '') or '/' in s or '?' in s or '#' in s:
                return False
        if self.user is not None and any(c in (self.user + (self.pw or '')) for c in '/?#@'):
            return False
        if isinstance(self.host, str) and any(ch.isspace() for ch in self.host):
            return False        # str.strip() removes it only where the URL ends with the host: not a spelling difference
        return True


MUT_CHARS = list(':/?#@[]%.\\ +-_0x') + ['\t', '\n', '\x00', '\x1f', '\x7f', '\xa0', 'é', '\udc80', '。', '０', '%2', '%zz', '::', '//', '..', '@@', ']:', ':0', ':65536', ':-1', ':+80', ': 80', ':8_0', ':٣']


def mutate(rng, s):
    s = list(s)
    for _ in range(rng.choice([1, 1, 2, 3])):
        op = rng.random()
        pos = rng.randrange(len(s) + 1)
        if op < 0.4:
            s.insert(pos, rng.choice(MUT_CHARS))
        elif op < 0.6 and s:
            del s[min(pos, len(s) - 1)]
        elif op < 0.8 and s:
            s[min(pos, len(s) - 1)] = rng.choice(MUT_CHARS)
        elif s:
            a = min(pos, len(s) - 1)
            b = rng.randrange(len(s))
            s[a], s[b] = s[b], s[a]
    return ''.join(s)


SOUP = ['h', 't', 'p', ':', '/', '.', '@', '[', ']', '%', '0', 'x']


def long_host(rng):
    """host names around the 253/255 total-length boundary, every label <= 63"""
    total = rng.choice([250, 252, 253, 254, 255, 256, 300, 1000])
    style = rng.choice(['63', 'one', 'mixed', 'idn'])
    if style == '63':
        labels = ['a' * 63] * (total // 64) + (['b' * (total % 64 - 1)] if total % 64 > 1 else [])
    elif style == 'one':
        labels = [rng.choice('abcxyz019')] * ((total + 1) // 2)
    elif style == 'idn':
        labels = [rng.choice(['b\u00fccher', '\u6587\u5b57', 'ex\u00e4mple', 'a'])] * (total // 8)
    else:
        labels = []
        n = 0
        while n < total:
            k = rng.randrange(1, 64)
            labels.append(rand_text(rng, k, ALNUM))
            n += k + 1
    h = '.'.join(labels)
    if style != 'idn':
        h = h[:total].rstrip('.')
    return h + rng.choice(['', '', '.', ':8080'])


NON_NETWORK = ['data:', 'data:,x', 'DATA:text/plain,hello', 'Data:;base64,AAAA', 'dAtA:image/png;base64,iVBORw0KGgo=', 'data:text/html,<a href=x>',
               'data', 'data:/', 'datax:1', 'xdata:1', 'data\u00a0:x', 'javascript:', 'javascript:void(0)', 'JavaScript:alert(1)', 'about:blank',
               'mailto:', 'mailto:a@b.c', 'MAILTO:A@B', 'tel:+1-555', 'urn:isbn:1', 'blob:http://h/1', 'file:///etc/x', 'view-source:http://h/',
               'magnet:?xt=urn:btih:0', 'sms:1', 'geo:1,2', 'irc://h/c', 'x:', 'x:y', 'x-y+z.w:q', '1:2', 'cid:a@b', 'news:comp.x', 'ssh://h/']
WS = ['', '', ' ', '  ', '\t', '\n', '\u00a0', '\u3000', ' \r\n', '\x1c', '\u2028']


def _confusables():
    """non-ASCII characters that some case-insensitive comparison maps to an ASCII letter: str.lower, str.upper().lower(),
    casefold, NFKC, re.IGNORECASE (U+017F long s, U+212A Kelvin, U+0130, U+0131, full-width letters, U+FB06 …)"""
    import unicodedata
    out = {}
    for cp in range(0x80, 0x30000):
        ch = chr(cp)
        forms = {ch.lower(), ch.upper().lower(), ch.casefold(), unicodedata.normalize('NFKC', ch).lower(),
                 unicodedata.normalize('NFKD', ch).lower()}
        for f in forms:
            if f.isascii() and f.isalpha() and 1 <= len(f) <= 2:
                out.setdefault(f, []).append(ch)
    for letter in 'abcdefghijklmnopqrstuvwxyz':
        for ch in ('\u017f', '\u212a'):
            if re.fullmatch(letter, ch, re.IGNORECASE):
                out.setdefault(letter, []).append(ch)
    return {k: sorted(set(v)) for k, v in out.items()}


CONFUSABLES = _confusables()


def confusable_scheme_cases(rng, n):
    """network schemes spelled with look-alike letters, no explicit port, every tail shape"""
    out = []
    fixed = ['http\u017f', 'w\u017f', 'w\u017f\u017f', 'ws\u017f', 'HTTP\u017f', '\uff48ttp', 'h\uff54tp', '\uff46\uff54\uff50', 'gop\u210eer', 'http\u017F',
             'ht\ufb06p', '\u0131http', 'h\u0130ttp', 'htt\u1d56', 'f\u0167p', 'w\ufb06', 'https\u0307', '\u212aws', 'ftp\u200d']
    tails = ['://example.com/', '://example.com', '://h/p?q#f', ':', '://', ':example.com', '://u:p@h/', '://[::1]/', '://h.x:', ':/x']
    for sch in fixed:
        for t in tails:
            for ds in ('http', None):
                out.append(Case(sch + t, ds, 'utf-8', 'confusable-scheme'))
    for _ in range(n):
        base = rng.choice(list(NET))
        chars = list(base)
        for _k in range(rng.choice([1, 1, 2])):
            pos = rng.randrange(len(chars))
            cands = CONFUSABLES.get(chars[pos].lower()) or CONFUSABLES.get(base[pos:pos + 2]) or []
            if cands:
                special = [c for c in cands if c in '\u017f\u212a\u0130\u0131']
                chars[pos] = rng.choice(special) if special and rng.random() < 0.5 else rng.choice(cands)
        sch = ''.join(c.upper() if (c.isascii() and rng.random() < 0.3) else c for c in chars)
        out.append(Case(rng.choice(WS) + sch + rng.choice(tails), *pick_config(rng), 'confusable-scheme'))
    return out


def gen_non_network(rng):
    """texts without a network scheme (data:, javascript:, mailto: …) in any case, with surrounding white space"""
    t = rng.choice(NON_NETWORK)
    if rng.random() < 0.4:
        t = ''.join(c.upper() if rng.random() < 0.5 else c.lower() for c in t)
    if rng.random() < 0.3:
        t += rng.choice(['x', ',', '%41', '\u00e9', '?q#f', 'A' * 50, '//h/p'])
    return rng.choice(WS) + t + rng.choice(WS)


def non_network_cases(rng, n):
    out = [Case(w1 + t + w2, ds, 'utf-8', 'non-network') for t in NON_NETWORK for (w1, w2) in (('', ''), (' ', ' '), ('\n\t', '\u3000'))
           for ds in ('http', None)]
    out += [Case(gen_non_network(rng), *pick_config(rng), 'non-network') for _ in range(n)]
    return out


def stream_normalize(ctx, wu, cases):
    """wpull.url.normalize(text) = URLInfo.parse(text).url: a str, or a ValueError"""
    for c in cases:
        wu.URLInfo.parse.__func__.cache_clear()
        cj = dict(c.as_json(), stream='normalize')
        ctx.case(('normalize',) + c.key(), tags=['normalize'])
        try:
            with guard():
                r = wu.normalize(c.url, default_scheme=c.ds, encoding=c.encoding)
        except Timeout:
            ctx.fail('nontermination', 'normalize', cj, 'timeout')
            continue
        except ValueError:
            continue
        except LookupError:
            continue
        except BaseException as e:
            ctx.fail('non-valueerror', 'normalize', cj, 'normalize(%r) raised %s: %s' % (c.url, type(e).__name__, str(e)[:200]))
            continue
        if not isinstance(r, str):
            ctx.fail('not-a-urlinfo', 'normalize', cj, 'normalize(%r) returned %r' % (c.url, r))


def gen_malformed(rng):
    r = rng.random()
    if r < 0.04:
        return gen_non_network(rng)
    if r < 0.06:
        return confusable_scheme_cases(rng, 1)[-1].url
    if r < 0.05:
        return rng.choice(['http://', 'https://u@', '//', '']) + long_host(rng) + rng.choice(['', '/', '/p?q'])
    if r < 0.35:
        return ''.join(rng.choice(SOUP) for _ in range(rng.randrange(0, 12)))
    if r < 0.5:
        return 'http://' + ''.join(rng.choice(SOUP + ['1', 'a', 'F', ':', '[', ']']) for _ in range(rng.randrange(0, 14)))
    if r < 0.58:
        return 'http://h:' + rng.choice(['9' * 5000, '1' * 30, '0' * 70 + '80', '-0', '+0', ' 80', '80 ', '8 0', '1_0', '_1', '1_', '1__0', '0x50', '٨٠', '８０', '\xa080', '80\u3000', '', ':', '80:', 'a', '1e3', '٠', '65535', '65536', '0080']) + rng.choice(['', '/', '/p'])
    if r < 0.66:
        lab = rng.choice(['a' * 63, 'a' * 64, 'a' * 300, '1' * 64, '0' * 70 + '1', 'é' * 60, 'a' * 62 + 'é', ''])
        return 'http://' + rng.choice(['%s', '%s.com', 'x.%s', '%s.', '.%s', 'x..%s', '%s..']) % lab + '/'
    if r < 0.74:
        return rng.choice(['http://[', 'http://]', 'http://[]', 'http://[]:80', 'http://[::1', 'http://::1]', 'http://[::1]x', 'http://[::1]:x', 'http://[::1]:80',
                           'http://[::1%eth0]', 'http://[::1%25eth0]/', 'http://[fe80::1%a b]/', 'http://[fe80::1%[]/', 'http://[1.2.3.4]', 'http://[::ffff:1.2.3.4]', 'http://[::ffff:1.2.3.256]',
                           'http://[:::]', 'http://[1:2:3:4:5:6:7:8:9]', 'http://[12345::]', 'http://[g::]', 'http://[::１]', 'http://a@[::1]@b', 'http://[::1]]', 'http://[[::1]]', 'http://x[::1]']) + rng.choice(['', '/', '?q', '#f'])
    if r < 0.82:
        return rng.choice(['', ' ', ':', '::', 'http:', 'http:/', 'http://', 'http:///', 'http:///x', 'http://?', 'http://#', 'http://@', 'http://:80', 'http://@:80', 'http://u:p@', 'http://u:p@:1/',
                           '//', '///', '//x', 'x', 'x.y', 'x.y:80', 'x.y:z', 'localhost', 'localhost:', 'localhost:80', 'LOCALHOST:80/x', 'mailto:x', 'javascript:alert(1)', 'a.b:c:d', 'é:x', 'İ:x', 'HTTP://X', 'ΣΑΣ:x', 'ǅ.x:1',
                           'http://a/\x00', 'http://a/\x1f', '\x00', '\x1c http://a/', '\xa0http://a/\u3000', ' http://a/ ', '\thttp://a/\n', 'ht\ntp://a/'])
    if r < 0.9:
        u = 'http://' + rng.choice(['', 'u@', 'u:p@', '\udc80@', 'u:\udfff@', '%ED%B2%80@', 'é:ü@', '%@', 'a%zz@']) + rng.choice(['h', 'é.com', '１.２.３.４', '0x7F.1', '１２７.0.0.1', '０x7f.0.0.1', '0X7f000001', 'a_b', 'a b', 'a%20b', 'xn--', 'xn--a', 'xn--é', 'XN--MAANA-PTA.com', 'ß.de', 'ǆ.com', '\u200c.com', '\xad.com', 'a\xadb.com', '。com', 'a。b', 'a．b', 'a｡b', '１。２。３。４', '0x.1', '1.2.3', '1.2.3.4.5', '1.2.3.4.', '.1.2.3.4', '1..2.3', '-1', '1.-1.0.0', '+1.2.3.4', '1_0.0.0.1', '0o17', '0b1', '4294967296', '4294967295', '0xffffffff', '0x100000000', '1.2.3.999', '08', '09.1.1.1', '0x_1', '00000000000000000000000000000001'])
        return u + rng.choice(['', '/', '/\udc80', '/?\udc80', '/#\udc80', '/a?b#c'])
    if rng.random() < 0.5:
        return 'http://' + rng.choice(['example.com', 'h', 'a.b']) + rng.choice(NFKC_DELIMS) + rng.choice(['.evil.org/x', '/', 'p?q', '', ':81/'])
    return ''.join(rng.choice(SOUP + NONASCII + SURR + list(SPECIAL) + list('aZ1')) for _ in range(rng.randrange(1, 20)))


def pick_config(rng):
    r = rng.random()
    ds = 'http'
    encoding = 'utf-8'
    if r < 0.12:
        ds = rng.choice([None, 'ftp', 'https', 'mailto', 'x.y', ''])
    r = rng.random()
    if r < 0.1:
        encoding = rng.choice(['latin-1', 'ascii'])
    elif r < 0.18:
        encoding = rng.choice(TABLE_ENCODINGS)
    elif r < 0.24:
        encoding = rng.choice(WIDE_ENCODINGS)
    return ds, encoding


# ------------------------------------------------------------------ component streams
def stream_consts(ctx, wu):
    rep = ctx.model.ask(['url consts', 'url unidb'])
    exp = ' '.join([
        'ports', ';'.join('%s:%d' % (enc(k), v) for k, v in wu.RELATIVE_SCHEME_DEFAULT_PORTS.items()),
        'default', enc(sorted(wu.DEFAULT_ENCODE_SET)), 'password', enc(sorted(wu.PASSWORD_ENCODE_SET)),
        'username', enc(sorted(wu.USERNAME_ENCODE_SET)), 'query', enc(sorted(wu.QUERY_ENCODE_SET)),
        'fragment', enc(sorted(wu.FRAGMENT_ENCODE_SET)), 'forbidden', enc(sorted(ord(c) for c in wu.FORBIDDEN_HOSTNAME_CHARS))])
    # the model lists the sets in source order: compare as sets, ports in order
    def canon(line):
        toks = line.split(' ')
        out = []
        for k in range(0, len(toks), 2):
            name, val = toks[k], toks[k + 1]
            if name != 'ports':
                val = enc(sorted(int(x, 16) for x in val.split('.')))
            else:
                val = ';'.join(sorted(val.split(';')))
            out.append(name + ' ' + val)
        return out
    ctx.case(('consts',), tags=['consts'])
    exp_c = canon(exp)
    exp_c[0] = 'ports ' + ';'.join(sorted(exp.split(' ')[1].split(';')))
    if canon(rep[0]) != exp_c:
        ctx.disagree('consts', {'stream': 'consts'}, rep[0], exp)
    import unicodedata
    sp = [c for c in range(0x110000) if chr(c).isspace()]
    dec_ = [c * 16 + unicodedata.decimal(chr(c)) for c in range(0x110000) if unicodedata.decimal(chr(c), None) is not None]
    real = 'space %s decimal %s' % (enc(sp), enc(dec_))
    ctx.case(('unidb',), tags=['consts'])
    if rep[1] != real:
        ctx.disagree('unidb', {'stream': 'unidb'}, rep[1][:300], real[:300])
    ctx.note('consts_checked', ['RELATIVE_SCHEME_DEFAULT_PORTS', 'DEFAULT/PASSWORD/USERNAME/QUERY/FRAGMENT_ENCODE_SET',
                                'FORBIDDEN_HOSTNAME_CHARS', 'str.isspace (all code points)', 'unicodedata.decimal (all code points)'])


INT_ALPHA = list('0123456789abcfxXoObB_+- ') + ['\xa0', '\u3000', '٣', '０', '９', 'z', 'g', '.', '\x85', '\t', '\x7f', '\x00', '٠', '\U0001d7d8', 'é']


def gen_int_text(rng):
    r = rng.random()
    if r < 0.6:
        return ''.join(rng.choice(INT_ALPHA) for _ in range(rng.randrange(0, 7)))
    if r < 0.8:
        body = '_'.join(rand_text(rng, rng.randrange(1, 4), '0123456789abcdef') for _ in range(rng.randrange(1, 4)))
        return rng.choice(['', ' ', '\xa0']) + rng.choice(['', '+', '-']) + rng.choice(['', '0x', '0X', '0o', '0', '0x_', '0_', '_']) + body + rng.choice(['', ' ', '_', '\u3000 '])
    if r < 0.85:
        return rng.choice(['1', '0', '9']) * rng.choice([4299, 4300, 4301, 5000])
    return str(rng.getrandbits(rng.choice([8, 16, 32, 33, 64])))


def stream_int(ctx, n, rng):
    cases = []
    for _ in range(n):
        cases.append((rng.choice([10, 10, 16, 8]), gen_int_text(rng)))
    cases += [(b, t) for b in (8, 10, 16) for t in ('', '0', '0x', '0x1', '0X1f', '0o7', '0O17', '08', '1_0', '_1', '1_', '1__0', '0x_1', '0x__1', '+1', '-1', '- 1', ' 1 ', '1 1', '٣', '0_7')]
    replies = ctx.model.ask(['url int %d %s' % (b, enc(t)) for b, t in cases])
    for (b, t), rep in zip(cases, replies):
        try:
            v = int(t, b)
            real = 'ok %s%x' % ('-' if v < 0 else '', abs(v))
        except ValueError:
            real = 'exc ValueError'
        ctx.case(('int', b, t), nontrivial=bool(t), tags=['int:' + real.split(' ')[0]])
        if real != rep:
            ctx.disagree('int', {'stream': 'int', 'base': b, 'text': t}, rep, real)


def stream_ipv4(ctx, wu, n, rng):
    cases = []
    for _ in range(n):
        r = rng.random()
        if r < 0.5:
            cases.append('.'.join(gen_int_text(rng) for _ in range(rng.choice([1, 4, 4, 4, 2, 5]))))
        else:
            v = rng.getrandbits(rng.choice([8, 24, 32, 32, 33]))
            octs = [(v >> s) & 255 for s in (24, 16, 8, 0)]
            cases.append(rng.choice(['.'.join(rng.choice(['%d', '0x%x', '0%o', '0X%x', '0x%X']) % o for o in octs), str(v), '0x%x' % v, '0%o' % v, '%d.%d.%d.%d' % (v >> 24, 300, -1, 70000)]))
    replies = ctx.model.ask(['url ipv4 %s' % enc(t) for t in cases])
    for t, rep in zip(cases, replies):
        try:
            real = 'ok ' + enc(wu.normalize_ipv4_address(t))
        except ValueError:
            real = 'exc ValueError'
        ctx.case(('ipv4', t), nontrivial=bool(t), tags=['ipv4:' + real.split(' ')[0]])
        if real != rep:
            ctx.disagree('ipv4', {'stream': 'ipv4', 'text': t}, rep, real)
        if real.startswith('ok'):
            out = wu.normalize_ipv4_address(t)
            try:
                again = wu.normalize_ipv4_address(out)
            except ValueError:
                again = None
            if again != out:
                ctx.fail('not-idempotent', 'normalize_ipv4_address', {'stream': 'ipv4', 'text': t}, '%r -> %r -> %r' % (t, out, again))


def stream_strings(ctx, wu, n, rng):
    """flatten_path, uppercase_percent_encoding, percent_encode, str.strip"""
    reqs, meta = [], []
    for _ in range(n):
        k = rng.random()
        if k < 0.4:
            p = ''.join(rng.choice(['/', '/', '.', '..', 'a', 'b', '%2e', '', 'é', './', '/..', '//']) for _ in range(rng.randrange(0, 9)))
            fs = rng.random() < 0.7
            reqs.append('url flatten %s %s' % ('T' if fs else 'F', enc(p)))
            meta.append(('flatten', (p, fs)))
        elif k < 0.65:
            t = ''.join(rng.choice(['%', '%', 'a', 'f', 'F', 'A', '0', '9', 'g', 'G', 'x', '%%', 'é']) for _ in range(rng.randrange(0, 10)))
            reqs.append('url upper %s' % enc(t))
            meta.append(('upper', t))
        elif k < 0.9:
            b = bytes(rng.choice([rng.randrange(256), rng.choice(b' "#<>?`/@\\:%+&a~\x7f\x1f\x20\x7e\x80')]) for _ in range(rng.randrange(0, 10)))
            s = rng.choice(['default', 'password', 'username', 'query', 'fragment'])
            reqs.append('url pct %s %s' % (s, enc(b)))
            meta.append(('pct', (s, b)))
        else:
            t = ''.join(rng.choice([' ', '\t', '\xa0', '\u3000', 'a', '\x1c', '\x85', '\u200b', '\u2028', 'b', '\ufeff', '\x0b']) for _ in range(rng.randrange(0, 8)))
            reqs.append('url strip %s' % enc(t))
            meta.append(('strip', t))
    replies = ctx.model.ask(reqs)
    sets = {'default': wu.DEFAULT_ENCODE_SET, 'password': wu.PASSWORD_ENCODE_SET, 'username': wu.USERNAME_ENCODE_SET,
            'query': wu.QUERY_ENCODE_SET, 'fragment': wu.FRAGMENT_ENCODE_SET}
    for (kind, arg), rep in zip(meta, replies):
        if kind == 'flatten':
            real = wu.flatten_path(arg[0], flatten_slashes=arg[1])
            if arg[1]:
                again = wu.flatten_path(real, flatten_slashes=True)
                segs = real.split('/')
                if again != real or not real.startswith('/') or any(s in ('.', '..') for s in segs) or any(s == '' for s in segs[1:-1]):
                    ctx.fail('path-not-flat', 'flatten_path', {'stream': 'flatten', 'path': arg[0]}, '%r -> %r -> %r' % (arg[0], real, again))
        elif kind == 'upper':
            real = wu.uppercase_percent_encoding(arg)
            m = [x for x in HEXESC.finditer(real) if x.group(1) != x.group(1).upper()]
            if m or wu.uppercase_percent_encoding(real) != real:
                ctx.fail('escape-not-upper', 'uppercase_percent_encoding', {'stream': 'upper', 'text': arg}, '%r -> %r' % (arg, real))
        elif kind == 'pct':
            real = wu.percent_encode(arg[1].decode('latin-1'), sets[arg[0]], 'latin-1')
            if wu.percent_encode(real, sets[arg[0]], 'latin-1') != real and 37 not in sets[arg[0]]:
                ctx.fail('not-idempotent', 'percent_encode', {'stream': 'pct', 'set': arg[0], 'bytes': arg[1]}, '%r' % real)
        else:
            real = arg.strip()
        ctx.case((kind, arg), nontrivial=bool(arg), tags=['str:' + kind])
        if enc(real) != rep:
            ctx.disagree(kind, {'stream': kind, 'arg': arg}, rep, enc(real))


ISO2022_CODECS = ['iso2022_jp', 'iso2022_jp_1', 'iso2022_jp_2', 'iso2022_jp_2004', 'iso2022_jp_3', 'iso2022_jp_ext', 'iso2022_kr']
_PCT_CHARS = {}


def pct_chars(codec):
    """kana / kanji / hangul whose 7-bit encoding holds the byte '%' (they can spell %xy escapes in the encoded text)"""
    if codec not in _PCT_CHARS:
        hits = []
        for cp in list(range(0x3041, 0x3100)) + list(range(0x4e00, 0xa000)) + list(range(0xac00, 0xd7a4)) + list(range(0xff61, 0xffa0)):
            try:
                b = chr(cp).encode(codec)
            except Exception:
                continue
            if b'%' in b:
                hits.append(chr(cp))
        _PCT_CHARS[codec] = hits
    return _PCT_CHARS[codec]


def iso2022_cases(rng, n):
    """ISO-2022 family: texts whose ENCODED bytes contain '%' followed by hex-digit bytes, in path / query / fragment"""
    out = [Case('http://h/\u30e1\u30e2\u5316?\u30e1\u30e2\u5316#\u30e1\u30e2\u5316', 'http', 'iso2022_jp', 'iso2022')]
    for _ in range(n):
        codec = rng.choice(ISO2022_CODECS)
        chars = pct_chars(codec)
        if not chars:
            continue
        # keep texts whose encoding really spells % + two hex digits, some with a lower-case letter
        for _try in range(6):
            t = ''.join(rng.choice(chars) for _ in range(rng.randrange(1, 4))) + rng.choice(['', '\u5316', 'a', '\u30a2'])
            try:
                b = t.encode(codec)
            except UnicodeError:
                continue
            if re.search(rb'%[0-9a-fA-F]{2}', b):
                break
        tmpl = rng.choice(['http://h/%s', 'http://h/a/%s/b?x=1', 'http://h/?q=%s', 'http://h/p?%s=1#%s', 'http://h/%s?%s'])
        out.append(Case(tmpl.replace('%s', t), 'http', codec, 'iso2022'))
    return out


BRACE_LINKS = ['http://example.com/api/{id}/view#!/details', 'http://example.com/{}#!x', 'http://example.com/{0}#!', 'http://example.com/{0!r}#!a',
               'http://example.com/{:>9}?a=1#!b', 'http://example.com/odd}path#!z', 'http://example.com/odd{path#!z', 'http://example.com/{{x}}#!y',
               'http://example.com/?q={\"a\":1}#!s', 'https://example.com/%s#!%s', 'http://example.com/%(x)s?%(y)d#!f', 'http://example.com/p?{user}#!{frag}',
               'http://example.com/{id}', 'http://example.com/a#!{0}', 'http://example.com/{a}{b}?{c}#!{d}', 'http://example.com/}{#!', 'ftp://example.com/{id}#!x']


def ref_rewrite(wu, info, hash_fragment, session_id):
    """what URLRewriter.rewrite has to give, assembled by plain concatenation (no format strings)"""
    import wpull.urlrewrite as wr
    if info.scheme not in ('http', 'https'):
        return info
    if session_id:
        url = info.scheme + '://' + info.authority + wr.strip_path_session_id(info.path) + '?' + \
            wr.strip_query_session_id(info.query) + '#' + info.fragment
        info = wu.parse_url_or_log(url) or info
    if hash_fragment and info.fragment.startswith('!'):
        url = info.url + ('&' if info.query else '?') + '_escaped_fragment_=' + info.fragment[1:]
        info = wu.parse_url_or_log(url) or info
    return info


def all_codecs():
    """every codec name Python knows: the alias table plus the codecs without an alias"""
    import encodings.aliases
    names = set(encodings.aliases.aliases.values()) | {
        'idna', 'punycode', 'raw_unicode_escape', 'unicode_escape', 'rot_13', 'base64_codec', 'hex_codec', 'zlib_codec',
        'bz2_codec', 'quopri_codec', 'uu_codec', 'undefined', 'mbcs', 'oem', 'utf_8_sig', 'charmap', 'unicode_internal'}
    out = []
    for n in sorted(names):
        try:
            codecs.lookup(n)
        except LookupError:
            continue
        out.append(n)
    return out


ALL_CODEC_URLS = ['http://example.com/my file.html', 'http://example.com/Docs/\u00fcber.html?x=\u00fc.y', 'http://h/%41%zz?a b#c d',
                  'http://u%20s:p@h/\u00e9/~x+y?\u6587=1', 'http://h/a\\b?c|d', 'http://h/']


def all_codec_cases():
    return [Case(u, 'http', n, 'all-codecs') for n in all_codecs() for u in ALL_CODEC_URLS]


SWEEP_CODECS = ['latin-1', 'cp1252', 'iso8859-15', 'cp1251', 'koi8-r', 'iso8859-2', 'cp1250', 'iso8859-5', 'iso8859-7', 'cp437', 'cp850',
                'cp866', 'mac-roman', 'shift_jis', 'euc-jp', 'gbk', 'euc-kr', 'big5', 'utf-8']


def byte_sweep_cases():
    """the `encoding` argument as a dimension: per codec, for every byte value 0x80..0xFF a character whose encoding
    holds that byte, placed in path, query, fragment and user info"""
    out = []
    for codec in SWEEP_CODECS:
        chars = {}
        for b in range(0x80, 0x100):
            try:
                ch = bytes([b]).decode(codec)
                if len(ch) == 1 and ord(ch) >= 0x80:
                    chars[b] = ch
            except UnicodeError:
                pass
        if len(chars) < 100:
            # multi-byte codec: cover the byte values through two-byte sequences
            for lead in range(0x81, 0xFF):
                for trail in list(range(0x40, 0x7F)) + list(range(0x80, 0x100)):
                    if lead in chars and trail in chars:
                        continue
                    try:
                        ch = bytes([lead, trail]).decode(codec)
                    except UnicodeError:
                        continue
                    if len(ch) == 1:
                        chars.setdefault(lead, ch)
                        if trail >= 0x80:
                            chars.setdefault(trail, ch)
        for b, ch in sorted(chars.items()):
            for tmpl in ('http://h/p%s/x', 'http://h/?q=%s', 'http://h/#%s', 'http://u%s:p%s@h/'):
                out.append(Case(tmpl.replace('%s', ch), 'http', codec, 'byte-sweep'))
    return out


def stream_pct256(ctx, wu):
    """percent_encode over every byte value for each of the five encode sets"""
    sets = {'default': wu.DEFAULT_ENCODE_SET, 'password': wu.PASSWORD_ENCODE_SET, 'username': wu.USERNAME_ENCODE_SET,
            'query': wu.QUERY_ENCODE_SET, 'fragment': wu.FRAGMENT_ENCODE_SET}
    reqs, meta = [], []
    for name in sets:
        for b in range(256):
            reqs.append('url pct %s %s' % (name, enc(bytes([b]))))
            meta.append((name, b))
    replies = ctx.model.ask(reqs)
    for (name, b), rep in zip(meta, replies):
        case = {'stream': 'pct', 'set': name, 'bytes': bytes([b])}
        ctx.case(('pct256', name, b), tags=['str:pct256'])
        try:
            real = enc(wu.percent_encode(bytes([b]).decode('latin-1'), sets[name], 'latin-1'))
        except Exception as e:
            ctx.fail('non-valueerror', 'percent_encode', case, 'percent_encode raised %s: %r for byte 0x%02x' % (type(e).__name__, e, b))
            continue
        if real != rep:
            ctx.disagree('pct', case, rep, real)
    ctx.note('pct256', 'percent_encode compared for all 256 byte values x 5 encode sets')


def replay_level(case):
    """the logging level a failing case was observed under"""
    name = case.get('log_level') or (case.get('history') or {}).get('log_level') or 'WARNING'
    return log_level(getattr(logging, name, logging.WARNING))


def replay_history(wu, case):
    n = int((case.get('history') or {}).get('urls_parsed_before', 0))
    for k in range(n):
        try:
            wu.URLInfo.parse(warm_url(5 * 10 ** 6 + k))
        except Exception:
            pass


def load_corpus(ctx, pid):
    import glob
    import json
    from runner import unjson
    out = []
    for p in sorted(glob.glob(os.path.join(ctx.verif, 'harness', 'corpus', pid, '*.json'))):
        with open(p) as f:
            out.append(unjson(json.load(f)))
    return out


def case_of_json(j):
    return Case(j['url'], j.get('default_scheme', 'http'), j.get('encoding', 'utf-8'), kind='corpus')
